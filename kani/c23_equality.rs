//@file nervusdb-query/src/evaluator/evaluator_equality.rs
//@crate nervusdb-query
//@covers nervusdb-query/src/evaluator/evaluator_equality.rs::cypher_equals
//@covers nervusdb-query/src/evaluator/evaluator_equality.rs::float_equals_int
//@covers nervusdb-query/src/evaluator/evaluator_equality.rs::cypher_equals_sequence
// Kani harnesses for C23 (equality is an equivalence on non-null, non-NaN values; null propagates;
// results are three-valued).  Appended under cfg(kani) inside the real evaluator_equality.rs.
//
//@harness c23_eq_scalar_pairs complete "Null, Bool, Int, Float, DateTime, NodeId, String(empty) in every kind pair, symbolic payloads: result is Bool or Null, Null iff an operand is Null, symmetric, reflexive off NaN"
//@harness c23_eq_numeric_trans complete "Int/Float in every kind triple, all 64-bit payloads (non-NaN): a=b & b=c => a=c"
//@harness c23_eq_list_and3_b2_vv bounded(len<=2) "2-element lists [Int, Int] = [Int, Int], all payloads: list equality is the three-valued AND of the element equalities, symmetric, boolean or null"
//@harness c23_eq_list_and3_b2_nv bounded(len<=2) "2-element lists [null, Int] = [Int, Int]: false wins over null whatever the position of the null"
//@harness c23_eq_list_and3_b2_vn bounded(len<=2) "2-element lists [Int, null] = [Int, Int]"
//@harness c23_eq_list_and3_b2_nn bounded(len<=2) "2-element lists [null, null] = [Int, Int]"
//@harness c23_eq_list_b2 bounded(len<=2) tier=thorough "lists of <= 2 numeric/null elements: three-valued, symmetric, null element makes an otherwise equal comparison Null"
#[cfg(kani)]
mod verif_kani_c23_eq {
    use super::*;

    fn scalar(kind: u8, p: u64) -> Value {
        match kind {
            0 => Value::Null,
            1 => Value::Bool(p & 1 == 1),
            2 => Value::Int(p as i64),
            3 => Value::Float(f64::from_bits(p)),
            4 => Value::DateTime(p as i64),
            5 => Value::NodeId(p as u32),
            _ => Value::String(String::new()),
        }
    }
    fn is_nan(v: &Value) -> bool { matches!(v, Value::Float(f) if f.is_nan()) }
    // Every Value whose tag is symbolic MUST be forgotten: its drop glue would otherwise be explored
    // for all variants, recursively (measured: symbolic execution does not terminate).
    fn tri(v: Value) -> u8 {
        let t = match &v { Value::Bool(true) => 1, Value::Bool(false) => 0, Value::Null => 2, _ => 3 };
        core::mem::forget(v);
        t
    }

    #[kani::proof]
    fn c23_eq_scalar_pairs() {
        let (p, q): (u64, u64) = (kani::any(), kani::any());
        let mut ka = 0u8;
        while ka < 7 {
            let mut kb = 0u8;
            while kb < 7 {
                let (a, b) = (scalar(ka, p), scalar(kb, q));
                let ab = tri(cypher_equals(&a, &b));
                let ba = tri(cypher_equals(&b, &a));
                assert!(ab != 3, "C23.result.tri.eq");
                assert!((ab == 2) == (ka == 0 || kb == 0), "C23.null.propagation.eq");
                assert!(ab == ba, "C23.eq.symmetric");
                if ka != 0 && !is_nan(&a) {
                    assert!(tri(cypher_equals(&a, &a)) == 1, "C23.eq.reflexive");
                }
                core::mem::forget(a);
                core::mem::forget(b);
                kb += 1;
            }
            ka += 1;
        }
        kani::cover!(f64::from_bits(p).is_nan(), "reach: NaN");
    }

    fn num(kind: u8, p: u64) -> Value {
        if kind == 0 { Value::Int(p as i64) } else { Value::Float(f64::from_bits(p)) }
    }

    #[kani::proof]
    fn c23_eq_numeric_trans() {
        let (p, q, r): (u64, u64, u64) = (kani::any(), kani::any(), kani::any());
        let mut ka = 0u8;
        while ka < 2 {
            let mut kb = 0u8;
            while kb < 2 {
                let mut kc = 0u8;
                while kc < 2 {
                    let (a, b, c) = (num(ka, p), num(kb, q), num(kc, r));
                    let ab = tri(cypher_equals(&a, &b));
                    let bc = tri(cypher_equals(&b, &c));
                    let ac = tri(cypher_equals(&a, &c));
                    assert!(!(ab == 1 && bc == 1) || ac == 1, "C23.eq.transitive");
                    kc += 1;
                }
                kb += 1;
            }
            ka += 1;
        }
        kani::cover!(p == q && q == r, "reach: equal payloads");
    }

    fn elem(kind: u8, p: u64) -> Value {
        match kind { 0 => Value::Null, 1 => Value::Int(p as i64), _ => Value::Float(f64::from_bits(p)) }
    }

    #[kani::proof]
    #[kani::unwind(4)]
    fn c23_eq_list_b2() {
        let (p, q): (u64, u64) = (kani::any(), kani::any());
        let mut ka = 0u8;
        while ka < 3 {
            let mut kb = 0u8;
            while kb < 3 {
                // [Int 7, x] vs [Int 7, y]
                let l = [Value::Int(7), elem(ka, p)];
                let r = [Value::Int(7), elem(kb, q)];
                let lr = tri(cypher_equals_sequence(&l, &r));
                let rl = tri(cypher_equals_sequence(&r, &l));
                let xy = tri(cypher_equals(&l[1], &r[1]));
                assert!(lr != 3, "C23.result.tri.eq_list.b2");
                assert!(lr == rl, "C23.eq.list.symmetric.b2");
                assert!(lr == xy, "C23.eq.list.elementwise.b2");
                // different lengths are never equal
                let short = [Value::Int(7)];
                assert!(tri(cypher_equals_sequence(&short, &r)) == 0, "C23.eq.list.length.b2");
                core::mem::forget(l);
                core::mem::forget(r);
                core::mem::forget(short);
                kb += 1;
            }
            ka += 1;
        }
        kani::cover!(true, "reach: end");
    }
    fn and3(x: u8, y: u8) -> u8 { if x == 0 || y == 0 { 0 } else if x == 2 || y == 2 { 2 } else { 1 } }

    // one harness per null pattern (which positions hold a null on the left); payloads symbolic
    fn list_case(null0: bool, null1: bool) {
        let (p1, p2, q1, q2): (i64, i64, i64, i64) = (kani::any(), kani::any(), kani::any(), kani::any());
        // stack arrays, not Vec: a tag read back from the heap becomes symbolic for CBMC and drags every arm of
        // cypher_equals (maps, nested lists) into the formula (measured: no verdict in 15 min with vec!)
        let l = [if null0 { Value::Null } else { Value::Int(p1) }, if null1 { Value::Null } else { Value::Int(p2) }];
        let r = [Value::Int(q1), Value::Int(q2)];
        let lr = tri(cypher_equals_sequence(&l, &r));
        let rl = tri(cypher_equals_sequence(&r, &l));
        let e0 = if null0 { 2 } else if p1 == q1 { 1 } else { 0 };
        let e1 = if null1 { 2 } else if p2 == q2 { 1 } else { 0 };
        assert!(lr != 3, "C23.result.tri.eq_list.and3");
        assert!(lr == and3(e0, e1), "C23.eq.list.three_valued_and.b2");
        assert!(lr == rl, "C23.eq.list.symmetric.and3");
        kani::cover!(lr == and3(e0, e1) && lr != 1, "reach: a non-true outcome");
        core::mem::forget(l);
        core::mem::forget(r);
    }
    #[kani::proof]
    #[kani::unwind(4)]
    fn c23_eq_list_and3_b2_vv() { list_case(false, false) }
    #[kani::proof]
    #[kani::unwind(4)]
    fn c23_eq_list_and3_b2_nv() { list_case(true, false) }
    #[kani::proof]
    #[kani::unwind(4)]
    fn c23_eq_list_and3_b2_vn() { list_case(false, true) }
    #[kani::proof]
    #[kani::unwind(4)]
    fn c23_eq_list_and3_b2_nn() { list_case(true, true) }
}
