//@file nervusdb-query/src/evaluator/evaluator_compare.rs
//@crate nervusdb-query
//@covers nervusdb-query/src/evaluator/evaluator_compare.rs::compare_values
//@covers nervusdb-query/src/evaluator/evaluator_compare.rs::compare_numbers_for_range
//@covers nervusdb-query/src/evaluator/evaluator_compare.rs::compare_i64_f64
// Kani harnesses for C23 (<, <=, >, >= agree with = and with each other, including between integers
// and floats; null propagates; results are three-valued).  The closures are the ones the operator arms
// of evaluate_expression_value pass.  Appended under cfg(kani) inside the real evaluator_compare.rs.
//
//@harness c23_cmp_numeric_laws_ii complete "kind pair ii (i=Int, f=Float), all 64-bit payloads: a<b <=> b>a; a<=b <=> a<b or a=b; a>=b <=> a>b or a=b; exclusivity; trichotomy off NaN; all false on NaN; agreement with the ORDER BY comparator"
//@harness c23_cmp_numeric_laws_if complete "kind pair if (i=Int, f=Float), all 64-bit payloads: a<b <=> b>a; a<=b <=> a<b or a=b; a>=b <=> a>b or a=b; exclusivity; trichotomy off NaN; all false on NaN; agreement with the ORDER BY comparator"
//@harness c23_cmp_numeric_laws_fi complete "kind pair fi (i=Int, f=Float), all 64-bit payloads: a<b <=> b>a; a<=b <=> a<b or a=b; a>=b <=> a>b or a=b; exclusivity; trichotomy off NaN; all false on NaN; agreement with the ORDER BY comparator"
//@harness c23_cmp_numeric_laws_ff complete "kind pair ff (i=Int, f=Float), all 64-bit payloads: a<b <=> b>a; a<=b <=> a<b or a=b; a>=b <=> a>b or a=b; exclusivity; trichotomy off NaN; all false on NaN; agreement with the ORDER BY comparator"
//@harness c23_cmp_scalar_tri_null complete "left operand null against Null, Bool, Int, Float, DateTime, NodeId (symbolic payloads), all four comparison operators: result is Bool or Null; Null if an operand is Null"
//@harness c23_cmp_scalar_tri_bool complete "left operand bool against Null, Bool, Int, Float, DateTime, NodeId (symbolic payloads), all four comparison operators: result is Bool or Null; Null if an operand is Null"
//@harness c23_cmp_scalar_tri_int complete "left operand int against Null, Bool, Int, Float, DateTime, NodeId (symbolic payloads), all four comparison operators: result is Bool or Null; Null if an operand is Null"
//@harness c23_cmp_scalar_tri_float complete "left operand float against Null, Bool, Int, Float, DateTime, NodeId (symbolic payloads), all four comparison operators: result is Bool or Null; Null if an operand is Null"
//@harness c23_cmp_scalar_tri_datetime complete "left operand datetime against Null, Bool, Int, Float, DateTime, NodeId (symbolic payloads), all four comparison operators: result is Bool or Null; Null if an operand is Null"
//@harness c23_cmp_scalar_tri_nodeid complete "left operand nodeid against Null, Bool, Int, Float, DateTime, NodeId (symbolic payloads), all four comparison operators: result is Bool or Null; Null if an operand is Null"
//@harness c23_cmp_bool_and_cross_kind complete "Bool against Bool: <, <=, >, >= follow false < true and agree with =; operands of different comparable kinds (Bool/Int/Float/DateTime/NodeId, not both numeric) give null for all four operators"
//@harness c23_cmp_list_b2 bounded(len<=2) "2-element Int lists on stack arrays: <, <=, >, >= are the lexicographic comparison and agree with each other; a shorter prefix is smaller"
//@harness c23_cmp_i64_f64_exact complete "compare_i64_f64 against exact integer arithmetic for every i64 and every finite f64 whose value is an integer below 2^63 in magnitude"
#[cfg(kani)]
mod verif_kani_c23_cmp {
    use super::*;
    use super::super::evaluator_equality::cypher_equals;
    use super::super::order_compare;

    fn num(kind: u8, p: u64) -> Value {
        if kind == 0 { Value::Int(p as i64) } else { Value::Float(f64::from_bits(p)) }
    }
    // Every Value whose tag is symbolic MUST be forgotten (drop glue of a symbolic tag never terminates).
    fn tri(v: Value) -> u8 {
        let t = match &v { Value::Bool(true) => 1, Value::Bool(false) => 0, Value::Null => 2, _ => 3 };
        core::mem::forget(v);
        t
    }
    fn lt(a: &Value, b: &Value) -> u8 { tri(compare_values(a, b, |ord| ord == Ordering::Less)) }
    fn le(a: &Value, b: &Value) -> u8 { tri(compare_values(a, b, |ord| ord == Ordering::Less || ord == Ordering::Equal)) }
    fn gt(a: &Value, b: &Value) -> u8 { tri(compare_values(a, b, |ord| ord == Ordering::Greater)) }
    fn ge(a: &Value, b: &Value) -> u8 { tri(compare_values(a, b, |ord| ord == Ordering::Greater || ord == Ordering::Equal)) }

    fn laws(ka: u8, kb: u8) {
        let (p, q): (u64, u64) = (kani::any(), kani::any());
        let (a, b) = (num(ka, p), num(kb, q));
        let eq = tri(cypher_equals(&a, &b));
        let (l, le_, g, ge_) = (lt(&a, &b), le(&a, &b), gt(&a, &b), ge(&a, &b));
        assert!(l < 2 && le_ < 2 && g < 2 && ge_ < 2 && eq < 2, "C23.result.tri.cmp_numeric");
        assert!(l == gt(&b, &a), "C23.cmp.agree.lt_gt_swap");
        assert!(le_ == ge(&b, &a), "C23.cmp.agree.le_ge_swap");
        assert!((le_ == 1) == (l == 1 || eq == 1), "C23.cmp.agree.le_is_lt_or_eq");
        assert!((ge_ == 1) == (g == 1 || eq == 1), "C23.cmp.agree.ge_is_gt_or_eq");
        assert!(!(l == 1 && eq == 1) && !(g == 1 && eq == 1) && !(l == 1 && g == 1), "C23.cmp.agree.exclusive");
        let nan = matches!(a, Value::Float(f) if f.is_nan()) || matches!(b, Value::Float(f) if f.is_nan());
        if nan {
            assert!(l == 0 && le_ == 0 && g == 0 && ge_ == 0 && eq == 0, "C23.cmp.nan_all_false");
        } else {
            assert!(l + eq + g == 1, "C23.cmp.trichotomy");
            // the WHERE comparison and the ORDER BY comparator agree on numbers
            assert!((l == 1) == (order_compare(&a, &b) == Ordering::Less), "C23.cmp.agree.order_by");
        }
        kani::cover!(eq == 1, "reach: equal operands");
        core::mem::forget(a);
        core::mem::forget(b);
    }
    #[kani::proof]
    fn c23_cmp_numeric_laws_ii() { laws(0, 0) }
    #[kani::proof]
    fn c23_cmp_numeric_laws_if() { laws(0, 1) }
    #[kani::proof]
    fn c23_cmp_numeric_laws_fi() { laws(1, 0) }
    #[kani::proof]
    fn c23_cmp_numeric_laws_ff() { laws(1, 1) }

    fn scalar(kind: u8, p: u64) -> Value {
        match kind {
            0 => Value::Null,
            1 => Value::Bool(p & 1 == 1),
            2 => Value::Int(p as i64),
            3 => Value::Float(f64::from_bits(p)),
            4 => Value::DateTime(p as i64),
            _ => Value::NodeId(p as u32),
        }
    }

    fn tri_row(ka: u8) {
        let (p, q): (u64, u64) = (kani::any(), kani::any());
        let mut kb = 0u8;
        while kb < 6 {
            let (a, b) = (scalar(ka, p), scalar(kb, q));
            let (l, le_, g, ge_) = (lt(&a, &b), le(&a, &b), gt(&a, &b), ge(&a, &b));
            assert!(l != 3 && le_ != 3 && g != 3 && ge_ != 3, "C23.result.tri.cmp");
            if ka == 0 || kb == 0 {
                assert!(l == 2 && le_ == 2 && g == 2 && ge_ == 2, "C23.null.propagation.cmp");
            }
            core::mem::forget(a);
            core::mem::forget(b);
            kb += 1;
        }
        kani::cover!(true, "reach: end");
    }
    #[kani::proof]
    fn c23_cmp_scalar_tri_null() { tri_row(0) }
    #[kani::proof]
    fn c23_cmp_scalar_tri_bool() { tri_row(1) }
    #[kani::proof]
    fn c23_cmp_scalar_tri_int() { tri_row(2) }
    #[kani::proof]
    fn c23_cmp_scalar_tri_float() { tri_row(3) }
    #[kani::proof]
    fn c23_cmp_scalar_tri_datetime() { tri_row(4) }
    #[kani::proof]
    fn c23_cmp_scalar_tri_nodeid() { tri_row(5) }

    #[kani::proof]
    fn c23_cmp_i64_f64_exact() {
        let i: i64 = kani::any();
        let j: i64 = kani::any();
        // every float that is exactly an integer in i64 range is `j as f64` for a j that converts exactly
        let f = j as f64;
        kani::assume(f < 9_223_372_036_854_775_808.0 && (f as i64) == j);
        assert!(compare_i64_f64(i, f) == i.cmp(&j), "C23.cmp.i64_f64.exact_on_integers");
        // half-way values: j + 0.5 is exact for |j| < 2^52
        kani::assume(j > -(1i64 << 52) && j < (1i64 << 52));
        let h = f + 0.5;
        assert!(compare_i64_f64(i, h) == if i <= j { Ordering::Less } else { Ordering::Greater }, "C23.cmp.i64_f64.exact_on_halves");
        kani::cover!(i == j, "reach: equal");
    }
    #[kani::proof]
    fn c23_cmp_bool_and_cross_kind() {
        let (p, q): (u64, u64) = (kani::any(), kani::any());
        let (a, b) = (p & 1 == 1, q & 1 == 1);
        let (va, vb) = (Value::Bool(a), Value::Bool(b));
        assert!(lt(&va, &vb) == (!a && b) as u8, "C23.cmp.bool.order.lt");
        assert!(le(&va, &vb) == (!a || b) as u8, "C23.cmp.bool.order.le");
        assert!(gt(&va, &vb) == (a && !b) as u8, "C23.cmp.bool.order.gt");
        assert!(ge(&va, &vb) == (a || !b) as u8, "C23.cmp.bool.order.ge");
        assert!((le(&va, &vb) == 1) == (lt(&va, &vb) == 1 || tri(cypher_equals(&va, &vb)) == 1), "C23.cmp.bool.le_is_lt_or_eq");
        // kinds 1..=5 of `scalar`: Bool, Int, Float, DateTime, NodeId
        let mut ka = 1u8;
        while ka < 6 {
            let mut kb = 1u8;
            while kb < 6 {
                let numeric = |k: u8| k == 2 || k == 3;
                if ka != kb && !(numeric(ka) && numeric(kb)) {
                    let (x, y) = (scalar(ka, p), scalar(kb, q));
                    assert!(lt(&x, &y) == 2 && le(&x, &y) == 2 && gt(&x, &y) == 2 && ge(&x, &y) == 2, "C23.cmp.cross_kind_is_null");
                    core::mem::forget(x);
                    core::mem::forget(y);
                }
                kb += 1;
            }
            ka += 1;
        }
        kani::cover!(a && !b, "reach: true vs false");
    }

    #[kani::proof]
    #[kani::unwind(4)]
    fn c23_cmp_list_b2() {
        let (p1, p2, q1, q2): (i64, i64, i64, i64) = (kani::any(), kani::any(), kani::any(), kani::any());
        // stack arrays wrapped by hand: compare_lists_for_range takes slices (a Vec would put the tags on the heap)
        let l = [Value::Int(p1), Value::Int(p2)];
        let r = [Value::Int(q1), Value::Int(q2)];
        let want = (p1, p2).cmp(&(q1, q2));
        let t = |v: Value| tri(v);
        assert!(t(compare_lists_for_range(&l, &r, &|o: Ordering| o == Ordering::Less)) == (want == Ordering::Less) as u8, "C23.cmp.list.lt.b2");
        assert!(t(compare_lists_for_range(&l, &r, &|o: Ordering| o == Ordering::Less || o == Ordering::Equal)) == (want != Ordering::Greater) as u8, "C23.cmp.list.le.b2");
        assert!(t(compare_lists_for_range(&l, &r, &|o: Ordering| o == Ordering::Greater)) == (want == Ordering::Greater) as u8, "C23.cmp.list.gt.b2");
        assert!(t(compare_lists_for_range(&l[..1], &l, &|o: Ordering| o == Ordering::Less)) == 1, "C23.cmp.list.prefix_smaller.b2");
        core::mem::forget(l);
        core::mem::forget(r);
        kani::cover!(p1 == q1 && p2 < q2, "reach: decided by the second element");
    }
}
