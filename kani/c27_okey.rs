//@file nervusdb-storage/src/index/ordered_key.rs
//@crate nervusdb-storage
//@covers nervusdb-storage/src/index/ordered_key.rs::encode_ordered_value
//@covers nervusdb-storage/src/index/ordered_key.rs::encode_index_key
//@trusted Vec/slice comparison (`<`, `==` on [u8]) is std's lexicographic order, as compiled by Kani (memcmp model)
// Kani harnesses for C27 (index key encoding preserves order and equality).
// Appended verbatim, under cfg(kani), to the end of the real ordered_key.rs of a
// scratch copy of /repo's working tree; `super::*` is the real module.
//
//@harness c27_int_pair complete "all pairs of i64: order, equality, length, prefix-freedom"
//@harness c27_datetime_pair complete "all pairs of i64 datetimes"
//@harness c27_bool_null complete "all bools, null"
//@harness c27_float_pair complete "all pairs of non-NaN f64 bit patterns (both zeros, infinities, subnormals)"
//@harness c27_fixed_cross_kind complete "all pairs of fixed-width kinds, symbolic payloads: never a proper prefix, tag order"
//@harness c27_index_key_int complete "encode_index_key orders by (index id, value, node id) for all u32 x i64 x u64 pairs"
//@harness c27_str_pair_b2 bounded(len<=2) tier=thorough "pairs of byte strings of length <= 2 (witness generator for the unbounded Verus obligations)"
//@harness c27_blob_pair_b2 bounded(len<=2) tier=thorough "pairs of blobs of length <= 2 (witness generator)"
#[cfg(kani)]
mod verif_kani_c27 {
    use super::*;

    fn proper_prefix(a: &[u8], b: &[u8]) -> bool {
        a.len() < b.len() && b[..a.len()] == *a
    }

    #[kani::proof]
    #[kani::unwind(11)]
    fn c27_int_pair() {
        let a: i64 = kani::any();
        let b: i64 = kani::any();
        let ea = encode_ordered_value(&PropertyValue::Int(a));
        let eb = encode_ordered_value(&PropertyValue::Int(b));
        kani::cover!(a < b, "reach: a<b");
        kani::cover!(a == b, "reach: a==b");
        assert!(ea.len() == 9 && eb.len() == 9, "C27.okey.int.len9");
        assert!(!(a < b) || ea < eb, "C27.okey.int.order");
        assert!((a == b) == (ea == eb), "C27.okey.int.eq_iff");
        assert!(!proper_prefix(&ea, &eb), "C27.okey.int.prefix_free");
    }

    #[kani::proof]
    #[kani::unwind(11)]
    fn c27_datetime_pair() {
        let a: i64 = kani::any();
        let b: i64 = kani::any();
        let ea = encode_ordered_value(&PropertyValue::DateTime(a));
        let eb = encode_ordered_value(&PropertyValue::DateTime(b));
        kani::cover!(a < b, "reach: a<b");
        assert!(ea.len() == 9 && eb.len() == 9, "C27.okey.datetime.len9");
        assert!(!(a < b) || ea < eb, "C27.okey.datetime.order");
        assert!((a == b) == (ea == eb), "C27.okey.datetime.eq_iff");
    }

    #[kani::proof]
    #[kani::unwind(4)]
    fn c27_bool_null() {
        let a: bool = kani::any();
        let b: bool = kani::any();
        let ea = encode_ordered_value(&PropertyValue::Bool(a));
        let eb = encode_ordered_value(&PropertyValue::Bool(b));
        let n = encode_ordered_value(&PropertyValue::Null);
        kani::cover!(!a && b, "reach: false<true");
        assert!(!(!a & b) || ea < eb, "C27.okey.bool.order");
        assert!((a == b) == (ea == eb), "C27.okey.bool.eq_iff");
        assert!(ea.len() == 2 && n.len() == 1, "C27.okey.bool.len");
        assert!(!proper_prefix(&n, &ea) && !proper_prefix(&ea, &n), "C27.okey.null.prefix_free");
    }

    #[kani::proof]
    #[kani::unwind(11)]
    fn c27_float_pair() {
        let a: f64 = kani::any();
        let b: f64 = kani::any();
        kani::assume(!a.is_nan() && !b.is_nan());
        let ea = encode_ordered_value(&PropertyValue::Float(a));
        let eb = encode_ordered_value(&PropertyValue::Float(b));
        kani::cover!(a < b, "reach: a<b");
        kani::cover!(a == b && a.to_bits() != b.to_bits(), "reach: +0.0 vs -0.0");
        kani::cover!(a.is_infinite() && b.is_finite(), "reach: infinities");
        assert!(ea.len() == 9 && eb.len() == 9, "C27.okey.float.len9");
        assert!(!(a < b) || ea < eb, "C27.okey.float.order");
        assert!((a == b) == (ea == eb), "C27.okey.float.eq_iff");
    }

    fn fixed(kind: u8, payload: u64) -> PropertyValue {
        match kind {
            0 => PropertyValue::Null,
            1 => PropertyValue::Bool(payload & 1 == 1),
            2 => PropertyValue::Int(payload as i64),
            3 => PropertyValue::Float(f64::from_bits(payload)),
            _ => PropertyValue::DateTime(payload as i64),
        }
    }

    #[kani::proof]
    #[kani::unwind(11)]
    fn c27_fixed_cross_kind() {
        let pa: u64 = kani::any();
        let pb: u64 = kani::any();
        // kinds enumerated concretely (symbolic enum tags are a CBMC cost cliff), payloads symbolic
        let mut ka = 0u8;
        while ka < 5 {
            let mut kb = 0u8;
            while kb < 5 {
                let ea = encode_ordered_value(&fixed(ka, pa));
                let eb = encode_ordered_value(&fixed(kb, pb));
                assert!(!proper_prefix(&ea, &eb), "C27.okey.cross_kind.prefix_free");
                if ka != kb {
                    assert!(ea != eb, "C27.okey.cross_kind.distinct");
                }
                kb += 1;
            }
            ka += 1;
        }
        kani::cover!(true, "reach: end");
    }

    #[kani::proof]
    #[kani::unwind(22)]
    fn c27_index_key_int() {
        let (i1, i2): (u32, u32) = (kani::any(), kani::any());
        let (v1, v2): (i64, i64) = (kani::any(), kani::any());
        let (n1, n2): (u64, u64) = (kani::any(), kani::any());
        let k1 = encode_index_key(i1, &PropertyValue::Int(v1), n1);
        let k2 = encode_index_key(i2, &PropertyValue::Int(v2), n2);
        kani::cover!(i1 == i2 && v1 == v2 && n1 < n2, "reach: tie broken by node id");
        assert!(((i1, v1, n1) < (i2, v2, n2)) == (k1 < k2), "C27.okey.index_key.order");
        assert!(((i1, v1, n1) == (i2, v2, n2)) == (k1 == k2), "C27.okey.index_key.eq_iff");
    }

    fn bytes_n(len: usize, x: [u8; 2]) -> Vec<u8> {
        // `len` is always a concrete value here (symbolic Vec lengths are a CBMC cost cliff)
        let mut v = Vec::with_capacity(2);
        let mut i = 0;
        while i < len {
            v.push(x[i]);
            i += 1;
        }
        v
    }

    #[kani::proof]
    #[kani::unwind(8)]
    fn c27_blob_pair_b2() {
        let xa: [u8; 2] = kani::any();
        let xb: [u8; 2] = kani::any();
        let mut la = 0usize;
        while la <= 2 {
            let mut lb = 0usize;
            while lb <= 2 {
                let a = bytes_n(la, xa);
                let b = bytes_n(lb, xb);
                let lt = a < b;
                let eq = a == b;
                let ea = encode_ordered_value(&PropertyValue::Blob(a));
                let eb = encode_ordered_value(&PropertyValue::Blob(b));
                assert!(!lt || ea < eb, "C27.okey.blob.order.b2");
                assert!(eq == (ea == eb), "C27.okey.blob.eq_iff.b2");
                assert!(!proper_prefix(&ea, &eb), "C27.okey.blob.prefix_free.b2");
                lb += 1;
            }
            la += 1;
        }
        kani::cover!(xa[0] == 0 && xb[0] == 0 && xa[1] < xb[1], "reach: embedded zero bytes");
    }

    #[kani::proof]
    #[kani::unwind(8)]
    fn c27_str_pair_b2() {
        // ASCII (< 0x80) bytes only, so that any byte vector is valid UTF-8; includes 0x00
        let xa: [u8; 2] = kani::any();
        let xb: [u8; 2] = kani::any();
        kani::assume(xa[0] < 0x80 && xa[1] < 0x80 && xb[0] < 0x80 && xb[1] < 0x80);
        let mut la = 0usize;
        while la <= 2 {
            let mut lb = 0usize;
            while lb <= 2 {
                let a = bytes_n(la, xa);
                let b = bytes_n(lb, xb);
                let lt = a < b;
                let eq = a == b;
                let sa = unsafe { String::from_utf8_unchecked(a) };
                let sb = unsafe { String::from_utf8_unchecked(b) };
                let ea = encode_ordered_value(&PropertyValue::String(sa));
                let eb = encode_ordered_value(&PropertyValue::String(sb));
                assert!(!lt || ea < eb, "C27.okey.str.order.b2");
                assert!(eq == (ea == eb), "C27.okey.str.eq_iff.b2");
                assert!(!proper_prefix(&ea, &eb), "C27.okey.str.prefix_free.b2");
                lb += 1;
            }
            la += 1;
        }
        kani::cover!(xa[0] == 0 && xb[0] == 0 && xa[1] < xb[1], "reach: embedded zero bytes");
    }
}
