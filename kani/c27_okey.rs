//@file nervusdb-storage/src/index/ordered_key.rs
//@crate nervusdb-storage
// Kani harnesses for C27 (index key encoding preserves order and equality).
// Appended verbatim, under cfg(kani), to the end of the real ordered_key.rs of a
// scratch copy of /repo; `super::*` is the real module.
#[cfg(kani)]
mod verif_kani_c27 {
    use super::*;

    fn lex_lt(a: &[u8], b: &[u8]) -> bool {
        a < b
    }
    fn proper_prefix(a: &[u8], b: &[u8]) -> bool {
        a.len() < b.len() && b[..a.len()] == *a
    }

    //@harness c27_int_order_eq complete "all pairs of i64"
    #[kani::proof]
    #[kani::unwind(11)]
    fn c27_int_order_eq() {
        let a: i64 = kani::any();
        let b: i64 = kani::any();
        let ea = encode_ordered_value(&PropertyValue::Int(a));
        let eb = encode_ordered_value(&PropertyValue::Int(b));
        kani::cover!(a < b, "reach: a<b");
        kani::cover!(a == b, "reach: a==b");
        assert!(ea.len() == 9 && eb.len() == 9, "C27.okey.int.len9");
        assert!(!(a < b) || lex_lt(&ea, &eb), "C27.okey.int.order");
        assert!((a == b) == (ea == eb), "C27.okey.int.eq_iff");
        assert!(!proper_prefix(&ea, &eb), "C27.okey.int.prefix_free");
    }
}
