//@file nervusdb-query/src/evaluator/evaluator_arithmetic.rs
//@crate nervusdb-query
//@covers nervusdb-query/src/evaluator/evaluator_arithmetic.rs::add_values
//@covers nervusdb-query/src/evaluator/evaluator_arithmetic.rs::subtract_values
//@covers nervusdb-query/src/evaluator/evaluator_arithmetic.rs::multiply_values
//@covers nervusdb-query/src/evaluator/evaluator_arithmetic.rs::divide_values
// Kani harnesses for C23: the operator entry points (+ - * /) used by the expression evaluator apply the
// same rule as the numeric kernel on numbers and propagate null.  Appended under cfg(kani) inside the
// real evaluator_arithmetic.rs.
//
//@harness c23_ops_delegate_add complete "Null/Int/Float/Bool operands in every kind pair, all 64-bit payloads: add/subtract/multiply/divide_values (one harness per operator) hand exactly their two operands to the numeric kernel with the matching operation (kernel replaced by a recording stub: the caller is checked against the kernel's contract, which unit c23_numeric proves from its body); a Null operand gives Null"
//@harness c23_ops_delegate_sub complete "Null/Int/Float/Bool operands in every kind pair, all 64-bit payloads: add/subtract/multiply/divide_values (one harness per operator) hand exactly their two operands to the numeric kernel with the matching operation (kernel replaced by a recording stub: the caller is checked against the kernel's contract, which unit c23_numeric proves from its body); a Null operand gives Null"
//@harness c23_ops_delegate_mul complete "Null/Int/Float/Bool operands in every kind pair, all 64-bit payloads: add/subtract/multiply/divide_values (one harness per operator) hand exactly their two operands to the numeric kernel with the matching operation (kernel replaced by a recording stub: the caller is checked against the kernel's contract, which unit c23_numeric proves from its body); a Null operand gives Null"
//@harness c23_ops_delegate_div complete "Null/Int/Float/Bool operands in every kind pair, all 64-bit payloads: add/subtract/multiply/divide_values (one harness per operator) hand exactly their two operands to the numeric kernel with the matching operation (kernel replaced by a recording stub: the caller is checked against the kernel's contract, which unit c23_numeric proves from its body); a Null operand gives Null"
#[cfg(kani)]
mod verif_kani_c23_ops {
    use super::*;

    fn val(kind: u8, p: u64) -> Value {
        match kind {
            0 => Value::Null,
            1 => Value::Int(p as i64),
            2 => Value::Float(f64::from_bits(p)),
            _ => Value::Bool(p & 1 == 1),
        }
    }
    // fingerprint of an operand (kind and payload bits)
    fn fp(v: &Value) -> u64 {
        match v {
            Value::Null => 1,
            Value::Int(i) => (*i as u64).wrapping_mul(3).wrapping_add(2),
            Value::Float(f) => f.to_bits().wrapping_mul(5).wrapping_add(3),
            Value::Bool(b) => 4 + *b as u64,
            _ => 0,
        }
    }
    // Recording stubs for the numeric kernel: the result encodes which operation was requested and on
    // which operands, so the harness can check the delegation without re-executing the kernel.
    fn stub_binop<FInt, FFloat>(left: &Value, right: &Value, int_op: FInt, float_op: FFloat) -> Value
    where
        FInt: FnOnce(i128, i128) -> i128,
        FFloat: FnOnce(f64, f64) -> f64,
    {
        let op = int_op(7, 5) as u64; // 12 = add, 2 = sub, 35 = mul
        let fop = float_op(7.0, 5.0) as u64;
        Value::ExternalId(fp(left).wrapping_mul(31).wrapping_add(fp(right)).wrapping_mul(31).wrapping_add(op).wrapping_mul(31).wrapping_add(fop))
    }
    fn stub_div(left: &Value, right: &Value) -> Value {
        Value::ExternalId(fp(left).wrapping_mul(31).wrapping_add(fp(right)).wrapping_mul(31).wrapping_add(99))
    }
    fn expect(a: &Value, b: &Value, op: u64) -> u64 {
        fp(a).wrapping_mul(31).wrapping_add(fp(b)).wrapping_mul(31).wrapping_add(op).wrapping_mul(31).wrapping_add(op)
    }
    fn ext(v: Value) -> Option<u64> {
        let r = match &v { Value::ExternalId(x) => Some(*x), _ => None };
        core::mem::forget(v);
        r
    }
    fn is_null(v: Value) -> bool {
        let r = matches!(&v, Value::Null);
        core::mem::forget(v);
        r
    }

    fn pairs(op: u8) {
        let (p, q): (u64, u64) = (kani::any(), kani::any());
        let mut ka = 0u8;
        while ka < 4 {
            let mut kb = 0u8;
            while kb < 4 {
                let (a, b) = (val(ka, p), val(kb, q));
                let out = match op {
                    0 => add_values(&a, &b),
                    1 => subtract_values(&a, &b),
                    2 => multiply_values(&a, &b),
                    _ => divide_values(&a, &b),
                };
                if ka == 0 || kb == 0 {
                    assert!(is_null(out), "C23.null.propagation.ops");
                } else {
                    let want = match op {
                        0 => expect(&a, &b, 12),
                        1 => expect(&a, &b, 2),
                        2 => expect(&a, &b, 35),
                        _ => fp(&a).wrapping_mul(31).wrapping_add(fp(&b)).wrapping_mul(31).wrapping_add(99),
                    };
                    assert!(ext(out) == Some(want), "C23.ops.delegates_to_kernel");
                }
                core::mem::forget(a);
                core::mem::forget(b);
                kb += 1;
            }
            ka += 1;
        }
        kani::cover!(true, "reach: end");
    }
    #[kani::proof]
    #[kani::stub(numeric_binop, stub_binop)]
    #[kani::stub(numeric_div, stub_div)]
    fn c23_ops_delegate_add() { pairs(0) }
    #[kani::proof]
    #[kani::stub(numeric_binop, stub_binop)]
    #[kani::stub(numeric_div, stub_div)]
    fn c23_ops_delegate_sub() { pairs(1) }
    #[kani::proof]
    #[kani::stub(numeric_binop, stub_binop)]
    #[kani::stub(numeric_div, stub_div)]
    fn c23_ops_delegate_mul() { pairs(2) }
    #[kani::proof]
    #[kani::stub(numeric_binop, stub_binop)]
    #[kani::stub(numeric_div, stub_div)]
    fn c23_ops_delegate_div() { pairs(3) }
}
