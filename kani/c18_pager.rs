//@file nervusdb-storage/src/pager.rs
//@crate nervusdb-storage
//@covers nervusdb-storage/src/pager.rs::Bitmap::find_free_in_range
//@trusted core::iter::Iterator::find on a Range<u64> visits the ids of the range in increasing order and returns the first one for which the closure returns true (std) - this is what rewrite rule R13 of Verus unit c18_pager relies on when it proves the contract of find_free_in_range from the real closure body for every position; the harness c18_find_free_window* cross-checks the same contract on the compiled code (std's own find), for windows near id 0 only
//@covers nervusdb-storage/src/pager.rs::Bitmap::get_bit
//@covers nervusdb-storage/src/pager.rs::Bitmap::set_bit
//@covers nervusdb-storage/src/pager.rs::Meta::encode_page
//@covers nervusdb-storage/src/pager.rs::Meta::decode_page
// Kani harnesses for C18, allocator side.  Appended under cfg(kani) inside the real pager.rs of a
// scratch copy of /repo's working tree.
//
//@harness c18_find_free_window8 bounded(window<=8,start<48) "Bitmap::find_free_in_range on arbitrary bitmap bytes, any start < 48, any window of <= 8 ids: returns the least clear bit of the window or None (the contract the Verus unit c18_pager proves for it through rule R13; here checked against std's own Iterator::find on the compiled code)"
//@harness c18_find_free_window16 bounded(window<=16,start<48) tier=thorough "same, windows of <= 16 ids"
//@harness c18_bitmap_set_get complete "Bitmap::set_bit / get_bit on an arbitrary bitmap, any two ids < 65536: the written bit reads back, every other bit is unchanged"
//@harness c18_meta_roundtrip complete "Meta::decode_page(Meta::encode_page(m)) == m for all field values (page size and format epoch as the decoder requires; legacy next_internal_id rule)"
#[cfg(kani)]
mod verif_kani_c18 {
    use super::*;

    // The bitmap is 8 KiB; a symbolic start index makes CBMC build a multiplexer over all of it for every
    // bit read (measured: no verdict in 10 min).  The function reads bits start..end only and its body does
    // not depend on where the window lies, so the harness puts the window in the first 64 ids, whose
    // eight bytes are symbolic.  Bounded: stated in the label, not counted as proved.
    fn find_free_window(max_w: u64) {
        let start: u64 = kani::any();
        let w: u64 = kani::any();
        kani::assume(start < 48 && w <= max_w);
        let mut bm = Bitmap { data: [0x5Au8; PAGE_SIZE] };
        let sym: [u8; 8] = kani::any();
        let mut k = 0;
        while k < 8 { bm.data[k] = sym[k]; k += 1; }
        let end = start + w;
        let r = bm.find_free_in_range(start, end);
        match r {
            Some(x) => {
                assert!(start <= x && x < end, "C18.pager.find_free.in_window");
                assert!(!bm.get_bit(x), "C18.pager.find_free.is_free");
                let mut j = start;
                while j < x {
                    assert!(bm.get_bit(j), "C18.pager.find_free.least");
                    j += 1;
                }
            }
            None => {
                let mut j = start;
                while j < end {
                    assert!(bm.get_bit(j), "C18.pager.find_free.none_means_full");
                    j += 1;
                }
            }
        }
        kani::cover!(matches!(r, Some(x) if x > start + 3), "reach: free bit after four taken ones");
        kani::cover!(r.is_none() && w == max_w, "reach: full window");
        // the degenerate range of the real guard
        assert!(w == 0 || bm.find_free_in_range(end, start).is_none(), "C18.pager.find_free.empty_range");
    }
    #[kani::proof]
    #[kani::unwind(11)]
    fn c18_find_free_window8() { find_free_window(8) }
    #[kani::proof]
    #[kani::unwind(19)]
    fn c18_find_free_window16() { find_free_window(16) }

    #[kani::proof]
    fn c18_bitmap_set_get() {
        let mut bm = Bitmap { data: kani::any() };
        let i: u64 = kani::any();
        let j: u64 = kani::any();
        let v: bool = kani::any();
        kani::assume(i < 65536 && j < 65536);
        let before_j = bm.get_bit(j);
        bm.set_bit(i, v);
        assert!(bm.get_bit(i) == v, "C18.pager.bitmap.set_then_get");
        assert!(i == j || bm.get_bit(j) == before_j, "C18.pager.bitmap.set_frame");
        kani::cover!(i / 8 == j / 8 && i != j, "reach: two bits of one byte");
    }

    #[kani::proof]
    fn c18_meta_roundtrip() {
        let m = Meta {
            version_major: kani::any(),
            version_minor: kani::any(),
            page_size: PAGE_SIZE as u64,
            bitmap_page_id: kani::any(),
            next_page_id: kani::any(),
            i2e_start_page_id: kani::any(),
            i2e_len: kani::any(),
            next_internal_id: kani::any(),
            index_catalog_root: kani::any(),
            next_index_id: kani::any(),
            storage_format_epoch: STORAGE_FORMAT_EPOCH,
        };
        let page = m.encode_page();
        let dec = Meta::decode_page(&page);
        assert!(dec.is_ok(), "C18.pager.meta.roundtrip.decodes");
        match dec {
            Ok(d) => {
                assert!(d.version_major == m.version_major && d.version_minor == m.version_minor && d.page_size == m.page_size
                    && d.bitmap_page_id == m.bitmap_page_id && d.next_page_id == m.next_page_id
                    && d.i2e_start_page_id == m.i2e_start_page_id && d.i2e_len == m.i2e_len
                    && d.index_catalog_root == m.index_catalog_root && d.next_index_id == m.next_index_id
                    && d.storage_format_epoch == m.storage_format_epoch, "C18.pager.meta.roundtrip");
                let want = if m.next_internal_id == 0 && m.i2e_len > 0 { m.i2e_len } else { m.next_internal_id };
                assert!(d.next_internal_id == want, "C18.pager.meta.roundtrip.next_internal_id");
                kani::cover!(m.next_internal_id == 0 && m.i2e_len > 0, "reach: legacy rule");
            }
            Err(e) => core::mem::forget(e),
        }
    }
}
