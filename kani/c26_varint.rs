//@file nervusdb-storage/src/index/btree.rs
//@crate nervusdb-storage
//@covers nervusdb-storage/src/index/btree.rs::varint_u32_len
//@covers nervusdb-storage/src/index/btree.rs::write_varint_u32
//@covers nervusdb-storage/src/index/btree.rs::read_varint_u32
// Kani harnesses for C26: the varint codec of B-tree cells.  They discharge, on the compiled crate, the
// three facts the Verus unit c26_page assumes about read_varint_u32 (iterator adapter, not ingestible
// by Verus).  The decoder reads at most five bytes, so buffers of up to six arbitrary bytes are complete.
//
//@harness c26_varint_roundtrip complete "all u32: read_varint_u32(write_varint_u32(v) ++ one arbitrary byte) == (v, varint_u32_len(v)); length between 1 and 5"
//@harness c26_varint_read_total complete "every buffer of 0..=6 arbitrary bytes: no panic; a result consumes between 1 and 5 bytes and never more than the buffer holds"
//@harness c26_varint_read_prefix complete "two arbitrary 6-byte buffers that agree on the bytes the decoder consumed from the first give the same result (the result depends on the consumed prefix only)"
#[cfg(kani)]
mod verif_kani_c26 {
    use super::*;

    #[kani::proof]
    #[kani::unwind(8)]
    fn c26_varint_roundtrip() {
        let v: u32 = kani::any();
        let n = varint_u32_len(v);
        assert!(n >= 1 && n <= 5, "C26.varint.len_1_5");
        let mut buf = [0u8; 6];
        let tail: u8 = kani::any();
        let w = write_varint_u32(v, &mut buf[..5]);
        assert!(w == n, "C26.varint.write_len");
        buf[w] = tail;
        let r = read_varint_u32(&buf[..w + 1]);
        assert!(r == Some((v, n)), "C26.varint.roundtrip");
        let r2 = read_varint_u32(&buf[..w]);
        assert!(r2 == Some((v, n)), "C26.varint.roundtrip_exact_len");
        kani::cover!(n == 5, "reach: five-byte varint");
        kani::cover!(n == 1, "reach: one-byte varint");
    }

    fn total(len: usize) {
        let bytes: [u8; 6] = kani::any();
        match read_varint_u32(&bytes[..len]) {
            Some((_, n)) => assert!(n >= 1 && n <= 5 && n <= len, "C26.varint.read_total.bounds"),
            None => {}
        }
    }
    #[kani::proof]
    #[kani::unwind(8)]
    fn c26_varint_read_total() {
        total(0); total(1); total(2); total(3); total(4); total(5); total(6);
        kani::cover!(true, "reach: end");
    }

    #[kani::proof]
    #[kani::unwind(8)]
    fn c26_varint_read_prefix() {
        let a: [u8; 6] = kani::any();
        let b: [u8; 6] = kani::any();
        let la: usize = kani::any();
        let lb: usize = kani::any();
        kani::assume(la <= 6 && lb <= 6);
        if let Some((v, n)) = read_varint_u32(&a[..la]) {
            kani::assume(lb >= n);
            let mut same = true;
            let mut i = 0;
            while i < n { if a[i] != b[i] { same = false; } i += 1; }
            if same {
                assert!(read_varint_u32(&b[..lb]) == Some((v, n)), "C26.varint.read_prefix_determined");
            }
            kani::cover!(n == 3 && same, "reach: three-byte prefix shared");
        }
    }
}
