//@file nervusdb-api/src/lib.rs
//@crate nervusdb-api
//@covers nervusdb-api/src/lib.rs::PropertyValue::encode
//@covers nervusdb-api/src/lib.rs::PropertyValue::decode
//@covers nervusdb-api/src/lib.rs::PropertyValue::decode_recursive
//@trusted Kani models heap allocation as always succeeding: the allocation-size obligation of C25 is discharged by the Verus unit c25_value, not here
// Kani harnesses for C25 (scalar values round-trip bit-exactly). Strings, blobs, lists, maps and decoder
// totality are discharged by the Verus unit c25_value for every length: measured, CBMC does not terminate on
// them (drop glue of the recursive value type + symbolic tags read back from heap buffers).
// Appended under cfg(kani) to the real nervusdb-api/src/lib.rs of a scratch copy.
//
//@harness c25_val_scalar_roundtrip complete "null, both bools, all i64, all f64 bit patterns (NaN payloads, signed zeros), all datetimes: decode(encode(v)) is bit-identical"
#[cfg(kani)]
mod verif_kani_c25 {
    use super::*;

    fn same_bits(a: &PropertyValue, b: &PropertyValue) -> bool {
        match (a, b) {
            (PropertyValue::Null, PropertyValue::Null) => true,
            (PropertyValue::Bool(x), PropertyValue::Bool(y)) => x == y,
            (PropertyValue::Int(x), PropertyValue::Int(y)) => x == y,
            (PropertyValue::Float(x), PropertyValue::Float(y)) => x.to_bits() == y.to_bits(),
            (PropertyValue::DateTime(x), PropertyValue::DateTime(y)) => x == y,
            _ => false,
        }
    }

    fn scalar(kind: u8, p: u64) -> PropertyValue {
        match kind {
            0 => PropertyValue::Null,
            1 => PropertyValue::Bool(p & 1 == 1),
            2 => PropertyValue::Int(p as i64),
            3 => PropertyValue::Float(f64::from_bits(p)),
            _ => PropertyValue::DateTime(p as i64),
        }
    }

    #[kani::proof]
    #[kani::unwind(12)]
    fn c25_val_scalar_roundtrip() {
        let p: u64 = kani::any();
        let mut k = 0u8;
        while k < 5 {
            let v = scalar(k, p);
            let enc = v.encode();
            match PropertyValue::decode(&enc) {
                Ok(d) => assert!(same_bits(&v, &d), "C25.val.scalar.roundtrip"),
                Err(_) => assert!(false, "C25.val.scalar.roundtrip"),
            }
            // trailing bytes after a complete value do not disturb it (values are embedded in records)
            let mut enc2 = enc.clone();
            enc2.push(kani::any());
            match PropertyValue::decode_recursive(&enc2) {
                Ok((d, used)) => assert!(same_bits(&v, &d) && used == enc.len(), "C25.val.scalar.consumes_exactly"),
                Err(_) => assert!(false, "C25.val.scalar.consumes_exactly"),
            }
            k += 1;
        }
        kani::cover!(f64::from_bits(p).is_nan(), "reach: NaN payload");
        kani::cover!(p == 0x8000_0000_0000_0000, "reach: -0.0 / i64::MIN");
    }
}
