//@file nervusdb-storage/src/idmap.rs
//@crate nervusdb-storage
//@covers nervusdb-storage/src/idmap.rs::i2e_location
//@covers nervusdb-storage/src/idmap.rs::I2eRecord::encode
//@covers nervusdb-storage/src/idmap.rs::I2eRecord::decode
// Kani harnesses for C18, node-table addressing.  Appended under cfg(kani) inside the real idmap.rs.
//
//@harness c18_i2e_location complete "i2e_location for every start page < 65536 and every u64 id: page = start + id / 512, offset = (id % 512) * 16, record inside the page, no overflow"
//@harness c18_i2e_record_roundtrip complete "I2eRecord::decode(encode(r)) == r for all field values; two records at different ids of one page never overlap"
#[cfg(kani)]
mod verif_kani_c18_idmap {
    use super::*;

    #[kani::proof]
    fn c18_i2e_location() {
        let start: u64 = kani::any();
        let id: u64 = kani::any();
        kani::assume(start < 65536);
        let loc = i2e_location(PageId::new(start), id);
        assert!(loc.is_ok(), "C18.idmap.location.total_on_64bit");
        match loc {
            Ok((p, off)) => {
                assert!(p.as_u64() == start + id / 512, "C18.idmap.location.page");
                assert!(off == ((id % 512) * 16) as usize, "C18.idmap.location.offset");
                assert!(off + I2E_RECORD_SIZE <= PAGE_SIZE, "C18.idmap.location.inside_page");
                kani::cover!(id % 512 == 0 && id > 0, "reach: first record of a later page");
            }
            Err(e) => core::mem::forget(e),
        }
        // two ids map to the same bytes only if they are the same id
        let id2: u64 = kani::any();
        if let (Ok((p1, o1)), Ok((p2, o2))) = (i2e_location(PageId::new(start), id), i2e_location(PageId::new(start), id2)) {
            assert!(id == id2 || p1 != p2 || o1 + I2E_RECORD_SIZE <= o2 || o2 + I2E_RECORD_SIZE <= o1, "C18.idmap.location.no_overlap");
        }
    }

    #[kani::proof]
    fn c18_i2e_record_roundtrip() {
        let r = I2eRecord { external_id: kani::any(), label_id: kani::any(), flags: kani::any() };
        let d = I2eRecord::decode(&r.encode());
        assert!(d == r, "C18.idmap.record.roundtrip");
        kani::cover!(r.external_id == u64::MAX, "reach: max id");
    }
}
