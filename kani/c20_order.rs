//@file nervusdb-query/src/evaluator/evaluator_compare.rs
//@crate nervusdb-query
//@covers nervusdb-query/src/evaluator.rs::order_compare
//@covers nervusdb-query/src/evaluator/evaluator_compare.rs::order_compare_non_null
//@covers nervusdb-query/src/evaluator/evaluator_compare.rs::compare_f64_with_nan
//@covers nervusdb-query/src/evaluator/evaluator_compare.rs::value_order_rank
//@covers nervusdb-query/src/evaluator/evaluator_compare.rs::compare_value_for_list_ordering
//@covers nervusdb-query/src/evaluator/evaluator_compare.rs::compare_lists_ordering
//@trusted std slice::sort_by yields a sorted permutation and Iterator::skip/take select positions s..s+l PROVIDED the comparator is a total preorder (std's documented contract); the harnesses prove that proviso
// Kani harnesses for C20 (ORDER BY sorts ...): the comparator execute_order_by sorts with is a total
// preorder.  Appended under cfg(kani) inside the real evaluator_compare.rs of a scratch copy.
//
//@harness c20_cmp_numeric_total complete "Int/Float (all 64-bit payloads, NaN, +-0, +-inf) in every kind pair: cmp(a,b) == reverse(cmp(b,a)), cmp(a,a) == Equal"
//@harness c20_cmp_numeric_trans_iii complete "kind triple iii (i=Int, f=Float incl. NaN, +-0, +-inf), all 64-bit payloads: a<=b & b<=c => a<=c; a~b & b~c => a~c"
//@harness c20_cmp_numeric_trans_iif complete "kind triple iif (i=Int, f=Float incl. NaN, +-0, +-inf), all 64-bit payloads: a<=b & b<=c => a<=c; a~b & b~c => a~c"
//@harness c20_cmp_numeric_trans_ifi complete "kind triple ifi (i=Int, f=Float incl. NaN, +-0, +-inf), all 64-bit payloads: a<=b & b<=c => a<=c; a~b & b~c => a~c"
//@harness c20_cmp_numeric_trans_iff complete "kind triple iff (i=Int, f=Float incl. NaN, +-0, +-inf), all 64-bit payloads: a<=b & b<=c => a<=c; a~b & b~c => a~c"
//@harness c20_cmp_numeric_trans_fii complete "kind triple fii (i=Int, f=Float incl. NaN, +-0, +-inf), all 64-bit payloads: a<=b & b<=c => a<=c; a~b & b~c => a~c"
//@harness c20_cmp_numeric_trans_fif complete "kind triple fif (i=Int, f=Float incl. NaN, +-0, +-inf), all 64-bit payloads: a<=b & b<=c => a<=c; a~b & b~c => a~c"
//@harness c20_cmp_numeric_trans_ffi complete "kind triple ffi (i=Int, f=Float incl. NaN, +-0, +-inf), all 64-bit payloads: a<=b & b<=c => a<=c; a~b & b~c => a~c"
//@harness c20_cmp_numeric_trans_fff complete "kind triple fff (i=Int, f=Float incl. NaN, +-0, +-inf), all 64-bit payloads: a<=b & b<=c => a<=c; a~b & b~c => a~c"
//@harness c20_cmp_scalar_pairs complete "Null, Bool, Int, Float, DateTime, NodeId, ExternalId, EdgeKey in every kind pair with symbolic payloads: antisymmetry/totality; different rank classes ordered by rank alone"
//@harness c20_cmp_reference_scalar complete "the comparator EQUALS the reference order inside each scalar class, all payloads: Bool false<true; Int and DateTime by value; Float by IEEE order with -0.0 ~ +0.0 and every NaN (either sign bit) equal to every other NaN and greater than every number; NodeId/ExternalId by their numeric id as u64 in all four kind pairs; EdgeKey by (src, rel, dst); Null greater than everything"
//@harness c20_cmp_list_ref_b2 bounded(len<=2) "lists of up to 2 elements, each Int (symbolic) or Null, every kind combination, on stack arrays: compare_lists_ordering equals the reference (element-wise, Null greatest, then length) and is antisymmetric"
//@harness c20_cmp_class_trans complete "transitivity inside each non-numeric rank class (Bool, DateTime, NodeId/ExternalId mixed, EdgeKey), symbolic payloads"
#[cfg(kani)]
mod verif_kani_c20 {
    use super::*;
    use super::super::order_compare;
    use nervusdb_api::EdgeKey;

    fn num(kind: u8, p: u64) -> Value {
        if kind == 0 { Value::Int(p as i64) } else { Value::Float(f64::from_bits(p)) }
    }

    fn le(o: Ordering) -> bool { o != Ordering::Greater }

    #[kani::proof]
    fn c20_cmp_numeric_total() {
        let (p, q): (u64, u64) = (kani::any(), kani::any());
        let mut ka = 0u8;
        while ka < 2 {
            let mut kb = 0u8;
            while kb < 2 {
                let (a, b) = (num(ka, p), num(kb, q));
                let ab = order_compare(&a, &b);
                let ba = order_compare(&b, &a);
                assert!(ab == ba.reverse(), "C20.cmp.total.numeric");
                assert!(order_compare(&a, &a) == Ordering::Equal, "C20.cmp.reflexive.numeric");
                kb += 1;
            }
            ka += 1;
        }
        kani::cover!(f64::from_bits(q).is_nan(), "reach: NaN");
        kani::cover!(p == 0x8000_0000_0000_0000, "reach: -0.0 / i64::MIN");
    }

    fn trans3(ka: u8, kb: u8, kc: u8) {
        let (p, q, r): (u64, u64, u64) = (kani::any(), kani::any(), kani::any());
        let (a, b, c) = (num(ka, p), num(kb, q), num(kc, r));
        let ab = order_compare(&a, &b);
        let bc = order_compare(&b, &c);
        let ac = order_compare(&a, &c);
        assert!(!(le(ab) && le(bc)) || le(ac), "C20.cmp.trans.numeric");
        assert!(!(ab == Ordering::Equal && bc == Ordering::Equal) || ac == Ordering::Equal, "C20.cmp.equiv_trans.numeric");
        kani::cover!(ab == Ordering::Equal && bc == Ordering::Less, "reach: a~b<c");
    }
    // one harness per kind triple (0 = Int, 1 = Float) so that they run in parallel
    #[kani::proof]
    fn c20_cmp_numeric_trans_iii() { trans3(0, 0, 0) }
    #[kani::proof]
    fn c20_cmp_numeric_trans_iif() { trans3(0, 0, 1) }
    #[kani::proof]
    fn c20_cmp_numeric_trans_ifi() { trans3(0, 1, 0) }
    #[kani::proof]
    fn c20_cmp_numeric_trans_iff() { trans3(0, 1, 1) }
    #[kani::proof]
    fn c20_cmp_numeric_trans_fii() { trans3(1, 0, 0) }
    #[kani::proof]
    fn c20_cmp_numeric_trans_fif() { trans3(1, 0, 1) }
    #[kani::proof]
    fn c20_cmp_numeric_trans_ffi() { trans3(1, 1, 0) }
    #[kani::proof]
    fn c20_cmp_numeric_trans_fff() { trans3(1, 1, 1) }

    fn scalar(kind: u8, p: u64) -> Value {
        match kind {
            0 => Value::Null,
            1 => Value::Bool(p & 1 == 1),
            2 => Value::Int(p as i64),
            3 => Value::Float(f64::from_bits(p)),
            4 => Value::DateTime(p as i64),
            5 => Value::NodeId(p as u32),
            6 => Value::ExternalId(p),
            _ => Value::EdgeKey(EdgeKey { src: p as u32, rel: (p >> 32) as u32, dst: (p >> 16) as u32 }),
        }
    }

    #[kani::proof]
    fn c20_cmp_scalar_pairs() {
        let (p, q): (u64, u64) = (kani::any(), kani::any());
        let mut ka = 0u8;
        while ka < 8 {
            let mut kb = 0u8;
            while kb < 8 {
                let (a, b) = (scalar(ka, p), scalar(kb, q));
                let ab = order_compare(&a, &b);
                assert!(ab == order_compare(&b, &a).reverse(), "C20.cmp.total.scalar");
                let (ra, rb) = (value_order_rank(&a), value_order_rank(&b));
                if ra != rb {
                    // different rank classes are ordered by rank alone, so transitivity across classes
                    // reduces to transitivity inside each class (harnesses *_trans)
                    assert!(ab == ra.cmp(&rb), "C20.cmp.rank.cross_kind");
                }
                kb += 1;
            }
            ka += 1;
        }
        kani::cover!(true, "reach: end");
    }

    fn in_class(class: u8, k: u8, p: u64) -> Value {
        match class {
            0 => Value::Bool(p & 1 == 1),
            1 => Value::DateTime(p as i64),
            2 => if k == 0 { Value::NodeId(p as u32) } else { Value::ExternalId(p) },
            _ => Value::EdgeKey(EdgeKey { src: p as u32, rel: (p >> 32) as u32, dst: (p >> 16) as u32 }),
        }
    }

    #[kani::proof]
    fn c20_cmp_class_trans() {
        let (p, q, r): (u64, u64, u64) = (kani::any(), kani::any(), kani::any());
        let mut class = 0u8;
        while class < 4 {
            let kinds = if class == 2 { 2u8 } else { 1u8 };
            let mut ka = 0u8;
            while ka < kinds {
                let mut kb = 0u8;
                while kb < kinds {
                    let mut kc = 0u8;
                    while kc < kinds {
                        let (a, b, c) = (in_class(class, ka, p), in_class(class, kb, q), in_class(class, kc, r));
                        let ab = order_compare(&a, &b);
                        let bc = order_compare(&b, &c);
                        let ac = order_compare(&a, &c);
                        assert!(!(le(ab) && le(bc)) || le(ac), "C20.cmp.trans.class");
                        assert!(!(ab == Ordering::Equal && bc == Ordering::Equal) || ac == Ordering::Equal, "C20.cmp.equiv_trans.class");
                        kc += 1;
                    }
                    kb += 1;
                }
                ka += 1;
            }
            class += 1;
        }
        kani::cover!(true, "reach: end");
    }
    // The total-preorder laws above are what sort_by needs; the property also fixes WHICH order.  A
    // comparator that is a consistent total preorder but not this one (e.g. ids compared after a
    // truncating cast) sorts "correctly" by the wrong order: pinned down here.
    #[kani::proof]
    fn c20_cmp_reference_scalar() {
        let (p, q): (u64, u64) = (kani::any(), kani::any());
        // Bool
        let (a, b) = (p & 1 == 1, q & 1 == 1);
        assert!(order_compare(&Value::Bool(a), &Value::Bool(b)) == a.cmp(&b), "C20.cmp.ref.bool");
        // Int, DateTime
        assert!(order_compare(&Value::Int(p as i64), &Value::Int(q as i64)) == (p as i64).cmp(&(q as i64)), "C20.cmp.ref.int");
        assert!(order_compare(&Value::DateTime(p as i64), &Value::DateTime(q as i64)) == (p as i64).cmp(&(q as i64)), "C20.cmp.ref.datetime");
        // Float
        let (x, y) = (f64::from_bits(p), f64::from_bits(q));
        let want = if x.is_nan() && y.is_nan() { Ordering::Equal } else if x.is_nan() { Ordering::Greater } else if y.is_nan() { Ordering::Less }
                   else if x < y { Ordering::Less } else if x > y { Ordering::Greater } else { Ordering::Equal };
        assert!(order_compare(&Value::Float(x), &Value::Float(y)) == want, "C20.cmp.ref.float");
        // node identities: by numeric id as u64, whatever the kind
        assert!(order_compare(&Value::NodeId(p as u32), &Value::NodeId(q as u32)) == (p as u32).cmp(&(q as u32)), "C20.cmp.ref.nodeid");
        assert!(order_compare(&Value::ExternalId(p), &Value::ExternalId(q)) == p.cmp(&q), "C20.cmp.ref.externalid");
        assert!(order_compare(&Value::NodeId(p as u32), &Value::ExternalId(q)) == ((p as u32) as u64).cmp(&q), "C20.cmp.ref.nodeid_externalid");
        assert!(order_compare(&Value::ExternalId(p), &Value::NodeId(q as u32)) == p.cmp(&((q as u32) as u64)), "C20.cmp.ref.externalid_nodeid");
        // relationships: (src, rel, dst)
        let (e1, e2) = (EdgeKey { src: p as u32, rel: (p >> 32) as u32, dst: (p >> 16) as u32 }, EdgeKey { src: q as u32, rel: (q >> 32) as u32, dst: (q >> 16) as u32 });
        assert!(order_compare(&Value::EdgeKey(e1), &Value::EdgeKey(e2)) == (e1.src, e1.rel, e1.dst).cmp(&(e2.src, e2.rel, e2.dst)), "C20.cmp.ref.edgekey");
        // null is the greatest value
        assert!(order_compare(&Value::Null, &Value::Int(p as i64)) == Ordering::Greater && order_compare(&Value::Float(x), &Value::Null) == Ordering::Less
             && order_compare(&Value::Null, &Value::Null) == Ordering::Equal, "C20.cmp.ref.null_last");
        kani::cover!(x.is_nan() && (p >> 63) == 1, "reach: NaN with the sign bit set");
        kani::cover!(p > u32::MAX as u64, "reach: external id above u32");
    }
    fn lelem(is_null: bool, p: i64) -> Value { if is_null { Value::Null } else { Value::Int(p) } }
    fn ref_elem(an: bool, a: i64, bn: bool, b: i64) -> Ordering {
        match (an, bn) { (true, true) => Ordering::Equal, (true, false) => Ordering::Greater, (false, true) => Ordering::Less, _ => a.cmp(&b) }
    }
    // stack arrays, not Vec (a tag read back from the heap never terminates in CBMC)
    #[kani::proof]
    #[kani::unwind(18)]
    fn c20_cmp_list_ref_b2() {
        let (p1, p2, q1, q2): (i64, i64, i64, i64) = (kani::any(), kani::any(), kani::any(), kani::any());
        let mut k = 0u8;
        while k < 16 {
            let (a1, a2, b1, b2) = (k & 1 == 1, k & 2 == 2, k & 4 == 4, k & 8 == 8);
            let l = [lelem(a1, p1), lelem(a2, p2)];
            let r = [lelem(b1, q1), lelem(b2, q2)];
            let want = match ref_elem(a1, p1, b1, q1) { Ordering::Equal => ref_elem(a2, p2, b2, q2), o => o };
            let got = compare_lists_ordering(&l, &r);
            assert!(got == Some(want), "C20.cmp.list.ref.b2");
            assert!(compare_lists_ordering(&r, &l) == Some(want.reverse()), "C20.cmp.list.total.b2");
            // different lengths: the first differing element decides; only a proper prefix is decided by length
            let want1 = match ref_elem(a1, p1, b1, q1) { Ordering::Equal => Ordering::Less, o => o };
            assert!(compare_lists_ordering(&l[..1], &r) == Some(want1) && compare_lists_ordering(&r, &l[..1]) == Some(want1.reverse()), "C20.cmp.list.ref.len1_len2.b2");
            // a proper prefix sorts first
            assert!(compare_lists_ordering(&l[..1], &l) == Some(Ordering::Less) && compare_lists_ordering(&l, &l[..1]) == Some(Ordering::Greater), "C20.cmp.list.prefix_first.b2");
            core::mem::forget(l);
            core::mem::forget(r);
            k += 1;
        }
        kani::cover!(true, "reach: end");
    }
}
