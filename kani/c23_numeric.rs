//@file nervusdb-query/src/evaluator/evaluator_numeric.rs
//@crate nervusdb-query
//@covers nervusdb-query/src/evaluator/evaluator_numeric.rs::numeric_binop
//@covers nervusdb-query/src/evaluator/evaluator_numeric.rs::numeric_div
//@covers nervusdb-query/src/evaluator/evaluator_numeric.rs::numeric_mod
//@covers nervusdb-query/src/evaluator/evaluator_numeric.rs::numeric_pow
//@covers nervusdb-query/src/evaluator/evaluator_numeric.rs::value_as_f64
// Kani harnesses for C23 (integer arithmetic overflow follows one rule everywhere; null propagates
// through arithmetic).  Appended under cfg(kani) inside the real evaluator_numeric.rs.
//
//@harness c23_arith_int_add_sub complete "+ and - on every pair of i64: the exact result when representable, Float otherwise"
//@harness c23_arith_int_mul complete "* on every pair of i64 (kissat): the exact result when representable, Float otherwise"
//@harness c23_arith_int_div_mod_kinds complete "/ and % on every pair of i64: Int result except Float for i64::MIN / -1 and Null for a zero divisor (the overflow rule); exact values at the domain edges"
//@harness c23_arith_int_div_b15 bounded(|operands|<2^15) "value of / equals truncated division for all operands within 15 bits"
//@harness c23_arith_int_mod_b15 bounded(|operands|<2^15) "value of % equals the remainder for all operands within 15 bits"
//@harness c23_arith_kinds_null complete "left operand null against Null, Int, Float, Bool for + - * / %: Null operand => Null; Int/Float mix => Float; non-numeric => Null"
//@harness c23_arith_kinds_int complete "left operand int against Null, Int, Float, Bool for + - * / %: Null operand => Null; Int/Float mix => Float; non-numeric => Null"
//@harness c23_arith_kinds_float complete "left operand float against Null, Int, Float, Bool for + - * / %: Null operand => Null; Int/Float mix => Float; non-numeric => Null"
//@harness c23_arith_kinds_bool complete "left operand bool against Null, Int, Float, Bool for + - * / %: Null operand => Null; Int/Float mix => Float; non-numeric => Null"
#[cfg(kani)]
mod verif_kani_c23_num {
    use super::*;

    fn add(a: &Value, b: &Value) -> Value { numeric_binop(a, b, |l, r| l + r, |l, r| l + r) }
    fn sub(a: &Value, b: &Value) -> Value { numeric_binop(a, b, |l, r| l - r, |l, r| l - r) }
    fn mul(a: &Value, b: &Value) -> Value { numeric_binop(a, b, |l, r| l * r, |l, r| l * r) }

    // kind of a result: 0 Null, 1 Int(v), 2 Float, 3 other.  The Value is forgotten: the drop glue of a
    // value with a symbolic tag is explored for every variant, recursively, and never terminates.
    fn kind(out: Value) -> (u8, i64) {
        let k = match &out { Value::Null => (0, 0), Value::Int(v) => (1, *v), Value::Float(_) => (2, 0), _ => (3, 0) };
        core::mem::forget(out);
        k
    }
    fn rule(exact: i128, out: Value) -> bool {
        let (k, v) = kind(out);
        if exact >= i64::MIN as i128 && exact <= i64::MAX as i128 { k == 1 && v as i128 == exact } else { k == 2 }
    }

    #[kani::proof]
    fn c23_arith_int_add_sub() {
        let (l, r): (i64, i64) = (kani::any(), kani::any());
        let (a, b) = (Value::Int(l), Value::Int(r));
        assert!(rule(l as i128 + r as i128, add(&a, &b)), "C23.arith.overflow_rule.add");
        assert!(rule(l as i128 - r as i128, sub(&a, &b)), "C23.arith.overflow_rule.sub");
        kani::cover!(l == i64::MAX && r == 1, "reach: MAX + 1");
    }

    #[kani::proof]
    #[kani::solver(kissat)]
    fn c23_arith_int_mul() {
        let (l, r): (i64, i64) = (kani::any(), kani::any());
        let (a, b) = (Value::Int(l), Value::Int(r));
        // oracle without a second wide multiplier: 64-bit checked multiplication
        let (k, w) = kind(mul(&a, &b));
        match l.checked_mul(r) {
            Some(v) => assert!(k == 1 && v == w, "C23.arith.overflow_rule.mul"),
            None => assert!(k == 2, "C23.arith.overflow_rule.mul"),
        }
        kani::cover!(l == i64::MAX && r == i64::MAX, "reach: MAX * MAX");
    }

    #[kani::proof]
    fn c23_arith_int_div_mod_kinds() {
        let (l, r): (i64, i64) = (kani::any(), kani::any());
        let (a, b) = (Value::Int(l), Value::Int(r));
        let (dk, _) = kind(numeric_div(&a, &b));
        let (mk, _) = kind(numeric_mod(&a, &b));
        // the one rule: Int when the exact result is representable, Float otherwise, Null for a zero divisor
        assert!(dk == if r == 0 { 0 } else if l == i64::MIN && r == -1 { 2 } else { 1 }, "C23.arith.overflow_rule.div.kind");
        assert!(mk == if r == 0 { 0 } else { 1 }, "C23.arith.overflow_rule.mod.kind");
        // values at the boundary of the domain (concrete operands)
        let edges: [(i64, i64, i64, i64); 6] = [
            (i64::MIN, 1, i64::MIN, 0), (i64::MAX, -1, -i64::MAX, 0), (i64::MIN, 2, i64::MIN / 2, 0),
            (i64::MAX, i64::MAX, 1, 0), (i64::MIN, i64::MIN, 1, 0), (i64::MIN, i64::MAX, -1, -1),
        ];
        let mut i = 0;
        while i < 6 {
            let (x, y, q, m) = edges[i];
            assert!(kind(numeric_div(&Value::Int(x), &Value::Int(y))) == (1, q), "C23.arith.div.edges");
            assert!(kind(numeric_mod(&Value::Int(x), &Value::Int(y))) == (1, m), "C23.arith.mod.edges");
            i += 1;
        }
        assert!(kind(numeric_mod(&Value::Int(i64::MIN), &Value::Int(-1))) == (1, 0), "C23.arith.mod.edges");
        kani::cover!(l == i64::MIN && r == -1, "reach: MIN / -1");
    }

    // bounded: equivalence of two 64-bit dividers (the code's and the oracle's) over the full domain does not
    // finish in CBMC (measured > 10 min, both CaDiCaL and Kissat); operands within 15 bits do
    #[kani::proof]
    fn c23_arith_int_div_b15() {
        let (l, r): (i64, i64) = (kani::any(), kani::any());
        kani::assume(r != 0 && l > -(1 << 15) && l < (1 << 15) && r > -(1 << 15) && r < (1 << 15));
        assert!(kind(numeric_div(&Value::Int(l), &Value::Int(r))) == (1, l / r), "C23.arith.div.value.b15");
        kani::cover!(l < 0 && r > 1, "reach: negative dividend");
    }
    #[kani::proof]
    fn c23_arith_int_mod_b15() {
        let (l, r): (i64, i64) = (kani::any(), kani::any());
        kani::assume(r != 0 && l > -(1 << 15) && l < (1 << 15) && r > -(1 << 15) && r < (1 << 15));
        assert!(kind(numeric_mod(&Value::Int(l), &Value::Int(r))) == (1, l % r), "C23.arith.mod.value.b15");
        kani::cover!(l < 0 && r > 1, "reach: negative dividend");
    }

    fn val(kind: u8, p: u64) -> Value {
        match kind {
            0 => Value::Null,
            1 => Value::Int(p as i64),
            2 => Value::Float(f64::from_bits(p)),
            _ => Value::Bool(p & 1 == 1),
        }
    }

    fn kinds_row(ka: u8) {
        let (p, q): (u64, u64) = (kani::any(), kani::any());
        let mut kb = 0u8;
        while kb < 4 {
            let (a, b) = (val(ka, p), val(kb, q));
            let outs = [kind(add(&a, &b)).0, kind(sub(&a, &b)).0, kind(mul(&a, &b)).0, kind(numeric_div(&a, &b)).0, kind(numeric_mod(&a, &b)).0];
            let mut i = 0;
            while i < 5 {
                let o = outs[i];
                if ka == 0 || kb == 0 {
                    assert!(o == 0, "C23.null.propagation.arith");
                } else if ka == 3 || kb == 3 {
                    assert!(o == 0, "C23.arith.non_numeric_null");
                } else if ka == 2 || kb == 2 {
                    // a Float operand: Float result (or Null for modulo by zero)
                    assert!(o == 2 || (i == 4 && o == 0), "C23.arith.mixed_is_float");
                } else {
                    assert!(o == 1 || o == 2 || ((i == 3 || i == 4) && o == 0), "C23.arith.int_int_kinds");
                }
                i += 1;
            }
            core::mem::forget(a);
            core::mem::forget(b);
            kb += 1;
        }
        kani::cover!(true, "reach: end");
    }
    #[kani::proof]
    fn c23_arith_kinds_null() { kinds_row(0) }
    #[kani::proof]
    fn c23_arith_kinds_int() { kinds_row(1) }
    #[kani::proof]
    fn c23_arith_kinds_float() { kinds_row(2) }
    #[kani::proof]
    fn c23_arith_kinds_bool() { kinds_row(3) }
}
