//@file nervusdb-storage/src/blob_store.rs
//@crate nervusdb-storage
//@covers nervusdb-storage/src/blob_store.rs::BlobStore::write_direct
//@trusted Pager::allocate_page and Pager::write_page are replaced by recording stubs that obey the contracts proved for the real bodies in Verus unit c18_pager (allocate: a page that was free, distinct from every page handed out before; write: accepted only for an allocated page)
// Kani harness for C18, blob store side (BlobStore::write_direct uses chunks()/rev(), which Verus cannot
// ingest).  Modular: the allocator is an arbitrary one obeying its contract - the ids it hands out are
// symbolic and pairwise distinct - and the client is checked for the discipline the frame condition needs:
// every page it writes is one it obtained from allocate_page in this call, each exactly once, and the
// chain it builds (next pointer at bytes 0..8, data length at 8..10) links exactly those pages.
//
//@harness c18_blob_write_empty bounded(chunks<=1) "BlobStore::write_direct, empty blob, against an arbitrary contract-obeying allocator: writes only to pages it was handed, once each; returns the head of a chain that links all of them and ends with 0; data lengths add up"
//@harness c18_blob_write_one_byte bounded(chunks<=1) "same, 1-byte blob (blobs of a page or more make CBMC crash in propositional reduction - 8 KiB page copies by value, measured; the frame obligation for every length is proved in Verus unit c18_pager, BlobStore::write_direct)"
#[cfg(kani)]
mod verif_kani_c18_blob {
    use super::*;
    use crate::pager::PageId;

    static mut IDS: [u64; 4] = [0; 4];        // ids the allocator will hand out (symbolic, distinct)
    static mut N_ALLOC: usize = 0;
    static mut WRITTEN: [u64; 4] = [0; 4];
    static mut NEXT: [u64; 4] = [0; 4];
    static mut LEN: [u16; 4] = [0; 4];
    static mut N_WRITE: usize = 0;
    static mut BAD_WRITE: bool = false;

    fn stub_allocate(_p: &mut Pager) -> crate::Result<PageId> {
        unsafe {
            kani::assume(N_ALLOC < 4);
            let id = IDS[N_ALLOC];
            N_ALLOC += 1;
            Ok(PageId::new(id))
        }
    }
    fn stub_write(_p: &mut Pager, page_id: PageId, page: &[u8; crate::PAGE_SIZE]) -> crate::Result<()> {
        unsafe {
            // the real write_page accepts only allocated pages; here: only pages handed out in this call
            let mut ok = false;
            let mut i = 0;
            while i < N_ALLOC { if IDS[i] == page_id.as_u64() { ok = true; } i += 1; }
            if !ok { BAD_WRITE = true; }
            if N_WRITE < 4 {
                WRITTEN[N_WRITE] = page_id.as_u64();
                NEXT[N_WRITE] = u64::from_le_bytes([page[0], page[1], page[2], page[3], page[4], page[5], page[6], page[7]]);
                LEN[N_WRITE] = u16::from_le_bytes([page[8], page[9]]);
            }
            N_WRITE += 1;
            Ok(())
        }
    }

    fn run(len: usize, chunks: usize) {
        unsafe {
            let ids: [u64; 4] = kani::any();
            kani::assume(ids[0] >= 2 && ids[1] >= 2 && ids[2] >= 2 && ids[3] >= 2);
            kani::assume(ids[0] < 65536 && ids[1] < 65536 && ids[2] < 65536 && ids[3] < 65536);
            kani::assume(ids[0] != ids[1] && ids[0] != ids[2] && ids[0] != ids[3] && ids[1] != ids[2] && ids[1] != ids[3] && ids[2] != ids[3]);
            IDS = ids; N_ALLOC = 0; N_WRITE = 0; BAD_WRITE = false;
            let data = vec![0x5Au8; len];
            let mut pager = crate::pager::verif_kani_pager::dummy();
            let r = BlobStore::write_direct(&mut pager, &data);
            core::mem::forget(pager);
            assert!(r.is_ok(), "C18.blob.write_direct.ok_with_working_allocator");
            let head = match r { Ok(h) => h, Err(e) => { core::mem::forget(e); 0 } };
            let want = if chunks == 0 { 1 } else { chunks };
            assert!(!BAD_WRITE, "C18.blob.write_direct.writes_only_pages_it_was_handed");
            assert!(N_ALLOC == want && N_WRITE == want, "C18.blob.write_direct.one_write_per_allocated_page");
            // every handed-out page written exactly once
            let mut i = 0;
            while i < want {
                let mut hits = 0; let mut j = 0;
                while j < want { if WRITTEN[j] == IDS[i] { hits += 1; } j += 1; }
                assert!(hits == 1, "C18.blob.write_direct.each_page_once");
                i += 1;
            }
            // the chain from `head` visits `want` pages and ends with 0; lengths add up
            let mut cur = head; let mut seen = 0usize; let mut total = 0usize;
            while seen < want {
                let mut k = 0; let mut found = 4;
                while k < want { if WRITTEN[k] == cur { found = k; } k += 1; }
                assert!(found < 4, "C28.blob.write_direct.chain_links_written_pages");
                total += LEN[found] as usize;
                cur = NEXT[found];
                seen += 1;
            }
            assert!(cur == 0, "C28.blob.write_direct.chain_terminated");
            assert!(total == len, "C28.blob.write_direct.lengths_add_up");
        }
    }

    #[kani::proof]
    #[kani::unwind(6)]
    #[kani::stub(crate::pager::Pager::allocate_page, stub_allocate)]
    #[kani::stub(crate::pager::Pager::write_page, stub_write)]
    fn c18_blob_write_empty() { run(0, 0); kani::cover!(true, "reach: end"); }
    #[kani::proof]
    #[kani::unwind(6)]
    #[kani::stub(crate::pager::Pager::allocate_page, stub_allocate)]
    #[kani::stub(crate::pager::Pager::write_page, stub_write)]
    fn c18_blob_write_one_byte() { run(1, 1); kani::cover!(true, "reach: end"); }
}
//@inject nervusdb-storage/src/pager.rs before "#[cfg(test)]"
//@|#[cfg(kani)]
//@|pub(crate) mod verif_kani_pager {
//@|    use super::*;
//@|    /// a Pager value without a usable file: only for harnesses that stub every method touching `file`
//@|    pub(crate) fn dummy() -> Pager {
//@|        use std::os::fd::FromRawFd;
//@|        Pager { path: PathBuf::new(), file: unsafe { File::from_raw_fd(3) }, meta: Meta::new(), bitmap: Bitmap::new() }
//@|    }
//@|}
//@end
