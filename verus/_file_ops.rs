// ---- trusted file operations returning the crate's Result (the io::Error -> Error conversion of `?` is inside) ----
#[verifier::external_type_specification]
#[verifier::external_body]
pub struct ExPathBuf(std::path::PathBuf);
#[verifier::external_type_specification]
#[verifier::external_body]
pub struct ExPath(std::path::Path);

pub open spec fn zeros(n: int) -> Seq<u8> { Seq::new(n as nat, |i: int| 0u8) }

//@trusted vfile_len: file.metadata()?.len() is the current length of the file, below 2^63 (off_t is signed 64-bit); failure is an I/O error
#[verifier::external_body]
pub fn vfile_len(f: &std::fs::File) -> (r: Result<u64>)
    ensures r is Ok ==> r->Ok_0 == file_bytes(f).len() && file_bytes(f).len() <= 0x7fff_ffff_ffff_ffff, r is Err ==> r->Err_0 is Io
{ Ok(f.metadata().map_err(Error::Io)?.len()) }

//@trusted vfile_set_len: set_len(n) truncates to n bytes or extends with zeros; the position is unchanged; on failure the file is unchanged
#[verifier::external_body]
pub fn vfile_set_len(f: &mut std::fs::File, n: u64) -> (r: Result<()>)
    ensures
        file_pos(final(f)) == file_pos(old(f)),
        r is Ok ==> file_bytes(final(f)) == (if n <= file_bytes(old(f)).len() { file_bytes(old(f)).take(n as int) }
                                             else { file_bytes(old(f)) + zeros(n - file_bytes(old(f)).len()) }),
        r is Err ==> r->Err_0 is Io && file_bytes(final(f)) == file_bytes(old(f)),
{ f.set_len(n).map_err(Error::Io) }

#[verifier::external_type_specification]
pub struct ExSeekFrom(std::io::SeekFrom);
//@trusted vfile_seek: seek(SeekFrom::Start(n)) sets the position to n, SeekFrom::End(d) to len+d, SeekFrom::Current(d) to pos+d; the content is unchanged
#[verifier::external_body]
pub fn vfile_seek(f: &mut std::fs::File, to: std::io::SeekFrom) -> (r: Result<()>)
    ensures file_bytes(final(f)) == file_bytes(old(f)),
        r is Ok ==> file_pos(final(f)) == (match to {
            std::io::SeekFrom::Start(n) => n as int,
            std::io::SeekFrom::End(d) => file_bytes(old(f)).len() + d,
            std::io::SeekFrom::Current(d) => file_pos(old(f)) + d,
        }),
        r is Err ==> r->Err_0 is Io,
{ use std::io::Seek; f.seek(to).map(|_x| ()).map_err(Error::Io) }

//@trusted vfile_write_all: write_all(data) at position p <= |bytes| overwrites/extends from p and advances the position; on failure everything before p is unchanged (a partial write may have happened after p)
#[verifier::external_body]
pub fn vfile_write_all(f: &mut std::fs::File, data: &[u8]) -> (r: Result<()>)
    requires file_pos(old(f)) <= file_bytes(old(f)).len(),
    ensures
        forall|k: int| 0 <= k <= file_pos(old(f)) ==> #[trigger] file_bytes(final(f)).take(k) == file_bytes(old(f)).take(k),
        file_bytes(final(f)).len() >= file_pos(old(f)),
        r is Ok ==> file_pos(final(f)) == file_pos(old(f)) + data@.len()
            && file_bytes(final(f)) == file_bytes(old(f)).take(file_pos(old(f)) as int) + data@
                + (if file_pos(old(f)) + data@.len() <= file_bytes(old(f)).len() { file_bytes(old(f)).skip(file_pos(old(f)) as int + data@.len()) } else { Seq::<u8>::empty() }),
        r is Err ==> r->Err_0 is Io && file_pos(final(f)) <= file_bytes(final(f)).len(),
{ use std::io::Write; f.write_all(data).map_err(Error::Io) }

//@trusted vfile_flush: File::flush does not change content or position
#[verifier::external_body]
pub fn vfile_flush(f: &mut std::fs::File) -> (r: Result<()>)
    ensures file_bytes(final(f)) == file_bytes(old(f)), file_pos(final(f)) == file_pos(old(f)), r is Err ==> r->Err_0 is Io,
{ use std::io::Write; f.flush().map_err(Error::Io) }
