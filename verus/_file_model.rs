// ---- shared trusted file model (DESIGN.md 2.4): a File is (bytes, pos); fsync/rename are not modelled ----
#[verifier::external_type_specification]
#[verifier::external_body]
pub struct ExFile(std::fs::File);
#[verifier::external_type_specification]
pub struct ExErrorKind(std::io::ErrorKind);

pub uninterp spec fn file_bytes(f: &std::fs::File) -> Seq<u8>;
pub uninterp spec fn file_pos(f: &std::fs::File) -> nat;
pub uninterp spec fn io_kind(e: &std::io::Error) -> std::io::ErrorKind;

//@trusted io_error_kind: std::io::Error::kind is a function of the error value
pub assume_specification [ <std::io::Error>::kind ] (e: &std::io::Error) -> (k: std::io::ErrorKind)
    ensures k == io_kind(e);

//@trusted io_error_kind_eq: `==` on std::io::ErrorKind is structural equality
pub assume_specification [ <std::io::ErrorKind as core::cmp::PartialEq>::eq ] (a: &std::io::ErrorKind, b: &std::io::ErrorKind) -> (r: bool)
    ensures r == (*a == *b);

//@trusted vfile_read_exact: read_exact(buf) leaves the file unchanged; Ok iff pos+len <= |bytes| (then buf = that slice and pos advances); a file is shorter than 2^63 bytes; Err(UnexpectedEof) only when the file is too short; any other Err models an I/O failure
#[verifier::external_body]
pub fn vfile_read_exact(f: &mut std::fs::File, buf: &mut [u8]) -> (r: std::io::Result<()>)
    ensures
        file_bytes(final(f)) == file_bytes(old(f)),
        file_bytes(old(f)).len() <= 0x7fff_ffff_ffff_ffff,
        final(buf)@.len() == old(buf)@.len(),
        r is Ok ==> file_pos(old(f)) + old(buf)@.len() <= file_bytes(old(f)).len()
            && final(buf)@ == file_bytes(old(f)).subrange(file_pos(old(f)) as int, (file_pos(old(f)) + old(buf)@.len()) as int)
            && file_pos(final(f)) == file_pos(old(f)) + old(buf)@.len(),
        (r is Err && io_kind(&r->Err_0) == std::io::ErrorKind::UnexpectedEof) ==> file_pos(old(f)) + old(buf)@.len() > file_bytes(old(f)).len(),
        (r is Err && io_kind(&r->Err_0) != std::io::ErrorKind::UnexpectedEof) ==> true,
{
    use std::io::Read;
    f.read_exact(buf)
}
