// Verus unit c18_pager — C18 (growing one structure never corrupts another).
// Allocator side: Bitmap::{get_bit,set_bit,is_allocated,set_allocated,new}, Pager::{allocate_page, free_page,
// ensure_allocated, validate_data_page_id, read_page, write_page, flush_meta_and_bitmap, set_*}.
// Structure side (checked against the allocator's contracts, not its bodies): write_blob_pages (csr.rs),
// BTree::create, IndexCatalog::open_or_create, i2e_location / read_i2e_record / write_i2e_record (idmap.rs).
// Bodies extracted from nervusdb-storage/src/{pager,csr,idmap}.rs, index/{btree,catalog}.rs.
//@unit c18_pager
//@rlimit 50
//@property C18
use vstd::prelude::*;
use std::fs::File;
use std::path::{Path, PathBuf};
use std::collections::HashMap;
use std::collections::BTreeMap;
verus! {
//@include _prelude.rs
//@include _file_model.rs

//@item nervusdb-storage/src/lib.rs const PAGE_SIZE
//@item nervusdb-storage/src/error.rs enum Error
//@rewrite "    Serialization(serde_json::Error)," => ""
//@item nervusdb-storage/src/error.rs type Result
//@item nervusdb-storage/src/pager.rs struct PageId keep-derive
//@item nervusdb-storage/src/pager.rs const META_PAGE_ID
//@item nervusdb-storage/src/pager.rs const BITMAP_PAGE_ID
//@item nervusdb-storage/src/pager.rs const FIRST_DATA_PAGE_ID
//@item nervusdb-storage/src/pager.rs const BITMAP_BITS
//@item nervusdb-storage/src/pager.rs struct Meta keep-derive
//@item nervusdb-storage/src/pager.rs struct Bitmap
//@item nervusdb-storage/src/pager.rs struct Pager

//@include _file_ops.rs
//@include _pager_model.rs

impl PageId {
//@extract nervusdb-storage/src/pager.rs PageId::new ret r
//@| ensures r.0 == id
//@end
//@extract nervusdb-storage/src/pager.rs PageId::as_u64 ret r
//@| ensures r == self.0
//@end
}

pub proof fn lemma_bit_ops(b: u8, k: u8)
    requires k < 8
    ensures
        (b & (1u8 << k)) != 0 <==> byte_bit(b, k as int),
        byte_bit(b | (1u8 << k), k as int),
        !byte_bit(b & !(1u8 << k), k as int),
        forall|j: u8| j < 8 && j != k ==> byte_bit(b | (1u8 << k), j as int) == byte_bit(b, j as int),
        forall|j: u8| j < 8 && j != k ==> byte_bit(b & !(1u8 << k), j as int) == byte_bit(b, j as int),
{
    assert((b & (1u8 << k)) != 0 <==> ((b >> k) & 1u8) == 1u8) by (bit_vector) requires k < 8;
    assert((((b | (1u8 << k)) >> k) & 1u8) == 1u8) by (bit_vector) requires k < 8;
    assert((((b & !(1u8 << k)) >> k) & 1u8) != 1u8) by (bit_vector) requires k < 8;
    assert forall|j: u8| j < 8 && j != k implies byte_bit(b | (1u8 << k), j as int) == byte_bit(b, j as int) by {
        assert((((b | (1u8 << k)) >> j) & 1u8) == ((b >> j) & 1u8)) by (bit_vector) requires k < 8, j < 8, j != k;
    }
    assert forall|j: u8| j < 8 && j != k implies byte_bit(b & !(1u8 << k), j as int) == byte_bit(b, j as int) by {
        assert((((b & !(1u8 << k)) >> j) & 1u8) == ((b >> j) & 1u8)) by (bit_vector) requires k < 8, j < 8, j != k;
    }
}

impl Bitmap {

//@extract nervusdb-storage/src/pager.rs Bitmap::get_bit ret r
//@| requires bit < 65536
//@| ensures r == self.bit(bit as int)
//@proof after 1 "let mask = 1u8 << (bit % 8);"
//@| reveal(Bitmap::bit);
//@| lemma_bit_ops(self.data[byte_index as int], (bit % 8) as u8);
//@| assert(forall|x: u8, y: u8| #![auto] x | y == y | x) by (bit_vector);
//@| assert(forall|x: u8, y: u8| #![auto] x & y == y & x) by (bit_vector);
//@end

//@extract nervusdb-storage/src/pager.rs Bitmap::set_bit
//@| requires bit < 65536
//@| ensures final(self).bit(bit as int) == value,
//@|         forall|j: int| 0 <= j < 65536 && j != bit ==> final(self).bit(j) == old(self).bit(j),
//@proof after 1 "let mask = 1u8 << (bit % 8);"
//@| reveal(Bitmap::bit);
//@| lemma_bit_ops(self.data[byte_index as int], (bit % 8) as u8);
//@| assert(forall|x: u8, y: u8| #![auto] x | y == y | x) by (bit_vector);
//@| assert(forall|x: u8, y: u8| #![auto] x & y == y & x) by (bit_vector);
//@proof before 1 "=}" raw
//@| proof {
//@|     reveal(Bitmap::bit);
//@|     assert forall|j: int| 0 <= j < 65536 && j != bit implies self.bit(j) == old(self).bit(j) by {
//@|         if j / 8 == byte_index as int { assert(((j % 8) as u8) != (bit % 8) as u8); assert(((j % 8) as u8) < 8); }
//@|     }
//@| }
//@end

//@extract nervusdb-storage/src/pager.rs Bitmap::is_allocated ret r
//@| requires page_id.0 < 65536
//@| ensures r == self.bit(page_id.0 as int)
//@end

//@extract nervusdb-storage/src/pager.rs Bitmap::set_allocated
//@| requires page_id.0 < 65536
//@| ensures final(self).bit(page_id.0 as int) == allocated,
//@|         forall|j: int| 0 <= j < 65536 && j != page_id.0 ==> final(self).bit(j) == old(self).bit(j),
//@end

// C18.pager.find_free.spec - least clear bit of [start, end), or None; proved from the real body.
// Rule R13 (stated in DESIGN 2.2): `(A..B).find(|&X| P)` in tail position is rewritten to the loop that
// core::iter::Iterator::find performs on a Range<u64> - ids A, A+1, .. B-1 in order, the first one for which
// the closure is true is returned, None when the range is exhausted.  The closure body P is the repo's text.
//@extract nervusdb-storage/src/pager.rs Bitmap::find_free_in_range ret r
//@| requires end <= 65536
//@| ensures
//@|     r is Some ==> start <= r->Some_0 < end && !self.bit(r->Some_0 as int)
//@|         && forall|j: int| start <= j < r->Some_0 ==> self.bit(j),
//@|     r is None ==> forall|j: int| start <= j < end ==> self.bit(j),
//@preregex "(?m)^(\s*)\(([^()\n]+?)\.\.([^()\n]+?)\)\.find\(\|&(\w+)\|\s*([^\n]*)\)\s*$" => "\1let r13_a: u64 = \2; let r13_b: u64 = \3; let mut r13_i: u64 = r13_a;\n\1while r13_i < r13_b\n\1    invariant r13_a == (\2), r13_b == (\3), r13_a <= r13_i, r13_i <= r13_b || r13_i == r13_a, r13_b <= 65536, forall|j: int| r13_a <= j < r13_i ==> self.bit(j),\n\1    decreases r13_b - r13_i,\n\1{\n\1    let \4 = r13_i;\n\1    if \5 { return Some(\4); }\n\1    r13_i = r13_i + 1;\n\1}\n\1None"
//@end

} // impl Bitmap

impl Meta {
    //@trusted encode_page: Meta::encode_page returns some page image (its layout / round trip is the subject of Kani harness c18_meta_roundtrip, not of the frame argument)
    #[verifier::external_body]
    pub fn encode_page(self) -> (r: [u8; PAGE_SIZE])
        ensures r@ == meta_image(self)
    { unimplemented!() }
}

//@extract nervusdb-storage/src/pager.rs read_page_raw ret r
//@| requires page_id.0 < 65536
//@| ensures r is Ok ==> (page_id.0 + 1) * 8192 <= file_bytes(file).len()
//@|             && final(buf)@ == file_bytes(file).subrange(page_id.0 * 8192, page_id.0 * 8192 + 8192),
//@|     r is Err ==> r->Err_0 is Io,
//@prewrite "read_exact_at(file, offset, buf).map_err(Error::Io)?;" => "v_read_exact_at(file, offset, buf)?;"
//@end

//@extract nervusdb-storage/src/pager.rs write_page_raw ret r
//@| requires page_id.0 < 65536
//@| ensures
//@|     file_bytes(final(file)).len() >= file_bytes(old(file)).len(),
//@|     file_bytes(final(file)).len() <= 0x7fff_ffff_ffff_ffff,
//@|     file_bytes(final(file)).len() <= (if file_bytes(old(file)).len() >= (page_id.0 + 1) * 8192 { file_bytes(old(file)).len() } else { ((page_id.0 + 1) * 8192) as nat }),
//@|     forall|i: int| 0 <= i < file_bytes(old(file)).len() && i / 8192 != page_id.0 ==> #[trigger] file_bytes(final(file))[i] == file_bytes(old(file))[i],
//@|     r is Ok ==> file_bytes(final(file)).len() >= (page_id.0 + 1) * 8192
//@|         && file_bytes(final(file)).subrange(page_id.0 * 8192, page_id.0 * 8192 + 8192) == buf@,
//@prewrite "file: &File" => "file: &mut File"
//@prewrite "write_all_at(file, offset, buf).map_err(Error::Io)?;" => "v_write_all_at(file, offset, buf)?;"
//@end

impl Pager {

//@extract nervusdb-storage/src/pager.rs Pager::validate_data_page_id ret r
//@| ensures r is Ok <==> 2 <= page_id.0 < 65536, r is Err ==> r->Err_0 is PageIdOutOfRange
//@end

//@extract nervusdb-storage/src/pager.rs Pager::flush_meta_and_bitmap ret r
//@| requires old(self).bytes().len() >= 16384, old(self).bytes().len() <= 0x7fff_ffff_ffff_ffff
//@| ensures final(self).meta == old(self).meta, final(self).bitmap == old(self).bitmap,
//@|     final(self).bytes().len() == old(self).bytes().len(),
//@|     forall|i: int| 16384 <= i < old(self).bytes().len() ==> #[trigger] final(self).bytes()[i] == old(self).bytes()[i],
//@|     r is Ok ==> final(self).disk_synced(),
//@prewrite "&self.file" => "&mut self.file"
//@prewrite "self.file.sync_data()?;" => "vfile_sync_data(&mut self.file)?;"
//@proof before 1 "write_page_raw(&self.file, BITMAP_PAGE_ID, &self.bitmap.data)?;" raw
//@| let ghost b1 = self.bytes();
//@proof after 1 "write_page_raw(&self.file, BITMAP_PAGE_ID, &self.bitmap.data)?;"
//@| assert(self.bytes().subrange(0, 8192) =~= b1.subrange(0, 8192));
//@end

//@extract nervusdb-storage/src/pager.rs Pager::ensure_allocated ret r
//@| requires old(self).wf()
//@| ensures frame_ok(*old(self), *final(self), ISet::<int>::empty()),
//@|     r is Ok ==> 2 <= page_id.0 < 65536,
//@|     2 <= page_id.0 < 65536 ==> final(self).alloc(page_id.0 as int),
//@|     forall|q: int| 0 <= q < 65536 && q != page_id.0 ==> #[trigger] final(self).bitmap.bit(q) == old(self).bitmap.bit(q),
//@|     forall|i: int| 16384 <= i < old(self).bytes().len() ==> #[trigger] final(self).bytes()[i] == old(self).bytes()[i],
//@|     r is Ok ==> final(self).bytes().len() >= (page_id.0 + 1) * 8192,
//@|     r is Ok ==> final(self).disk_synced(),
//@|     2 <= page_id.0 < 65536 ==> final(self).next() == (if old(self).next() > page_id.0 { old(self).next() } else { page_id.0 + 1 }),
//@|     !(2 <= page_id.0 < 65536) ==> final(self).next() == old(self).next(),
//@prewrite "self.file.metadata()?.len()" => "vfile_len(&self.file)?"
//@prewrite "self.file.set_len(required_bytes)?;" => "vfile_set_len(&mut self.file, required_bytes)?;"
//@end

//@extract nervusdb-storage/src/pager.rs Pager::allocate_page ret r
//@| requires old(self).wf()
//@| ensures frame_ok(*old(self), *final(self), ISet::<int>::empty()),
//@|     forall|i: int| 16384 <= i < old(self).bytes().len() ==> #[trigger] final(self).bytes()[i] == old(self).bytes()[i],
//@|     r is Ok ==> 2 <= r->Ok_0.0 < 65536 && !old(self).alloc(r->Ok_0.0 as int) && final(self).alloc(r->Ok_0.0 as int)
//@|         && (forall|q: int| 0 <= q < 65536 && q != r->Ok_0.0 ==> #[trigger] final(self).bitmap.bit(q) == old(self).bitmap.bit(q))
//@|         && final(self).bytes().len() >= (r->Ok_0.0 + 1) * 8192
//@|         // C18 'correct after reopen': the allocation is in the bitmap page on disk when allocate_page returns
//@|         && final(self).disk_synced(),
//@end

//@extract nervusdb-storage/src/pager.rs Pager::free_page ret r
//@| requires old(self).wf()
//@| ensures final(self).wf(), final(self).next() == old(self).next(),
//@|     final(self).bytes().len() == old(self).bytes().len(),
//@|     forall|i: int| 16384 <= i < old(self).bytes().len() ==> #[trigger] final(self).bytes()[i] == old(self).bytes()[i],
//@|     forall|q: int| 0 <= q < 65536 && q != page_id.0 ==> #[trigger] final(self).bitmap.bit(q) == old(self).bitmap.bit(q),
//@|     r is Ok ==> 2 <= page_id.0 < 65536 && old(self).alloc(page_id.0 as int) && !final(self).alloc(page_id.0 as int) && final(self).disk_synced(),
//@|     !(2 <= page_id.0 < 65536 && old(self).alloc(page_id.0 as int)) ==> r is Err && final(self).alloc(page_id.0 as int) == old(self).alloc(page_id.0 as int),
//@end

//@extract nervusdb-storage/src/pager.rs Pager::read_page ret r
//@| ensures r is Ok ==> 2 <= page_id.0 < 65536 && self.alloc(page_id.0 as int) && (page_id.0 + 1) * 8192 <= self.bytes().len()
//@|     && r->Ok_0@ == self.bytes().subrange(page_id.0 * 8192, page_id.0 * 8192 + 8192),
//@|     r is Err ==> r->Err_0 is Io || r->Err_0 is PageIdOutOfRange || r->Err_0 is PageNotAllocated,
//@end

//@extract nervusdb-storage/src/pager.rs Pager::write_page ret r
//@| requires old(self).wf()
//@| ensures frame_ok(*old(self), *final(self), ISet::<int>::empty().insert(page_id.0 as int)),
//@|     final(self).meta == old(self).meta, final(self).bitmap == old(self).bitmap,
//@|     r is Ok ==> 2 <= page_id.0 < 65536 && old(self).alloc(page_id.0 as int) && final(self).bytes().len() >= (page_id.0 + 1) * 8192
//@|         && final(self).bytes().subrange(page_id.0 * 8192, page_id.0 * 8192 + 8192) == page@,
//@|     !(2 <= page_id.0 < 65536 && old(self).alloc(page_id.0 as int)) ==> r is Err && final(self).bytes() == old(self).bytes(),
//@prewrite "&self.file" => "&mut self.file"
//@end

//@extract nervusdb-storage/src/pager.rs Pager::i2e_start_page ret r
//@| ensures r == (if self.meta.i2e_start_page_id == 0 { None } else { Some(PageId(self.meta.i2e_start_page_id)) })
//@end
//@extract nervusdb-storage/src/pager.rs Pager::i2e_len ret r
//@| ensures r == self.meta.i2e_len
//@end
//@extract nervusdb-storage/src/pager.rs Pager::index_catalog_root ret r
//@| ensures r == (if self.meta.index_catalog_root == 0 { None } else { Some(PageId(self.meta.index_catalog_root)) })
//@end

//@extract nervusdb-storage/src/pager.rs Pager::allocate_run ret r
//@| requires old(self).wf()
//@| ensures frame_ok(*old(self), *final(self), ISet::<int>::empty()),
//@|     forall|i: int| 16384 <= i < old(self).bytes().len() ==> #[trigger] final(self).bytes()[i] == old(self).bytes()[i],
//@|     r is Ok ==> r->Ok_0.0 == old(self).next() && old(self).next() + count <= 65536
//@|         && final(self).next() == old(self).next() + count
//@|         && (forall|q: int| old(self).next() <= q < old(self).next() + count ==> final(self).alloc(q))
//@|         && (forall|q: int| 0 <= q < 65536 && !(old(self).next() <= q < old(self).next() + count) ==> #[trigger] final(self).bitmap.bit(q) == old(self).bitmap.bit(q)),
//@loop 1
//@| invariant old(self).wf(), self.wf(), first == old(self).next(), end == first + count, end <= 65536, first <= id <= end,
//@|     self.next() == id, frame_ok(*old(self), *self, ISet::<int>::empty()),
//@|     forall|i: int| 16384 <= i < old(self).bytes().len() ==> #[trigger] self.bytes()[i] == old(self).bytes()[i],
//@|     forall|q: int| first <= q < id ==> 0 <= q < 65536 && #[trigger] self.bitmap.bit(q),
//@|     forall|q: int| 0 <= q < 65536 && !(first <= q < id) ==> #[trigger] self.bitmap.bit(q) == old(self).bitmap.bit(q),
//@| decreases end - id
//@end

//@extract nervusdb-storage/src/pager.rs Pager::is_page_allocated ret r
//@| ensures r == (2 <= page_id.0 < 65536 && self.alloc(page_id.0 as int))
//@end

//@extract nervusdb-storage/src/pager.rs Pager::set_i2e_start_page ret r
//@| requires old(self).wf()
//@| ensures frame_ok(*old(self), *final(self), ISet::<int>::empty()), final(self).bitmap == old(self).bitmap, final(self).next() == old(self).next(),
//@|     forall|i: int| 16384 <= i < old(self).bytes().len() ==> #[trigger] final(self).bytes()[i] == old(self).bytes()[i],
//@|     r is Ok ==> final(self).disk_synced(),
//@end
//@extract nervusdb-storage/src/pager.rs Pager::set_i2e_len ret r
//@| requires old(self).wf()
//@| ensures frame_ok(*old(self), *final(self), ISet::<int>::empty()), final(self).bitmap == old(self).bitmap, final(self).next() == old(self).next(),
//@|     forall|i: int| 16384 <= i < old(self).bytes().len() ==> #[trigger] final(self).bytes()[i] == old(self).bytes()[i],
//@|     r is Ok ==> final(self).disk_synced(),
//@end
//@extract nervusdb-storage/src/pager.rs Pager::set_next_internal_id ret r
//@| requires old(self).wf()
//@| ensures frame_ok(*old(self), *final(self), ISet::<int>::empty()), final(self).bitmap == old(self).bitmap, final(self).next() == old(self).next(),
//@|     forall|i: int| 16384 <= i < old(self).bytes().len() ==> #[trigger] final(self).bytes()[i] == old(self).bytes()[i],
//@|     r is Ok ==> final(self).disk_synced(),
//@end
//@extract nervusdb-storage/src/pager.rs Pager::set_index_catalog_root ret r
//@| requires old(self).wf()
//@| ensures frame_ok(*old(self), *final(self), ISet::<int>::empty()), final(self).bitmap == old(self).bitmap, final(self).next() == old(self).next(),
//@|     forall|i: int| 16384 <= i < old(self).bytes().len() ==> #[trigger] final(self).bytes()[i] == old(self).bytes()[i],
//@|     r is Ok ==> final(self).disk_synced(),
//@end

} // impl Pager

// ================================================================== structure side (clients of the allocator)
//@trusted v_fill_prefix: `page[..n].copy_from_slice(src)` overwrites the first n bytes of the local page buffer with src (std panics unless src.len() == n: precondition); no pager state involved
#[verifier::external_body]
pub fn v_fill_prefix(page: &mut [u8; PAGE_SIZE], n: usize, src: &[u8])
    requires n <= 8192, src@.len() == n
    ensures final(page)@ == src@ + old(page)@.skip(n as int)
{ page[..n].copy_from_slice(src) }

//@extract nervusdb-storage/src/csr.rs write_blob_pages ret r
//@| requires old(pager).wf()
//@| ensures frame_ok(*old(pager), *final(pager), ISet::<int>::empty()),
//@|     r is Ok ==> forall|k: int| 0 <= k < r->Ok_0@.len() ==> 2 <= #[trigger] r->Ok_0@[k] < 65536
//@|         && !old(pager).alloc(r->Ok_0@[k] as int) && final(pager).alloc(r->Ok_0@[k] as int),
//@prewrite "let n = (blob.len() - pos).min(PAGE_SIZE);" => "let n = v_usize_min(blob.len() - pos, PAGE_SIZE);"
//@prewrite "page[..n].copy_from_slice(&blob[pos..pos + n]);" => "v_fill_prefix(&mut page, n, &blob[pos..pos + n]);"
//@prewrite "let mut pos = 0;" => "let mut pos: usize = 0;"
//@loop 1
//@| invariant old(pager).wf(), frame_ok(*old(pager), *pager, ISet::<int>::empty()), pos <= blob@.len(),
//@|     forall|k: int| 0 <= k < pages@.len() ==> 2 <= #[trigger] pages@[k] < 65536 && !old(pager).alloc(pages@[k] as int) && pager.alloc(pages@[k] as int),
//@| decreases blob@.len() - pos
//@end

//@item nervusdb-storage/src/index/btree.rs struct BTree
//@trusted v_init_leaf: `Page::new(&mut buf).init_leaf()` only fills the local page buffer (what it writes is the subject of unit c26_page); no pager state involved
#[verifier::external_body]
pub fn v_init_leaf(buf: &mut [u8; PAGE_SIZE]) { unimplemented!() }

impl BTree {
//@extract nervusdb-storage/src/index/btree.rs BTree::create ret r
//@| requires old(pager).wf()
//@| ensures frame_ok(*old(pager), *final(pager), ISet::<int>::empty()),
//@|     r is Ok ==> 2 <= r->Ok_0.root.0 < 65536 && !old(pager).alloc(r->Ok_0.root.0 as int) && final(pager).alloc(r->Ok_0.root.0 as int),
//@prewrite "Page::new(&mut buf).init_leaf();" => "v_init_leaf(&mut buf);"
//@end
}

//@item nervusdb-storage/src/idmap.rs type ExternalId
//@item nervusdb-storage/src/idmap.rs type LabelId
//@item nervusdb-storage/src/idmap.rs const I2E_RECORD_SIZE
//@item nervusdb-storage/src/idmap.rs const I2E_RECORDS_PER_PAGE
//@item nervusdb-storage/src/idmap.rs struct I2eRecord keep-derive

impl I2eRecord {
    //@trusted I2eRecord::encode: returns the 16-byte image of a node record (its layout is not part of the frame argument)
    #[verifier::external_body]
    pub fn encode(self) -> (r: [u8; I2E_RECORD_SIZE]) { unimplemented!() }
    //@trusted I2eRecord::decode: parses a 16-byte node record (its layout is not part of the frame argument)
    #[verifier::external_body]
    pub fn decode(bytes: &[u8; I2E_RECORD_SIZE]) -> (r: Self) { unimplemented!() }
}

/// pages the node table owns once it holds `len` records starting at page `start` (the start page is
/// the table's own from the moment it is recorded in the meta page, even while the table is empty)
pub open spec fn i2e_own(start: int, len: int) -> ISet<int> {
    ISet::new(|q: int| start <= q < start + (if len <= 0 { 1 } else { (len + 511) / 512 }))
}

//@extract nervusdb-storage/src/idmap.rs i2e_location ret r
//@| requires start.0 < 65536
//@| ensures r is Ok, r->Ok_0.0.0 == start.0 + internal_id_u64 / 512, r->Ok_0.1 == (internal_id_u64 % 512) * 16,
//@|     r->Ok_0.1 + 16 <= 8192,
//@end

//@trusted v_array_copy_at: `page[off..off + 16].copy_from_slice(&rec)` overwrites 16 bytes of the local page buffer at off (std panics unless off + 16 <= 8192: precondition) and leaves the rest of the buffer as it was
#[verifier::external_body]
pub fn v_array_copy_at(page: &mut [u8; PAGE_SIZE], off: usize, src: &[u8; I2E_RECORD_SIZE])
    requires off + 16 <= 8192
    ensures final(page)@ == old(page)@.take(off as int) + src@ + old(page)@.skip(off + 16)
{ page[off..off + I2E_RECORD_SIZE].copy_from_slice(src) }

//@extract nervusdb-storage/src/idmap.rs read_i2e_record ret r
//@| requires old(pager).wf(), start.0 < 65536
//@| ensures *final(pager) == *old(pager),
//@end

// C18.client.frame.write_i2e_record — THE PROPERTY for the node table, every id: writing record `id`
// of a table that holds `id` records (dense ids: the caller checks internal_id == i2e_len) changes no
// page that was allocated before the call other than the table's own pages.
//@extract nervusdb-storage/src/idmap.rs write_i2e_record ret r
//@| requires old(pager).wf(), 2 <= start.0 < 65536,
//@|     // the caller (apply_create_node_multi_label, via make_room_for_next_record) must have made room: a record that
//@|     // opens a new page finds that page free
//@|     internal_id_u64 > 0 && internal_id_u64 % 512 == 0 ==> !old(pager).alloc(start.0 + internal_id_u64 / 512),
//@| ensures frame_ok(*old(pager), *final(pager), i2e_own(start.0 as int, internal_id_u64 as int)),
//@preregex "page\[offset\.\.offset \+ I2E_RECORD_SIZE\]\.copy_from_slice\(&(\w+)\);" => "v_array_copy_at(&mut page, offset, &\1);"
//@end

//@item nervusdb-storage/src/idmap.rs type InternalNodeId
//@item nervusdb-storage/src/idmap.rs struct IdMap

impl IdMap {
// C18.client.frame.make_room — before a record that opens a new page is written, the page it will
// take is free (the table is moved to a fresh contiguous run if the page after it is taken).
//@extract nervusdb-storage/src/idmap.rs IdMap::make_room_for_next_record ret r
//@| requires old(pager).wf(), 2 <= start.0 < 65536,
//@| ensures frame_ok(*old(pager), *final(pager), i2e_own(start.0 as int, old(self).i2e_len as int)),
//@|     final(self).i2e_len == old(self).i2e_len,
//@|     final(self).i2e_start == old(self).i2e_start || (final(self).i2e_start is Some && 2 <= final(self).i2e_start->Some_0.0 < 65536),
//@|     r is Ok ==> 2 <= r->Ok_0.0 < 65536
//@|         // room: the page a new-page record will take is free
//@|         && (old(self).i2e_len > 0 && old(self).i2e_len % 512 == 0 ==> !final(pager).alloc(r->Ok_0.0 + old(self).i2e_len / 512))
//@|         // the table either stayed where it was or now lives in pages that were free before the call
//@|         && (r->Ok_0.0 == start.0 || forall|q: int| i2e_own(r->Ok_0.0 as int, old(self).i2e_len as int).contains(q) ==> !(0 <= q < 65536 && #[trigger] old(pager).bitmap.bit(q))),
//@prewrite "let mut i = 0;" => "let mut i: u64 = 0;"
//@loop 1
//@| invariant old(pager).wf(), pager.wf(), 2 <= start.0 < 65536, len > 0, len % 512 == 0, pages == len / 512, i <= pages,
//@|     len == old(self).i2e_len, *self == *old(self),
//@|     new_start.0 >= 2, new_start.0 + pages <= 65536, pager.next() == new_start.0 + pages,
//@|     forall|q: int| new_start.0 <= q < new_start.0 + pages ==> !(0 <= q < 65536 && #[trigger] old(pager).bitmap.bit(q)),
//@|     frame_ok(*old(pager), *pager, ISet::<int>::empty()),
//@| decreases pages - i
//@loop 2
//@| invariant old(pager).wf(), pager.wf(), 2 <= start.0 < 65536, len > 0, len % 512 == 0, pages == len / 512, i <= pages,
//@|     len == old(self).i2e_len, self.i2e_len == old(self).i2e_len, self.i2e_start == Some(new_start),
//@|     new_start.0 >= 2, new_start.0 + pages <= 65536, pager.next() == new_start.0 + pages,
//@|     forall|q: int| new_start.0 <= q < new_start.0 + pages ==> !(0 <= q < 65536 && #[trigger] old(pager).bitmap.bit(q)),
//@|     frame_ok(*old(pager), *pager, i2e_own(start.0 as int, len as int)),
//@| decreases pages - i
//@proof before 1 "pager.free_page(PageId::new(start.as_u64() + i))?;"
//@| assert((len + 511) / 512 == pages);
//@| assert(i2e_own(start.0 as int, len as int).contains(start.0 + i));
//@end
}

//@trusted v_sort_dedup: `labels.sort_unstable(); labels.dedup();` only reorders / shrinks the local label vector; no pager state involved
#[verifier::external_body]
pub fn v_sort_dedup(labels: &mut Vec<LabelId>) { labels.sort_unstable(); labels.dedup(); }
//@trusted v_first_or_zero: `labels.first().copied().unwrap_or(0)` reads the local label vector; no pager state involved
#[verifier::external_body]
pub fn v_first_or_zero(labels: &Vec<LabelId>) -> (r: LabelId) { labels.first().copied().unwrap_or(0) }
//@trusted v_e2i_contains: HashMap::contains_key on the in-memory external-id map; no pager state involved
#[verifier::external_body]
pub fn v_e2i_contains(m: &HashMap<ExternalId, InternalNodeId>, k: &ExternalId) -> (r: bool) { m.contains_key(k) }
//@trusted v_e2i_insert: HashMap::insert on the in-memory external-id map; no pager state involved
#[verifier::external_body]
pub fn v_e2i_insert(m: &mut HashMap<ExternalId, InternalNodeId>, k: ExternalId, v: InternalNodeId) { m.insert(k, v); }

//@trusted result_unwrap_or: Result::unwrap_or(d) returns the Ok payload, or d for an Err (std)
pub assume_specification<T, E> [core::result::Result::<T, E>::unwrap_or] (res: core::result::Result<T, E>, d: T) -> (r: T)
    where E: core::marker::Destruct, T: core::marker::Destruct,
    ensures r == (match res { Ok(t) => t, Err(_) => d });

impl IdMap {
//@extract nervusdb-storage/src/idmap.rs IdMap::next_internal_id ret r
//@| ensures r == (if self.i2e_len <= u32::MAX { self.i2e_len as u32 } else { u32::MAX })
//@end

// C18.client.frame.apply_create_node — THE PROPERTY for the node table, every id and every bitmap
// state: creating a node changes no page that was allocated before the call other than the node
// table's own pages (those holding its `i2e_len` records from `i2e_start`).
//@extract nervusdb-storage/src/idmap.rs IdMap::apply_create_node_multi_label ret r
//@| requires old(pager).wf(), old(self).i2e_len < u64::MAX,
//@|     old(self).i2e_start is Some ==> 2 <= old(self).i2e_start->Some_0.0 < 65536,
//@|     // representation invariant of IdMap: a table without a start page holds no records
//@|     old(self).i2e_start is None ==> old(self).i2e_len == 0,
//@| ensures final(self).i2e_start is None ==> final(self).i2e_len == 0,
//@|     final(self).i2e_start is Some ==> 2 <= final(self).i2e_start->Some_0.0 < 65536,
//@|     old(self).i2e_start is Some ==> frame_ok(*old(pager), *final(pager), i2e_own(old(self).i2e_start->Some_0.0 as int, old(self).i2e_len as int)),
//@|     old(self).i2e_start is None ==> frame_ok(*old(pager), *final(pager), ISet::<int>::empty()),
//@prewrite "self.e2i.contains_key(&external_id)" => "v_e2i_contains(&self.e2i, &external_id)"
//@prewrite "labels.sort_unstable();\n        labels.dedup();" => "v_sort_dedup(&mut labels);"
//@prewrite "labels.first().copied().unwrap_or(0)" => "v_first_or_zero(&labels)"
//@prewrite "self.e2i.insert(external_id, internal_id);" => "v_e2i_insert(&mut self.e2i, external_id, internal_id);"
//@end
}

// ---- blob store
//@item nervusdb-storage/src/blob_store.rs struct BlobStore
//@item nervusdb-storage/src/blob_store.rs const HEADER_SIZE
//@item nervusdb-storage/src/blob_store.rs const MAX_DATA_PER_PAGE
//@trusted v_chunks_rev: `data.chunks(n).collect::<Vec<_>>()` followed by `.into_iter().rev()` visits the non-empty pieces of `data` of at most n bytes each, last piece first (std); the loop of write_direct iterates this vector (iterator adapters chunks/rev are not ingestible)
#[verifier::external_body]
pub fn v_chunks_rev<'a>(data: &'a [u8], n: usize) -> (r: Vec<&'a [u8]>)
    requires n > 0
    ensures forall|i: int| 0 <= i < r@.len() ==> 1 <= (#[trigger] r@[i])@.len() <= n,
        (r@.len() == 0) == (data@.len() == 0),
{ let mut v: Vec<&[u8]> = data.chunks(n).collect(); v.reverse(); v }
//@trusted v_page_write: `page[a..b].copy_from_slice(src)` on a local page buffer overwrites a..b with src (std panics unless a <= b <= 8192 and src.len() == b - a: precondition); no pager state involved
#[verifier::external_body]
pub fn v_page_write(page: &mut [u8; 8192], a: usize, b: usize, src: &[u8])
    requires a <= b <= 8192, src@.len() == b - a
    ensures final(page)@ == old(page)@.take(a as int) + src@ + old(page)@.skip(b as int)
{ page[a..b].copy_from_slice(src) }

impl BlobStore {
// C18.client.frame.write_direct — the property for the blob store (property values, statistics, HNSW
// payloads): every page a blob write touches is one it obtained from allocate_page in the same call.
//@extract nervusdb-storage/src/blob_store.rs BlobStore::write_direct ret r
//@| requires old(pager).wf(), data@.len() <= 0x7fff_ffff_ffff_ffff,
//@| ensures frame_ok(*old(pager), *final(pager), ISet::<int>::empty()),
//@|     r is Ok ==> 2 <= r->Ok_0 < 65536 && !old(pager).alloc(r->Ok_0 as int) && final(pager).alloc(r->Ok_0 as int),
//@prewrite "if data.is_empty() {" => "if data.len() == 0 {"
//@preregex "(?s)let chunks: Vec<&\[u8\]> = data\.chunks\(MAX_DATA_PER_PAGE\)\.collect\(\);" => "let chunks: Vec<&[u8]> = v_chunks_rev(data, MAX_DATA_PER_PAGE);"
//@prewrite "in it1: chunks.into_iter().rev() " => "in it1: chunks.iter() "
//@preregex "page\[(\w+)\.\.([^\]]+)\]\.copy_from_slice\(([^;]*)\);" => "v_page_write(&mut page, \1, \2, \3);"
//@lebytes last_pid:u64 chunk_len:u16
//@loop 1 iter it1
//@| invariant old(pager).wf(), frame_ok(*old(pager), *pager, ISet::<int>::empty()),
//@|     forall|i: int| 0 <= i < chunks@.len() ==> 1 <= (#[trigger] chunks@[i])@.len() <= 8182,
//@|     chunks@.len() > 0, it1.index@ == 0 ==> last_pid == 0,
//@|     it1.index@ > 0 ==> 2 <= last_pid < 65536 && !old(pager).alloc(last_pid as int) && pager.alloc(last_pid as int),
//@end
}

// ---- index catalog (one page, rewritten in place)
//@item nervusdb-storage/src/index/catalog.rs struct IndexDef keep-derive
//@item nervusdb-storage/src/index/catalog.rs struct IndexCatalog
//@trusted v_init_empty_catalog_page: init_empty_catalog_page only fills the local page buffer; no pager state involved
#[verifier::external_body]
pub fn init_empty_catalog_page(buf: &mut [u8; PAGE_SIZE]) { unimplemented!() }
//@trusted decode_catalog_page: parses a local page image into the in-memory name -> (id, root) map; no pager state involved (its layout is not part of the frame argument)
#[verifier::external_body]
pub fn decode_catalog_page(buf: &[u8; PAGE_SIZE]) -> (r: Result<BTreeMap<String, IndexDef>>) { unimplemented!() }
//@trusted encode_catalog_page: serialises the in-memory map into a local page image; no pager state involved
#[verifier::external_body]
pub fn encode_catalog_page(entries: &BTreeMap<String, IndexDef>, out: &mut [u8; PAGE_SIZE]) -> (r: Result<()>) { unimplemented!() }

impl Pager {
//@extract nervusdb-storage/src/pager.rs Pager::next_index_id ret r
//@| ensures true
//@end
//@extract nervusdb-storage/src/pager.rs Pager::allocate_index_id ret r
//@| requires old(self).wf()
//@| ensures frame_ok(*old(self), *final(self), ISet::<int>::empty()), final(self).bitmap == old(self).bitmap, final(self).next() == old(self).next(),
//@|     final(self).meta.index_catalog_root == old(self).meta.index_catalog_root,
//@|     forall|i: int| 16384 <= i < old(self).bytes().len() ==> #[trigger] final(self).bytes()[i] == old(self).bytes()[i],
//@end
}

impl IndexCatalog {
// C18.client.frame.catalog — the catalog writes only its own page (and, when it creates the page or an
// index tree, pages it obtains from allocate_page in the same call).
//@extract nervusdb-storage/src/index/catalog.rs IndexCatalog::open_or_create ret r
//@| requires old(pager).wf(), old(pager).meta.index_catalog_root != 0 ==> 2 <= old(pager).meta.index_catalog_root < 65536,
//@| ensures old(pager).meta.index_catalog_root != 0 ==> *final(pager) == *old(pager),
//@|     old(pager).meta.index_catalog_root == 0 ==> frame_ok(*old(pager), *final(pager), ISet::<int>::empty()),
//@|     r is Ok ==> 2 <= r->Ok_0.page.0 < 65536 && final(pager).alloc(r->Ok_0.page.0 as int)
//@|         && (old(pager).meta.index_catalog_root == 0 ==> !old(pager).alloc(r->Ok_0.page.0 as int))
//@|         && (old(pager).meta.index_catalog_root != 0 ==> r->Ok_0.page.0 == old(pager).meta.index_catalog_root),
//@end
//@extract nervusdb-storage/src/index/catalog.rs IndexCatalog::flush ret r
//@| requires old(pager).wf(),
//@| ensures frame_ok(*old(pager), *final(pager), ISet::<int>::empty().insert(self.page.0 as int)),
//@|     final(pager).meta == old(pager).meta, final(pager).bitmap == old(pager).bitmap,
//@end
}

//@trusted v_entries_get: BTreeMap::get on the in-memory catalog map; no pager state involved
#[verifier::external_body]
pub fn v_entries_get<'a>(m: &'a BTreeMap<String, IndexDef>, name: &str) -> (r: Option<&'a IndexDef>) { m.get(name) }
//@trusted v_entries_get_mut: BTreeMap::get_mut on the in-memory catalog map; no pager state involved
#[verifier::external_body]
pub fn v_entries_set_root(m: &mut BTreeMap<String, IndexDef>, name: &str, root: PageId) -> (r: bool) { unimplemented!() }
//@trusted v_entries_insert: BTreeMap::insert on the in-memory catalog map; no pager state involved
#[verifier::external_body]
pub fn v_entries_insert(m: &mut BTreeMap<String, IndexDef>, name: &str, def: IndexDef) { m.insert(name.to_string(), def); }

impl BTree {
//@extract nervusdb-storage/src/index/btree.rs BTree::root ret r
//@| ensures r == self.root
//@end
}
impl IndexCatalog {
//@extract nervusdb-storage/src/index/catalog.rs IndexCatalog::get_or_create ret r
//@| requires old(pager).wf(),
//@| ensures frame_ok(*old(pager), *final(pager), ISet::<int>::empty().insert(old(self).page.0 as int)),
//@|     final(self).page == old(self).page,
//@prewrite "self.entries.get(name)" => "v_entries_get(&self.entries, name)"
//@prewrite "self.entries.insert(name.to_string(), def.clone());" => "v_entries_insert(&mut self.entries, name, def.clone());"
//@end
}

impl BlobStore {
// C18.client.frame.blob_delete — deleting a blob frees only pages of its own chain (each page it frees is
// one it has just read the next pointer from, starting at the blob's first page) and changes no page content.
//@extract nervusdb-storage/src/blob_store.rs BlobStore::delete ret r
//@attr #[verifier::exec_allows_no_decreases_clause]
//@| requires old(pager).wf(),
//@| ensures final(pager).wf(), final(pager).bytes().len() == old(pager).bytes().len(),
//@|     forall|i: int| 16384 <= i < old(pager).bytes().len() ==> #[trigger] final(pager).bytes()[i] == old(pager).bytes()[i],
//@|     // nothing is ever allocated by a delete
//@|     forall|q: int| 0 <= q < 65536 && #[trigger] final(pager).bitmap.bit(q) ==> old(pager).bitmap.bit(q),
//@|     // a page that is neither the first page of the blob nor named by the next pointer of a page freed before it stays allocated
//@|     forall|q: int| 0 <= q < 65536 && #[trigger] old(pager).bitmap.bit(q) && !final(pager).bitmap.bit(q)
//@|         ==> q == page_id0 || exists|p: int| 2 <= p < 65536 && old(pager).bitmap.bit(p) && !final(pager).bitmap.bit(p)
//@|                 && #[trigger] from_le64(old(pager).bytes().subrange(p * 8192, p * 8192 + 8)) == q,
//@prewrite "mut page_id: u64" => "page_id0: u64"
//@prewrite "        while page_id != 0" => "        let mut page_id = page_id0;\n        while page_id != 0"
//@loop 1
//@| invariant old(pager).wf(), pager.wf(), pager.bytes().len() == old(pager).bytes().len(),
//@|     forall|i: int| 16384 <= i < old(pager).bytes().len() ==> #[trigger] pager.bytes()[i] == old(pager).bytes()[i],
//@|     forall|q: int| 0 <= q < 65536 && #[trigger] pager.bitmap.bit(q) ==> old(pager).bitmap.bit(q),
//@|     forall|q: int| 0 <= q < 65536 && #[trigger] old(pager).bitmap.bit(q) && !pager.bitmap.bit(q)
//@|         ==> q == page_id0 || exists|p: int| 2 <= p < 65536 && old(pager).bitmap.bit(p) && !pager.bitmap.bit(p)
//@|                 && #[trigger] from_le64(old(pager).bytes().subrange(p * 8192, p * 8192 + 8)) == q,
//@|     page_id == page_id0 || exists|p: int| 2 <= p < 65536 && old(pager).bitmap.bit(p) && !pager.bitmap.bit(p)
//@|                 && #[trigger] from_le64(old(pager).bytes().subrange(p * 8192, p * 8192 + 8)) == page_id,
//@proof after 1 "pager.free_page(PageId::new(page_id))?;"
//@| let p = page_id as int;
//@| assert(page@.subrange(0, 8) =~= old(pager).bytes().subrange(p * 8192, p * 8192 + 8));
//@| assert(from_le64(old(pager).bytes().subrange(p * 8192, p * 8192 + 8)) == next_page_id);
//@end
}

//@canary|pub proof fn canary_wf(p: Pager) requires p.wf(), p.alloc(5), !p.alloc(6), p.next() == 9 ensures false {}
//@canary|pub proof fn canary_frame(a: Pager, b: Pager) requires frame_ok(a, b, ISet::<int>::empty()), a.alloc(7), b.alloc(8), !a.alloc(8), a.bytes().len() == 81920 ensures false {}
//@canary|pub proof fn canary_i2e_room(p: Pager, start: int) requires p.wf(), 2 <= start < 65536, !p.alloc(start + 1), p.alloc(start) ensures false {}

} // verus!
fn main() {}
