// Verus unit c18_pager — C18 (growing one structure never corrupts another).
// Allocator side: Bitmap::{get_bit,set_bit,is_allocated,set_allocated,new}, Pager::{allocate_page, free_page,
// ensure_allocated, validate_data_page_id, read_page, write_page, flush_meta_and_bitmap, set_*}.
// Structure side (checked against the allocator's contracts, not its bodies): write_blob_pages (csr.rs),
// BTree::create, IndexCatalog::open_or_create, i2e_location / read_i2e_record / write_i2e_record (idmap.rs).
// Bodies extracted from nervusdb-storage/src/{pager,csr,idmap}.rs, index/{btree,catalog}.rs.
//@unit c18_pager
//@property C18
use vstd::prelude::*;
use std::fs::File;
use std::path::{Path, PathBuf};
verus! {
//@include _prelude.rs
//@include _file_model.rs

//@item nervusdb-storage/src/lib.rs const PAGE_SIZE
//@item nervusdb-storage/src/error.rs enum Error
//@rewrite "    Serialization(serde_json::Error)," => ""
//@item nervusdb-storage/src/error.rs type Result
//@item nervusdb-storage/src/pager.rs struct PageId keep-derive
//@item nervusdb-storage/src/pager.rs const META_PAGE_ID
//@item nervusdb-storage/src/pager.rs const BITMAP_PAGE_ID
//@item nervusdb-storage/src/pager.rs const FIRST_DATA_PAGE_ID
//@item nervusdb-storage/src/pager.rs const BITMAP_BITS
//@item nervusdb-storage/src/pager.rs struct Meta keep-derive
//@item nervusdb-storage/src/pager.rs struct Bitmap
//@item nervusdb-storage/src/pager.rs struct Pager

//@include _file_ops.rs
//@include _pager_model.rs

impl PageId {
//@extract nervusdb-storage/src/pager.rs PageId::new ret r
//@| ensures r.0 == id
//@end
//@extract nervusdb-storage/src/pager.rs PageId::as_u64 ret r
//@| ensures r == self.0
//@end
}

pub proof fn lemma_bit_ops(b: u8, k: u8)
    requires k < 8
    ensures
        (b & (1u8 << k)) != 0 <==> byte_bit(b, k as int),
        byte_bit(b | (1u8 << k), k as int),
        !byte_bit(b & !(1u8 << k), k as int),
        forall|j: u8| j < 8 && j != k ==> byte_bit(b | (1u8 << k), j as int) == byte_bit(b, j as int),
        forall|j: u8| j < 8 && j != k ==> byte_bit(b & !(1u8 << k), j as int) == byte_bit(b, j as int),
{
    assert((b & (1u8 << k)) != 0 <==> ((b >> k) & 1u8) == 1u8) by (bit_vector) requires k < 8;
    assert((((b | (1u8 << k)) >> k) & 1u8) == 1u8) by (bit_vector) requires k < 8;
    assert((((b & !(1u8 << k)) >> k) & 1u8) != 1u8) by (bit_vector) requires k < 8;
    assert forall|j: u8| j < 8 && j != k implies byte_bit(b | (1u8 << k), j as int) == byte_bit(b, j as int) by {
        assert((((b | (1u8 << k)) >> j) & 1u8) == ((b >> j) & 1u8)) by (bit_vector) requires k < 8, j < 8, j != k;
    }
    assert forall|j: u8| j < 8 && j != k implies byte_bit(b & !(1u8 << k), j as int) == byte_bit(b, j as int) by {
        assert((((b & !(1u8 << k)) >> j) & 1u8) == ((b >> j) & 1u8)) by (bit_vector) requires k < 8, j < 8, j != k;
    }
}

impl Bitmap {

//@extract nervusdb-storage/src/pager.rs Bitmap::get_bit ret r
//@| requires bit < 65536
//@| ensures r == self.bit(bit as int)
//@proof after 1 "let mask = 1u8 << (bit % 8);"
//@| reveal(Bitmap::bit);
//@| lemma_bit_ops(self.data[byte_index as int], (bit % 8) as u8);
//@end

//@extract nervusdb-storage/src/pager.rs Bitmap::set_bit
//@| requires bit < 65536
//@| ensures final(self).bit(bit as int) == value,
//@|         forall|j: int| 0 <= j < 65536 && j != bit ==> final(self).bit(j) == old(self).bit(j),
//@proof after 1 "let mask = 1u8 << (bit % 8);"
//@| reveal(Bitmap::bit);
//@| lemma_bit_ops(self.data[byte_index as int], (bit % 8) as u8);
//@proof before 1 "=}" raw
//@| proof {
//@|     reveal(Bitmap::bit);
//@|     assert forall|j: int| 0 <= j < 65536 && j != bit implies self.bit(j) == old(self).bit(j) by {
//@|         if j / 8 == byte_index as int { assert(((j % 8) as u8) != (bit % 8) as u8); assert(((j % 8) as u8) < 8); }
//@|     }
//@| }
//@end

//@extract nervusdb-storage/src/pager.rs Bitmap::is_allocated ret r
//@| requires page_id.0 < 65536
//@| ensures r == self.bit(page_id.0 as int)
//@end

//@extract nervusdb-storage/src/pager.rs Bitmap::set_allocated
//@| requires page_id.0 < 65536
//@| ensures final(self).bit(page_id.0 as int) == allocated,
//@|         forall|j: int| 0 <= j < 65536 && j != page_id.0 ==> final(self).bit(j) == old(self).bit(j),
//@end

    //@trusted find_free_in_range: contract of Bitmap::find_free_in_range — `(start..end).find(|&id| !self.get_bit(id))` is an iterator adapter over a closure, which Verus cannot ingest; the contract (least clear bit in [start, end), or None) is discharged from the real body by the Kani harness c18_find_free_window (bounded window)
    #[verifier::external_body]
    pub fn find_free_in_range(&self, start: u64, end: u64) -> (r: Option<u64>)
        requires end <= 65536
        ensures
            r is Some ==> start <= r->Some_0 < end && !self.bit(r->Some_0 as int)
                && forall|j: int| start <= j < r->Some_0 ==> self.bit(j),
            r is None ==> forall|j: int| start <= j < end ==> self.bit(j),
    { unimplemented!() }

} // impl Bitmap

impl Meta {
    //@trusted encode_page: Meta::encode_page returns some page image (its layout / round trip is the subject of Kani harness c18_meta_roundtrip, not of the frame argument)
    #[verifier::external_body]
    pub fn encode_page(self) -> (r: [u8; PAGE_SIZE])
    { unimplemented!() }
}

//@extract nervusdb-storage/src/pager.rs read_page_raw ret r
//@| requires page_id.0 < 65536
//@| ensures r is Ok ==> (page_id.0 + 1) * 8192 <= file_bytes(file).len()
//@|             && final(buf)@ == file_bytes(file).subrange(page_id.0 * 8192, page_id.0 * 8192 + 8192),
//@prewrite "read_exact_at(file, offset, buf).map_err(Error::Io)?;" => "v_read_exact_at(file, offset, buf)?;"
//@end

//@extract nervusdb-storage/src/pager.rs write_page_raw ret r
//@| requires page_id.0 < 65536
//@| ensures
//@|     file_bytes(final(file)).len() >= file_bytes(old(file)).len(),
//@|     file_bytes(final(file)).len() <= 0x7fff_ffff_ffff_ffff,
//@|     file_bytes(final(file)).len() <= (if file_bytes(old(file)).len() >= (page_id.0 + 1) * 8192 { file_bytes(old(file)).len() } else { ((page_id.0 + 1) * 8192) as nat }),
//@|     forall|i: int| 0 <= i < file_bytes(old(file)).len() && i / 8192 != page_id.0 ==> #[trigger] file_bytes(final(file))[i] == file_bytes(old(file))[i],
//@|     r is Ok ==> file_bytes(final(file)).len() >= (page_id.0 + 1) * 8192
//@|         && file_bytes(final(file)).subrange(page_id.0 * 8192, page_id.0 * 8192 + 8192) == buf@,
//@prewrite "file: &File" => "file: &mut File"
//@prewrite "write_all_at(file, offset, buf).map_err(Error::Io)?;" => "v_write_all_at(file, offset, buf)?;"
//@end

impl Pager {

//@extract nervusdb-storage/src/pager.rs Pager::validate_data_page_id ret r
//@| ensures r is Ok <==> 2 <= page_id.0 < 65536
//@end

//@extract nervusdb-storage/src/pager.rs Pager::flush_meta_and_bitmap ret r
//@| requires old(self).bytes().len() >= 16384, old(self).bytes().len() <= 0x7fff_ffff_ffff_ffff
//@| ensures final(self).meta == old(self).meta, final(self).bitmap == old(self).bitmap,
//@|     final(self).bytes().len() == old(self).bytes().len(),
//@|     forall|i: int| 16384 <= i < old(self).bytes().len() ==> #[trigger] final(self).bytes()[i] == old(self).bytes()[i],
//@prewrite "&self.file" => "&mut self.file"
//@prewrite "self.file.sync_data()?;" => "vfile_sync_data(&mut self.file)?;"
//@end

//@extract nervusdb-storage/src/pager.rs Pager::ensure_allocated ret r
//@| requires old(self).wf()
//@| ensures frame_ok(*old(self), *final(self), Set::empty()),
//@|     r is Ok ==> 2 <= page_id.0 < 65536,
//@|     2 <= page_id.0 < 65536 ==> final(self).alloc(page_id.0 as int),
//@|     forall|q: int| q != page_id.0 ==> final(self).alloc(q) == old(self).alloc(q),
//@|     forall|i: int| 16384 <= i < old(self).bytes().len() ==> #[trigger] final(self).bytes()[i] == old(self).bytes()[i],
//@|     r is Ok ==> final(self).bytes().len() >= (page_id.0 + 1) * 8192,
//@prewrite "self.file.metadata()?.len()" => "vfile_len(&self.file)?"
//@prewrite "self.file.set_len(required_bytes)?;" => "vfile_set_len(&mut self.file, required_bytes)?;"
//@end

//@extract nervusdb-storage/src/pager.rs Pager::allocate_page ret r
//@| requires old(self).wf()
//@| ensures frame_ok(*old(self), *final(self), Set::empty()),
//@|     forall|i: int| 16384 <= i < old(self).bytes().len() ==> #[trigger] final(self).bytes()[i] == old(self).bytes()[i],
//@|     r is Ok ==> 2 <= r->Ok_0.0 < 65536 && !old(self).alloc(r->Ok_0.0 as int) && final(self).alloc(r->Ok_0.0 as int)
//@|         && (forall|q: int| q != r->Ok_0.0 ==> final(self).alloc(q) == old(self).alloc(q))
//@|         && final(self).bytes().len() >= (r->Ok_0.0 + 1) * 8192,
//@end

//@extract nervusdb-storage/src/pager.rs Pager::free_page ret r
//@| requires old(self).wf()
//@| ensures final(self).wf(),
//@|     final(self).bytes().len() == old(self).bytes().len(),
//@|     forall|i: int| 16384 <= i < old(self).bytes().len() ==> #[trigger] final(self).bytes()[i] == old(self).bytes()[i],
//@|     forall|q: int| q != page_id.0 ==> final(self).alloc(q) == old(self).alloc(q),
//@|     r is Ok ==> 2 <= page_id.0 < 65536 && old(self).alloc(page_id.0 as int) && !final(self).alloc(page_id.0 as int),
//@|     !(2 <= page_id.0 < 65536 && old(self).alloc(page_id.0 as int)) ==> r is Err && final(self).alloc(page_id.0 as int) == old(self).alloc(page_id.0 as int),
//@end

//@extract nervusdb-storage/src/pager.rs Pager::read_page ret r
//@| ensures r is Ok ==> 2 <= page_id.0 < 65536 && self.alloc(page_id.0 as int) && (page_id.0 + 1) * 8192 <= self.bytes().len()
//@|     && r->Ok_0@ == self.bytes().subrange(page_id.0 * 8192, page_id.0 * 8192 + 8192),
//@end

//@extract nervusdb-storage/src/pager.rs Pager::write_page ret r
//@| requires old(self).wf()
//@| ensures frame_ok(*old(self), *final(self), set![page_id.0 as int]),
//@|     final(self).meta == old(self).meta, final(self).bitmap == old(self).bitmap,
//@|     r is Ok ==> 2 <= page_id.0 < 65536 && old(self).alloc(page_id.0 as int) && final(self).bytes().len() >= (page_id.0 + 1) * 8192
//@|         && final(self).bytes().subrange(page_id.0 * 8192, page_id.0 * 8192 + 8192) == page@,
//@|     !(2 <= page_id.0 < 65536 && old(self).alloc(page_id.0 as int)) ==> r is Err && final(self).bytes() == old(self).bytes(),
//@prewrite "&self.file" => "&mut self.file"
//@end

//@extract nervusdb-storage/src/pager.rs Pager::i2e_start_page ret r
//@| ensures r == (if self.meta.i2e_start_page_id == 0 { None } else { Some(PageId(self.meta.i2e_start_page_id)) })
//@end
//@extract nervusdb-storage/src/pager.rs Pager::i2e_len ret r
//@| ensures r == self.meta.i2e_len
//@end
//@extract nervusdb-storage/src/pager.rs Pager::index_catalog_root ret r
//@| ensures r == (if self.meta.index_catalog_root == 0 { None } else { Some(PageId(self.meta.index_catalog_root)) })
//@end

} // impl Pager

} // verus!
fn main() {}
