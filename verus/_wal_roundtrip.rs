// ---- shared: spec-level round trip of record bodies (proved in every unit that includes this file)
// ------------------------------------------------------------------ spec-level round trip of record bodies
pub proof fn lemma_segs_roundtrip(p: Seq<u8>, pre: Seq<u8>, s: Seq<(u64, u64)>, post: Seq<u8>, k: nat)
    requires p == pre + segs_enc(s) + post, pre.len() == 12, k <= s.len(),
    ensures segs_dec(p, 12, k) == s.take(k as int), segs_enc(s.take(k as int)).len() == 16 * k,
    decreases k
{
    if k == 0 {
        assert(s.take(0) =~= Seq::<(u64, u64)>::empty());
    } else {
        let j = (k - 1) as int;
        lemma_segs_roundtrip(p, pre, s, post, j as nat);
        lemma_segs_split(s, k as int);
        lemma_le64_roundtrip(s[j].0);
        lemma_le64_roundtrip(s[j].1);
        lemma_segs_len(s);
        lemma_segs_prefix(s, k as int);
        let e = segs_enc(s);
        lemma_segs_len(s.take(j));
        lemma_segs_len(s.take(k as int));
        let ek = segs_enc(s.take(k as int));
        assert(ek == e.subrange(0, 16 * (k as int)));
        assert(ek =~= segs_enc(s.take(j)) + le64(s[j].0) + le64(s[j].1));
        assert(ek.subrange(16 * j, 16 * j + 8) =~= le64(s[j].0));
        assert(ek.subrange(16 * j + 8, 16 * j + 16) =~= le64(s[j].1));
        assert(e.subrange(16 * j, 16 * j + 8) =~= ek.subrange(16 * j, 16 * j + 8));
        assert(e.subrange(16 * j + 8, 16 * j + 16) =~= ek.subrange(16 * j + 8, 16 * j + 16));
        assert(p.subrange(12 + 16 * j, 12 + 16 * j + 8) =~= le64(s[j].0)) by {
            assert(e.subrange(16 * j, 16 * j + 8) =~= le64(s[j].0));
        }
        assert(p.subrange(12 + 16 * j + 8, 12 + 16 * j + 16) =~= le64(s[j].1)) by {
            assert(e.subrange(16 * j + 8, 16 * j + 16) =~= le64(s[j].1));
        }
        assert(s.take(k as int) =~= s.take(j).push(s[j]));
    }
}
pub proof fn lemma_segs_split(s: Seq<(u64, u64)>, k: int)
    requires 1 <= k <= s.len(),
    ensures segs_enc(s.take(k)) == segs_enc(s.take(k - 1)) + le64(s[k - 1].0) + le64(s[k - 1].1),
{
    assert(s.take(k).drop_last() =~= s.take(k - 1));
    assert(s.take(k).last() == s[k - 1]);
}
pub proof fn lemma_segs_len(s: Seq<(u64, u64)>)
    ensures segs_enc(s).len() == 16 * s.len(),
    decreases s.len()
{
    if s.len() > 0 {
        lemma_segs_len(s.drop_last());
        lemma_le64_roundtrip(s.last().0);
        lemma_le64_roundtrip(s.last().1);
    }
}
/// the encoding of the first k segments is the first 16k bytes of the whole encoding
pub proof fn lemma_segs_prefix(s: Seq<(u64, u64)>, k: int)
    requires 0 <= k <= s.len(),
    ensures segs_enc(s.take(k)) == segs_enc(s).subrange(0, 16 * k), segs_enc(s).len() == 16 * s.len(),
    decreases s.len() - k
{
    lemma_segs_len(s);
    if k == s.len() {
        assert(s.take(k) =~= s);
        assert(segs_enc(s).subrange(0, 16 * k) =~= segs_enc(s));
    } else {
        lemma_segs_prefix(s, k + 1);
        lemma_segs_split(s, k + 1);
        lemma_segs_len(s.take(k));
        lemma_le64_roundtrip(s[k].0);
        lemma_le64_roundtrip(s[k].1);
        assert(segs_enc(s.take(k)) =~= segs_enc(s.take(k + 1)).subrange(0, 16 * k));
        assert(segs_enc(s).subrange(0, 16 * (k + 1)).subrange(0, 16 * k) =~= segs_enc(s).subrange(0, 16 * k));
    }
}

pub proof fn lemma_rt_begintx(r: SR)
    requires rec_ok(r), r is BeginTx,
    ensures rec_dec(rec_enc(r)) == Some(r),
{
    let b = rec_enc(r);
    let p = b.skip(1);
    assert(b[0] == rec_tag(r));
    lemma_le32_roundtrip(0); lemma_le64_roundtrip(0);
    match r {
        SR::BeginTx { txid } => { lemma_le64_roundtrip(txid); assert(p =~= le64(txid)); }
        _ => {}
    }
}

pub proof fn lemma_rt_committx(r: SR)
    requires rec_ok(r), r is CommitTx,
    ensures rec_dec(rec_enc(r)) == Some(r),
{
    let b = rec_enc(r);
    let p = b.skip(1);
    assert(b[0] == rec_tag(r));
    lemma_le32_roundtrip(0); lemma_le64_roundtrip(0);
    match r {
        SR::CommitTx { txid } => { lemma_le64_roundtrip(txid); assert(p =~= le64(txid)); }
        _ => {}
    }
}

pub proof fn lemma_rt_pagefree(r: SR)
    requires rec_ok(r), r is PageFree,
    ensures rec_dec(rec_enc(r)) == Some(r),
{
    let b = rec_enc(r);
    let p = b.skip(1);
    assert(b[0] == rec_tag(r));
    lemma_le32_roundtrip(0); lemma_le64_roundtrip(0);
    match r {
        SR::PageFree { page_id } => { lemma_le64_roundtrip(page_id); assert(p =~= le64(page_id)); }
        _ => {}
    }
}

pub proof fn lemma_rt_pagewrite(r: SR)
    requires rec_ok(r), r is PageWrite,
    ensures rec_dec(rec_enc(r)) == Some(r),
{
    let b = rec_enc(r);
    let p = b.skip(1);
    assert(b[0] == rec_tag(r));
    lemma_le32_roundtrip(0); lemma_le64_roundtrip(0);
    match r {
        SR::PageWrite { page_id, page } => {
            lemma_le64_roundtrip(page_id);
            assert(p =~= le64(page_id) + page);
            assert(p.subrange(0, 8) =~= le64(page_id));
            assert(p.skip(8) =~= page);
        }
        _ => {}
    }
}

pub proof fn lemma_rt_createlabel(r: SR)
    requires rec_ok(r), r is CreateLabel,
    ensures rec_dec(rec_enc(r)) == Some(r),
{
    let b = rec_enc(r);
    let p = b.skip(1);
    assert(b[0] == rec_tag(r));
    lemma_le32_roundtrip(0); lemma_le64_roundtrip(0);
    match r {
        SR::CreateLabel { name, label_id } => {
            lemma_le32_roundtrip(label_id); lemma_le32_roundtrip(name.len() as u32);
            assert(p =~= le32(label_id) + le32(name.len() as u32) + name);
            assert(p.subrange(0, 4) =~= le32(label_id));
            assert(p.subrange(4, 8) =~= le32(name.len() as u32));
            assert(p.subrange(8, 8 + name.len() as int) =~= name);
        }
        _ => {}
    }
}

pub proof fn lemma_rt_createnode(r: SR)
    requires rec_ok(r), r is CreateNode,
    ensures rec_dec(rec_enc(r)) == Some(r),
{
    let b = rec_enc(r);
    let p = b.skip(1);
    assert(b[0] == rec_tag(r));
    lemma_le32_roundtrip(0); lemma_le64_roundtrip(0);
    match r {
        SR::CreateNode { external_id, label_id, internal_id } => {
            lemma_le64_roundtrip(external_id); lemma_le32_roundtrip(label_id); lemma_le32_roundtrip(internal_id);
            assert(p =~= le64(external_id) + le32(label_id) + le32(internal_id));
            assert(b[0] == 5u8 && p.len() == 16);
            assert(p.subrange(0, 8) =~= le64(external_id));
            assert(p.subrange(8, 12) =~= le32(label_id));
            assert(p.subrange(12, 16) =~= le32(internal_id));
        }
        _ => {}
    }
}

pub proof fn lemma_rt_addnodelabel(r: SR)
    requires rec_ok(r), r is AddNodeLabel,
    ensures rec_dec(rec_enc(r)) == Some(r),
{
    let b = rec_enc(r);
    let p = b.skip(1);
    assert(b[0] == rec_tag(r));
    lemma_le32_roundtrip(0); lemma_le64_roundtrip(0);
    match r {
        SR::AddNodeLabel { node, label_id } => {
            lemma_le32_roundtrip(node); lemma_le32_roundtrip(label_id);
            assert(p =~= le32(node) + le32(label_id));
            assert(p.subrange(0, 4) =~= le32(node));
            assert(p.subrange(4, 8) =~= le32(label_id));
        }
        _ => {}
    }
}

pub proof fn lemma_rt_removenodelabel(r: SR)
    requires rec_ok(r), r is RemoveNodeLabel,
    ensures rec_dec(rec_enc(r)) == Some(r),
{
    let b = rec_enc(r);
    let p = b.skip(1);
    assert(b[0] == rec_tag(r));
    lemma_le32_roundtrip(0); lemma_le64_roundtrip(0);
    match r {
        SR::RemoveNodeLabel { node, label_id } => {
            lemma_le32_roundtrip(node); lemma_le32_roundtrip(label_id);
            assert(p =~= le32(node) + le32(label_id));
            assert(p.subrange(0, 4) =~= le32(node));
            assert(p.subrange(4, 8) =~= le32(label_id));
        }
        _ => {}
    }
}

pub proof fn lemma_rt_createedge(r: SR)
    requires rec_ok(r), r is CreateEdge,
    ensures rec_dec(rec_enc(r)) == Some(r),
{
    let b = rec_enc(r);
    let p = b.skip(1);
    assert(b[0] == rec_tag(r));
    lemma_le32_roundtrip(0); lemma_le64_roundtrip(0);
    match r {
        SR::CreateEdge { src, rel, dst } => {
            lemma_le32_roundtrip(src); lemma_le32_roundtrip(rel); lemma_le32_roundtrip(dst);
            assert(p =~= le32(src) + le32(rel) + le32(dst));
            assert(p.subrange(0, 4) =~= le32(src));
            assert(p.subrange(4, 8) =~= le32(rel));
            assert(p.subrange(8, 12) =~= le32(dst));
        }
        _ => {}
    }
}

pub proof fn lemma_rt_tombstoneedge(r: SR)
    requires rec_ok(r), r is TombstoneEdge,
    ensures rec_dec(rec_enc(r)) == Some(r),
{
    let b = rec_enc(r);
    let p = b.skip(1);
    assert(b[0] == rec_tag(r));
    lemma_le32_roundtrip(0); lemma_le64_roundtrip(0);
    match r {
        SR::TombstoneEdge { src, rel, dst } => {
            lemma_le32_roundtrip(src); lemma_le32_roundtrip(rel); lemma_le32_roundtrip(dst);
            assert(p =~= le32(src) + le32(rel) + le32(dst));
            assert(p.subrange(0, 4) =~= le32(src));
            assert(p.subrange(4, 8) =~= le32(rel));
            assert(p.subrange(8, 12) =~= le32(dst));
        }
        _ => {}
    }
}

pub proof fn lemma_rt_tombstonenode(r: SR)
    requires rec_ok(r), r is TombstoneNode,
    ensures rec_dec(rec_enc(r)) == Some(r),
{
    let b = rec_enc(r);
    let p = b.skip(1);
    assert(b[0] == rec_tag(r));
    lemma_le32_roundtrip(0); lemma_le64_roundtrip(0);
    match r {
        SR::TombstoneNode { node } => {
            lemma_le32_roundtrip(node);
            assert(p =~= le32(node));
            assert(p.subrange(0, 4) =~= le32(node));
        }
        _ => {}
    }
}

pub proof fn lemma_rt_checkpoint(r: SR)
    requires rec_ok(r), r is Checkpoint,
    ensures rec_dec(rec_enc(r)) == Some(r),
{
    let b = rec_enc(r);
    let p = b.skip(1);
    assert(b[0] == rec_tag(r));
    lemma_le32_roundtrip(0); lemma_le64_roundtrip(0);
    match r {
        SR::Checkpoint { up_to_txid, epoch, properties_root, stats_root } => {
            lemma_le64_roundtrip(up_to_txid); lemma_le64_roundtrip(epoch); lemma_le64_roundtrip(properties_root); lemma_le64_roundtrip(stats_root);
            assert(p =~= le64(up_to_txid) + le64(epoch) + le64(properties_root) + le64(stats_root));
            assert(p.subrange(0, 8) =~= le64(up_to_txid));
            assert(p.subrange(8, 16) =~= le64(epoch));
            assert(p.subrange(16, 24) =~= le64(properties_root));
            assert(p.subrange(24, 32) =~= le64(stats_root));
        }
        _ => {}
    }
}

pub proof fn lemma_rt_manifestswitch(r: SR)
    requires rec_ok(r), r is ManifestSwitch,
    ensures rec_dec(rec_enc(r)) == Some(r),
{
    let b = rec_enc(r);
    let p = b.skip(1);
    assert(b[0] == rec_tag(r));
    lemma_le32_roundtrip(0); lemma_le64_roundtrip(0);
    match r {
        SR::ManifestSwitch { epoch, segments, properties_root, stats_root } => {
            lemma_le64_roundtrip(epoch); lemma_le32_roundtrip(segments.len() as u32);
            lemma_le64_roundtrip(properties_root); lemma_le64_roundtrip(stats_root);
            lemma_segs_len(segments);
            let pre = le64(epoch) + le32(segments.len() as u32);
            let post = le64(properties_root) + le64(stats_root);
            assert(p =~= pre + segs_enc(segments) + post);
            assert(p.subrange(0, 8) =~= le64(epoch));
            assert(p.subrange(8, 12) =~= le32(segments.len() as u32));
            let end = 12 + 16 * segments.len() as int;
            assert(p.subrange(end, end + 8) =~= le64(properties_root));
            assert(p.subrange(end + 8, end + 16) =~= le64(stats_root));
            lemma_segs_roundtrip(p, pre, segments, post, segments.len());
            assert(segments.take(segments.len() as int) =~= segments);
        }
        _ => {}
    }
}

pub proof fn lemma_rt_setnodeproperty(r: SR)
    requires rec_ok(r), r is SetNodeProperty,
    ensures rec_dec(rec_enc(r)) == Some(r),
{
    let b = rec_enc(r);
    let p = b.skip(1);
    assert(b[0] == rec_tag(r));
    lemma_le32_roundtrip(0); lemma_le64_roundtrip(0);
    match r {
        SR::SetNodeProperty { node, key, value } => {
            lemma_le32_roundtrip(node); lemma_le32_roundtrip(key.len() as u32);
            assert(p =~= le32(node) + le32(key.len() as u32) + key + sv_enc(value));
            assert(p.subrange(0, 4) =~= le32(node));
            assert(p.subrange(4, 8) =~= le32(key.len() as u32));
            assert(p.subrange(8, 8 + key.len() as int) =~= key);
            assert(p.skip(8 + key.len() as int) =~= sv_enc(value) + Seq::<u8>::empty());
            lemma_roundtrip(value, Seq::<u8>::empty());
        }
        _ => {}
    }
}

pub proof fn lemma_rt_setedgeproperty(r: SR)
    requires rec_ok(r), r is SetEdgeProperty,
    ensures rec_dec(rec_enc(r)) == Some(r),
{
    let b = rec_enc(r);
    let p = b.skip(1);
    assert(b[0] == rec_tag(r));
    lemma_le32_roundtrip(0); lemma_le64_roundtrip(0);
    match r {
        SR::SetEdgeProperty { src, rel, dst, key, value } => {
            lemma_le32_roundtrip(src); lemma_le32_roundtrip(rel); lemma_le32_roundtrip(dst); lemma_le32_roundtrip(key.len() as u32);
            assert(p =~= le32(src) + le32(rel) + le32(dst) + le32(key.len() as u32) + key + sv_enc(value));
            assert(p.subrange(0, 4) =~= le32(src));
            assert(p.subrange(4, 8) =~= le32(rel));
            assert(p.subrange(8, 12) =~= le32(dst));
            assert(p.subrange(12, 16) =~= le32(key.len() as u32));
            assert(p.subrange(16, 16 + key.len() as int) =~= key);
            assert(p.skip(16 + key.len() as int) =~= sv_enc(value) + Seq::<u8>::empty());
            lemma_roundtrip(value, Seq::<u8>::empty());
        }
        _ => {}
    }
}

pub proof fn lemma_rt_removenodeproperty(r: SR)
    requires rec_ok(r), r is RemoveNodeProperty,
    ensures rec_dec(rec_enc(r)) == Some(r),
{
    let b = rec_enc(r);
    let p = b.skip(1);
    assert(b[0] == rec_tag(r));
    lemma_le32_roundtrip(0); lemma_le64_roundtrip(0);
    match r {
        SR::RemoveNodeProperty { node, key } => {
            lemma_le32_roundtrip(node); lemma_le32_roundtrip(key.len() as u32);
            assert(p =~= le32(node) + le32(key.len() as u32) + key);
            assert(p.subrange(0, 4) =~= le32(node));
            assert(p.subrange(4, 8) =~= le32(key.len() as u32));
            assert(p.subrange(8, 8 + key.len() as int) =~= key);
        }
        _ => {}
    }
}

pub proof fn lemma_rt_removeedgeproperty(r: SR)
    requires rec_ok(r), r is RemoveEdgeProperty,
    ensures rec_dec(rec_enc(r)) == Some(r),
{
    let b = rec_enc(r);
    let p = b.skip(1);
    assert(b[0] == rec_tag(r));
    lemma_le32_roundtrip(0); lemma_le64_roundtrip(0);
    match r {
        SR::RemoveEdgeProperty { src, rel, dst, key } => {
            lemma_le32_roundtrip(src); lemma_le32_roundtrip(rel); lemma_le32_roundtrip(dst); lemma_le32_roundtrip(key.len() as u32);
            assert(p =~= le32(src) + le32(rel) + le32(dst) + le32(key.len() as u32) + key);
            assert(p.subrange(0, 4) =~= le32(src));
            assert(p.subrange(4, 8) =~= le32(rel));
            assert(p.subrange(8, 12) =~= le32(dst));
            assert(p.subrange(12, 16) =~= le32(key.len() as u32));
            assert(p.subrange(16, 16 + key.len() as int) =~= key);
        }
        _ => {}
    }
}

/// C25.wal.roundtrip (spec level): the reference record decoder inverts the record format.
pub proof fn lemma_rec_roundtrip(r: SR)
    requires rec_ok(r),
    ensures rec_dec(rec_enc(r)) == Some(r),
{
    match r {
        SR::BeginTx { .. } => { lemma_rt_begintx(r); }
        SR::CommitTx { .. } => { lemma_rt_committx(r); }
        SR::PageFree { .. } => { lemma_rt_pagefree(r); }
        SR::PageWrite { .. } => { lemma_rt_pagewrite(r); }
        SR::CreateLabel { .. } => { lemma_rt_createlabel(r); }
        SR::CreateNode { .. } => { lemma_rt_createnode(r); }
        SR::AddNodeLabel { .. } => { lemma_rt_addnodelabel(r); }
        SR::RemoveNodeLabel { .. } => { lemma_rt_removenodelabel(r); }
        SR::CreateEdge { .. } => { lemma_rt_createedge(r); }
        SR::TombstoneEdge { .. } => { lemma_rt_tombstoneedge(r); }
        SR::TombstoneNode { .. } => { lemma_rt_tombstonenode(r); }
        SR::Checkpoint { .. } => { lemma_rt_checkpoint(r); }
        SR::ManifestSwitch { .. } => { lemma_rt_manifestswitch(r); }
        SR::SetNodeProperty { .. } => { lemma_rt_setnodeproperty(r); }
        SR::SetEdgeProperty { .. } => { lemma_rt_setedgeproperty(r); }
        SR::RemoveNodeProperty { .. } => { lemma_rt_removenodeproperty(r); }
        SR::RemoveEdgeProperty { .. } => { lemma_rt_removeedgeproperty(r); }
    }
}

