// Verus unit c28_roots — C28 (and the recovery side of C17): which manifest and roots are chosen from the
// committed log.  vacuum::scan_wal_roots (what vacuum keeps) and engine::scan_recovery_state (what open
// loads) are both proved equal to one spec fold over the committed operations, hence to each other.
//@unit c28_roots
//@rlimit 50
//@property C28
use vstd::prelude::*;
use std::collections::BTreeMap;
verus! {
//@include _prelude.rs

//@item nervusdb-api/src/lib.rs enum PropertyValue
//@item nervusdb-storage/src/lib.rs const PAGE_SIZE
//@item nervusdb-storage/src/wal.rs struct SegmentPointer keep-derive
//@item nervusdb-storage/src/wal.rs enum WalRecord
//@item nervusdb-storage/src/wal.rs struct CommittedTx
//@item nervusdb-storage/src/vacuum.rs struct WalRoots
//@item nervusdb-storage/src/engine.rs struct RecoveryState

/// the part of the replay state both scans compute: (manifest epoch, segments, properties root, stats root)
pub struct Roots { pub epoch: u64, pub segments: Seq<SegmentPointer>, pub properties_root: u64, pub stats_root: u64 }

pub open spec fn roots_step(st: Roots, op: WalRecord) -> Roots {
    match op {
        WalRecord::ManifestSwitch { epoch, segments, properties_root, stats_root } =>
            if epoch >= st.epoch { Roots { epoch, segments: segments@, properties_root, stats_root } } else { st },
        WalRecord::Checkpoint { up_to_txid, epoch, properties_root, stats_root } =>
            if epoch == st.epoch { Roots { epoch: st.epoch, segments: st.segments, properties_root, stats_root } } else { st },
        _ => st,
    }
}
pub open spec fn roots_ops(st: Roots, ops: Seq<WalRecord>) -> Roots
    decreases ops.len()
{ if ops.len() == 0 { st } else { roots_step(roots_ops(st, ops.drop_last()), ops.last()) } }
pub open spec fn roots_txs(st: Roots, txs: Seq<CommittedTx>) -> Roots
    decreases txs.len()
{ if txs.len() == 0 { st } else { roots_ops(roots_txs(st, txs.drop_last()), txs.last().ops@) } }
pub open spec fn roots0() -> Roots { Roots { epoch: 0, segments: Seq::empty(), properties_root: 0, stats_root: 0 } }

//@trusted v_wal_roots_default: WalRoots::default() is all zeros / empty (derived Default)
#[verifier::external_body]
pub fn v_wal_roots_default() -> (r: WalRoots)
    ensures r.manifest_epoch == 0 && r.segments@ == Seq::<SegmentPointer>::empty() && r.properties_root == 0 && r.stats_root == 0
{ unimplemented!() }
//@trusted v_recovery_state_default: RecoveryState::default() is all zeros / empty (derived Default)
#[verifier::external_body]
pub fn v_recovery_state_default() -> (r: RecoveryState)
    ensures r.manifest_epoch == 0 && r.manifest_segments@ == Seq::<SegmentPointer>::empty() && r.properties_root == 0 && r.stats_root == 0
        && r.checkpoint_txid == 0 && r.max_txid == 0
{ unimplemented!() }
//@trusted v_segments_clone: Vec<SegmentPointer>::clone yields an equal vector (derived Clone on a plain-data struct)
#[verifier::external_body]
pub fn v_segments_clone(v: &Vec<SegmentPointer>) -> (r: Vec<SegmentPointer>)
    ensures r@ == v@
{ v.clone() }
pub fn v_u64_max(a: u64, b: u64) -> (r: u64) ensures r == (if a >= b { a } else { b }) { if a >= b { a } else { b } }

pub open spec fn wr_view(s: WalRoots) -> Roots { Roots { epoch: s.manifest_epoch, segments: s.segments@, properties_root: s.properties_root, stats_root: s.stats_root } }
pub open spec fn rs_view(s: RecoveryState) -> Roots { Roots { epoch: s.manifest_epoch, segments: s.manifest_segments@, properties_root: s.properties_root, stats_root: s.stats_root } }

// C28.roots.scan_wal_roots.spec
//@extract nervusdb-storage/src/vacuum.rs scan_wal_roots ret r
//@| ensures wr_view(r) == roots_txs(roots0(), committed@),
//@prewrite "WalRoots::default()" => "v_wal_roots_default()"
//@prewrite "segments.clone()" => "v_segments_clone(segments)"
//@loop "for tx in committed" iter it1
//@| invariant wr_view(state) == roots_txs(roots0(), committed@.take(it1.index@ as int)),
//@loop "for op in &tx.ops" iter it2
//@| invariant wr_view(state) == roots_ops(roots_txs(roots0(), committed@.take(it1.index@ as int)), tx.ops@.take(it2.index@ as int)),
//@|     0 <= it1.index@ < committed@.len(), *tx == committed@[it1.index@ as int],
//@proof before 1 "=match op {"
//@| let k = it2.index@ as int;
//@| assert(tx.ops@.take(k + 1).drop_last() =~= tx.ops@.take(k));
//@| assert(tx.ops@.take(k + 1).last() == *op);
//@proof before 1 "=for op in &tx.ops {"
//@| assert(tx.ops@.take(0) =~= Seq::<WalRecord>::empty());
//@proof after 1 "=for op in &tx.ops {" raw
//@| proof {
//@|     let k = it1.index@ as int;
//@|     assert(tx.ops@.take(tx.ops@.len() as int) =~= tx.ops@);
//@|     assert(committed@.take(k + 1).drop_last() =~= committed@.take(k));
//@|     assert(committed@.take(k + 1).last() == *tx);
//@| }
//@proof before 1 "=state"
//@| assert(committed@.take(committed@.len() as int) =~= committed@);
//@end

// C28.roots.scan_recovery_state.spec — what GraphEngine::open loads (same fold); max_txid bounds every replayed txid
//@extract nervusdb-storage/src/engine.rs scan_recovery_state ret r
//@| ensures rs_view(r) == roots_txs(roots0(), committed@),
//@|     forall|i: int| 0 <= i < committed@.len() ==> #[trigger] committed@[i].txid <= r.max_txid,
//@prewrite "RecoveryState::default()" => "v_recovery_state_default()"
//@prewrite "segments.clone()" => "v_segments_clone(segments)"
//@prewrite "state.max_txid.max(tx.txid)" => "v_u64_max(state.max_txid, tx.txid)"
//@prewrite "state.checkpoint_txid.max(*up_to_txid)" => "v_u64_max(state.checkpoint_txid, *up_to_txid)"
//@loop "for tx in committed" iter it1
//@| invariant rs_view(state) == roots_txs(roots0(), committed@.take(it1.index@ as int)),
//@|     forall|i: int| 0 <= i < it1.index@ ==> #[trigger] committed@[i].txid <= state.max_txid,
//@loop "for op in &tx.ops" iter it2
//@| invariant rs_view(state) == roots_ops(roots_txs(roots0(), committed@.take(it1.index@ as int)), tx.ops@.take(it2.index@ as int)),
//@|     0 <= it1.index@ < committed@.len(), *tx == committed@[it1.index@ as int],
//@|     forall|i: int| 0 <= i <= it1.index@ ==> #[trigger] committed@[i].txid <= state.max_txid,
//@proof before 1 "=match op {"
//@| let k = it2.index@ as int;
//@| assert(tx.ops@.take(k + 1).drop_last() =~= tx.ops@.take(k));
//@| assert(tx.ops@.take(k + 1).last() == *op);
//@proof before 1 "=for op in &tx.ops {"
//@| assert(tx.ops@.take(0) =~= Seq::<WalRecord>::empty());
//@proof after 1 "=for op in &tx.ops {" raw
//@| proof {
//@|     let k = it1.index@ as int;
//@|     assert(tx.ops@.take(tx.ops@.len() as int) =~= tx.ops@);
//@|     assert(committed@.take(k + 1).drop_last() =~= committed@.take(k));
//@|     assert(committed@.take(k + 1).last() == *tx);
//@| }
//@proof before 1 "=state"
//@| assert(committed@.take(committed@.len() as int) =~= committed@);
//@end

/// C28.roots.scan_agrees — vacuum keeps the pages of exactly the manifest and roots that open loads.
pub proof fn lemma_scans_agree(committed: Seq<CommittedTx>, w: WalRoots, r: RecoveryState)
    requires wr_view(w) == roots_txs(roots0(), committed), rs_view(r) == roots_txs(roots0(), committed),
    ensures w.manifest_epoch == r.manifest_epoch, w.segments@ == r.manifest_segments@, w.properties_root == r.properties_root, w.stats_root == r.stats_root,
{}

//@canary|pub proof fn canary_roots(txs: Seq<CommittedTx>) requires txs.len() == 2, roots_txs(roots0(), txs).epoch == 5, roots_txs(roots0(), txs).stats_root == 9 ensures false {}

} // verus!
fn main() {}
