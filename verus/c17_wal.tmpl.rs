// Verus unit c17_wal — C17: any log tail is tolerated on open.  WalReader::{try_read_u32,next_record},
// Wal::{replay_committed_from_path, append, open}.  Bodies extracted from nervusdb-storage/src/wal.rs.
//@unit c17_wal
//@property C17
use vstd::prelude::*;
use std::collections::BTreeMap;
use std::fs::File;
verus! {
//@include _prelude.rs
//@include _file_model.rs

//@item nervusdb-api/src/lib.rs enum PropertyValue
//@item nervusdb-storage/src/lib.rs const PAGE_SIZE
//@item nervusdb-storage/src/error.rs enum Error
//@rewrite "    Serialization(serde_json::Error)," => ""
//@item nervusdb-storage/src/error.rs type Result
//@item nervusdb-storage/src/wal.rs struct SegmentPointer
//@item nervusdb-storage/src/wal.rs enum WalRecord
//@item nervusdb-storage/src/wal.rs struct WalReader

//@include _value_spec.rs
//@include _wal_spec.rs
//@include _wal_log_spec.rs

//@trusted crc32: crc32fast::Hasher over a byte slice is a function of the bytes (uninterpreted crc32_spec)
#[verifier::external_body]
pub fn crc32(bytes: &[u8]) -> (r: u32)
    ensures r == crc32_spec(bytes@)
{ unimplemented!() }

impl WalRecord {
    //@trusted decode_body: WalRecord::decode_body is a deterministic function of its argument (body_ok/body_val); its agreement with the record format is proved in unit c25_wal
    #[verifier::external_body]
    pub fn decode_body(body: &[u8]) -> (r: Result<WalRecord>)
        ensures r is Ok <==> body_ok(body@), r is Ok ==> abs_rec(r->Ok_0) == body_val(body@),
    { unimplemented!() }
}

impl WalReader {

pub open spec fn wf(&self) -> bool {
    self.offset == file_pos(&self.file) && self.offset <= file_bytes(&self.file).len()
}

//@extract nervusdb-storage/src/wal.rs WalReader::try_read_u32 ret r
//@| ensures
//@|   file_bytes(&final(self).file) == file_bytes(&old(self).file),
//@|   final(self).offset == old(self).offset,
//@|   r is Ok && r->Ok_0 is Some ==> file_pos(&old(self).file) + 4 <= file_bytes(&old(self).file).len()
//@|       && r->Ok_0->Some_0 == from_le32(file_bytes(&old(self).file).subrange(file_pos(&old(self).file) as int, file_pos(&old(self).file) as int + 4))
//@|       && file_pos(&final(self).file) == file_pos(&old(self).file) + 4,
//@|   r is Ok && r->Ok_0 is None ==> file_pos(&old(self).file) + 4 > file_bytes(&old(self).file).len(),
//@|   r is Err ==> r->Err_0 is Io,
//@rewrite "self.file.read_exact(&mut buf)" => "vfile_read_exact(&mut self.file, &mut buf)"
//@end

//@extract nervusdb-storage/src/wal.rs WalReader::next_record ret r
//@| requires old(self).wf(),
//@| ensures
//@|   file_bytes(&final(self).file) == file_bytes(&old(self).file),
//@|   // C17.wal.next_record.spec: a complete frame is returned and consumed
//@|   frame_at(file_bytes(&old(self).file), old(self).offset as int) is Some ==> (
//@|       (r is Err && r->Err_0 is Io) || (
//@|       r is Ok && r->Ok_0 is Some && r->Ok_0->Some_0.0 == old(self).offset
//@|       && abs_rec(r->Ok_0->Some_0.1) == body_val(frame_body(file_bytes(&old(self).file), old(self).offset as int))
//@|       && final(self).offset == old(self).offset + frame_at(file_bytes(&old(self).file), old(self).offset as int)->Some_0
//@|       && final(self).wf())),
//@|   // C17.wal.next_record.never_err_on_tail: anything that is not a complete frame ends the log; only I/O failures are errors
//@|   frame_at(file_bytes(&old(self).file), old(self).offset as int) is None ==> (
//@|       (r is Ok && r->Ok_0 is None) || (r is Err && r->Err_0 is Io)),
//@rewrite "self.file.read_exact(&mut body)" => "vfile_read_exact(&mut self.file, &mut body)"
//@end

} // impl WalReader

} // verus!
fn main() {}
