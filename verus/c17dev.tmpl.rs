// Verus unit c17_wal — C17: any log tail is tolerated on open.  WalReader::{try_read_u32,next_record},
// Wal::{append, replay_committed_from_path}.  Bodies extracted from nervusdb-storage/src/wal.rs.
//@unit c17dev
//@rlimit 50
//@property C17
use vstd::prelude::*;
use std::collections::BTreeMap;
use std::fs::File;
use std::path::{Path, PathBuf};
use std::io::SeekFrom;
verus! {
//@include _prelude.rs
//@include _file_model.rs

//@item nervusdb-api/src/lib.rs enum PropertyValue
//@item nervusdb-storage/src/lib.rs const PAGE_SIZE
//@item nervusdb-storage/src/error.rs enum Error
//@rewrite "    Serialization(serde_json::Error)," => ""
//@item nervusdb-storage/src/error.rs type Result
//@item nervusdb-storage/src/wal.rs struct SegmentPointer
//@item nervusdb-storage/src/wal.rs enum WalRecord
//@item nervusdb-storage/src/wal.rs struct WalReader
//@item nervusdb-storage/src/wal.rs struct Wal
//@item nervusdb-storage/src/wal.rs struct CommittedTx
//@item nervusdb-storage/src/wal.rs const MAX_WAL_RECORD_LEN

//@include _file_ops.rs
//@include _value_spec.rs
//@include _wal_spec.rs
//@include _wal_log_spec.rs
//@include _wal_roundtrip.rs


//@trusted crc32: crc32fast::Hasher over a byte slice is a function of the bytes (uninterpreted crc32_spec)
#[verifier::external_body]
pub fn crc32(bytes: &[u8]) -> (r: u32)
    ensures r == crc32_spec(bytes@)
{ unimplemented!() }

//@trusted axiom_body_ok_from_spec: restates the postcondition of decode_body proved in unit c25_wal (a body the reference decoder accepts is decoded to that record), through the determinism of decode_body
#[verifier::external_body]
pub proof fn axiom_body_ok_from_spec(b: Seq<u8>)
    ensures rec_dec(b) is Some ==> body_ok(b) && body_val(b) == rec_dec(b)->Some_0
{}

impl WalRecord {
    //@trusted decode_body: WalRecord::decode_body is a deterministic function of its argument (body_ok/body_val); its agreement with the record format is proved in unit c25_wal
    #[verifier::external_body]
    pub fn decode_body(body: &[u8]) -> (r: Result<WalRecord>)
        ensures r is Ok <==> body_ok(body@), r is Ok ==> abs_rec(r->Ok_0) == body_val(body@),
    { unimplemented!() }
    //@trusted encode_body: contract of WalRecord::encode_body proved in unit c25_wal from the real body
    #[verifier::external_body]
    pub fn encode_body(&self) -> (r: Result<Vec<u8>>)
        ensures rec_ok(abs_rec(*self)) ==> r is Ok && r->Ok_0@ == rec_enc(abs_rec(*self)),
    { unimplemented!() }
}

// ------------------------------------------------------------------ lemmas about the log
pub open spec fn frame_of(body: Seq<u8>) -> Seq<u8> {
    le32(body.len() as u32) + le32(crc32_spec(body)) + body
}

/// A complete frame depends only on the bytes it occupies.
pub proof fn lemma_frame_stable(b: Seq<u8>, c: Seq<u8>, p: int)
    requires frame_at(b, p) is Some, c.len() >= p + frame_at(b, p)->Some_0,
        c.take(p + frame_at(b, p)->Some_0) == b.take(p + frame_at(b, p)->Some_0),
    ensures frame_at(c, p) == frame_at(b, p), frame_body(c, p) == frame_body(b, p),
{
    let n = frame_at(b, p)->Some_0;
    let e = p + n;
    let (c1, b1) = (c.subrange(p, p + 4), b.subrange(p, p + 4));
    assert(c1 =~= b1) by {
        assert forall|i: int| 0 <= i < 4 implies #[trigger] c1[i] == b1[i] by {
            assert(c.take(e)[p + i] == b.take(e)[p + i]);
        }
    }
    let (c2, b2) = (c.subrange(p + 4, p + 8), b.subrange(p + 4, p + 8));
    assert(c2 =~= b2) by {
        assert forall|i: int| 0 <= i < 4 implies #[trigger] c2[i] == b2[i] by {
            assert(c.take(e)[p + 4 + i] == b.take(e)[p + 4 + i]);
        }
    }
    let l = hdr_len(b, p);
    let (c3, b3) = (c.subrange(p + 8, p + 8 + l), b.subrange(p + 8, p + 8 + l));
    assert(c3 =~= b3) by {
        assert forall|i: int| 0 <= i < l implies #[trigger] c3[i] == b3[i] by {
            assert(c.take(e)[p + 8 + i] == b.take(e)[p + 8 + i]);
        }
    }
}

pub proof fn lemma_valid_end_bounds(b: Seq<u8>, p: int)
    requires 0 <= p <= b.len(),
    ensures p <= valid_end(b, p) <= b.len(),
    decreases b.len() - p
{
    match frame_at(b, p) {
        Some(n) => { lemma_valid_end_bounds(b, p + n); }
        None => {}
    }
}

/// C17.wal.records.prefix — if `c` agrees with `b` up to the end of b's valid run, then c's records
/// from p are b's records from p followed by whatever c holds from there on.
pub proof fn lemma_records_prefix(b: Seq<u8>, c: Seq<u8>, p: int)
    requires 0 <= p <= b.len(), c.len() >= valid_end(b, p), c.take(valid_end(b, p)) == b.take(valid_end(b, p)),
    ensures records(c, p) == records(b, p) + records(c, valid_end(b, p)),
        valid_end(c, p) == valid_end(c, valid_end(b, p)),
    decreases b.len() - p
{
    lemma_valid_end_bounds(b, p);
    let e = valid_end(b, p);
    match frame_at(b, p) {
        Some(n) => {
            lemma_valid_end_bounds(b, p + n);
            let (ct, bt) = (c.take(p + n), b.take(p + n));
            assert(ct =~= bt) by {
                assert forall|i: int| 0 <= i < p + n implies #[trigger] ct[i] == bt[i] by {
                    assert(c.take(e)[i] == b.take(e)[i]);
                }
            }
            lemma_frame_stable(b, c, p);
            lemma_records_prefix(b, c, p + n);
            assert(records(c, p) =~= seq![body_val(frame_body(c, p))] + records(c, p + n));
            assert(records(b, p) =~= seq![body_val(frame_body(b, p))] + records(b, p + n));
            assert(records(c, p) =~= records(b, p) + records(c, e));
        }
        None => {
            assert(records(b, p) =~= Seq::<SR>::empty());
            assert(records(c, p) =~= records(b, p) + records(c, p));
        }
    }
}

/// C17.wal.tail_tolerated (and the log-level kernel of C02): cutting the log anywhere at or after the
/// end of a run of complete frames, and putting ANY bytes there that do not start a complete frame
/// (truncated record, zero fill, random garbage, flipped checksum), leaves exactly the records of that run.
pub proof fn lemma_tail_tolerated(b: Seq<u8>, tail: Seq<u8>)
    requires frame_at(b.take(valid_end(b, 0)) + tail, valid_end(b, 0)) is None,
    ensures records(b.take(valid_end(b, 0)) + tail, 0) == records(b, 0),
        valid_end(b.take(valid_end(b, 0)) + tail, 0) == valid_end(b, 0),
{
    lemma_valid_end_bounds(b, 0);
    let e = valid_end(b, 0);
    let c = b.take(e) + tail;
    assert(c.take(e) =~= b.take(e));
    lemma_records_prefix(b, c, 0);
    assert(records(c, e) =~= Seq::<SR>::empty());
    assert(records(c, 0) =~= records(b, 0));
}

/// A log that is cut inside its k-th frame (pure truncation) keeps exactly the frames before the cut:
/// the cut frame can never be complete because its declared length no longer fits.
pub proof fn lemma_truncation(b: Seq<u8>, p: int, cut: int)
    requires frame_at(b, p) is Some, p <= cut < p + frame_at(b, p)->Some_0, cut <= b.len(),
    ensures frame_at(b.take(cut), p) is None,
{
    let c = b.take(cut);
    if p + 8 <= cut {
        assert(c.subrange(p, p + 4) =~= b.subrange(p, p + 4));
    }
}

/// Appending the frame of a decodable body right at the end of the valid run adds exactly that record.
pub proof fn lemma_append_frame(b: Seq<u8>, body: Seq<u8>)
    requires body_ok(body), body.len() <= max_record_len(),
    ensures
        records(b.take(valid_end(b, 0)) + frame_of(body), 0) == records(b, 0).push(body_val(body)),
        valid_end(b.take(valid_end(b, 0)) + frame_of(body), 0) == valid_end(b, 0) + 8 + body.len(),
        (b.take(valid_end(b, 0)) + frame_of(body)).len() == valid_end(b, 0) + 8 + body.len(),
{
    lemma_valid_end_bounds(b, 0);
    let e = valid_end(b, 0);
    let f = frame_of(body);
    let c = b.take(e) + f;
    lemma_le32_roundtrip(body.len() as u32);
    lemma_le32_roundtrip(crc32_spec(body));
    assert(f.len() == 8 + body.len());
    assert(c.take(e) =~= b.take(e));
    lemma_records_prefix(b, c, 0);
    assert(c.subrange(e, e + 4) =~= le32(body.len() as u32));
    assert(c.subrange(e + 4, e + 8) =~= le32(crc32_spec(body)));
    assert(c.subrange(e + 8, e + 8 + body.len()) =~= body);
    assert(frame_at(c, e) == Some(8 + body.len() as int));
    assert(frame_at(c, e + 8 + body.len()) is None);
    assert(records(c, e + 8 + body.len()) =~= Seq::<SR>::empty());
    assert(records(c, e) =~= seq![body_val(body)] + records(c, e + 8 + body.len()));
    assert(records(c, 0) =~= records(b, 0).push(body_val(body)));
    assert(valid_end(c, e + 8 + body.len()) == e + 8 + body.len());
}

// ------------------------------------------------------------------ committed transactions (fold over records)
pub struct FoldSt { pub cur: Option<u64>, pub pending: Seq<SR>, pub out: Seq<(u64, Seq<SR>)>, pub err: bool }

pub open spec fn fold_step(st: FoldSt, r: SR) -> FoldSt {
    if st.err { st } else {
        match r {
            SR::BeginTx { txid } => FoldSt { cur: Some(txid), pending: Seq::empty(), ..st },
            SR::CommitTx { txid } => if st.cur != Some(txid) { FoldSt { err: true, ..st } }
                else { FoldSt { cur: None, pending: Seq::empty(), out: st.out.push((txid, st.pending)), err: false } },
            other => if st.cur is None { FoldSt { err: true, ..st } } else { FoldSt { pending: st.pending.push(other), ..st } },
        }
    }
}
pub open spec fn fold_records(rs: Seq<SR>) -> FoldSt
    decreases rs.len()
{
    if rs.len() == 0 { FoldSt { cur: None, pending: Seq::empty(), out: Seq::empty(), err: false } }
    else { fold_step(fold_records(rs.drop_last()), rs.last()) }
}
pub open spec fn abs_ops(ops: Seq<WalRecord>) -> Seq<SR> { Seq::new(ops.len(), |i: int| abs_rec(ops[i])) }
pub open spec fn abs_txs(txs: Seq<CommittedTx>) -> Seq<(u64, Seq<SR>)> {
    Seq::new(txs.len(), |i: int| (txs[i].txid, abs_ops(txs[i].ops@)))
}

/// The committed transactions of a longer record sequence extend those of any prefix that is
/// error-free (no transaction in part, none without its predecessors) — C02's log-level kernel.
pub proof fn lemma_fold_prefix(rs: Seq<SR>, k: int)
    requires 0 <= k <= rs.len(), !fold_records(rs).err,
    ensures !fold_records(rs.take(k)).err,
        fold_records(rs.take(k)).out.len() <= fold_records(rs).out.len(),
        fold_records(rs).out.take(fold_records(rs.take(k)).out.len() as int) == fold_records(rs.take(k)).out,
    decreases rs.len() - k
{
    if k == rs.len() {
        assert(rs.take(k) =~= rs);
        assert(fold_records(rs).out.take(fold_records(rs).out.len() as int) =~= fold_records(rs).out);
    } else {
        let r1 = rs.drop_last();
        assert(!fold_records(r1).err);
        lemma_fold_prefix(r1, k);
        assert(r1.take(k) =~= rs.take(k));
        let a = fold_records(rs.take(k)).out;
        let o1 = fold_records(r1).out;
        let o = fold_records(rs).out;
        assert(o.len() >= o1.len() && o.take(o1.len() as int) =~= o1);
        assert(o.take(a.len() as int) =~= o1.take(a.len() as int));
    }
}

/// C17.wal.commit_after_tail_durable (log level) — whatever the records before (an aborted transaction included), a
/// transaction written as BeginTx, its operations, CommitTx becomes exactly one more committed transaction, and the
/// ones before are unchanged.  With Wal::append's postcondition (each record lands right after the last complete
/// record, whatever tail the file had), the replay postcondition and lemma_tail_tolerated this is the property's last
/// clause: what is committed after a dirty open is there at every later open, whatever is appended behind it.
pub proof fn lemma_commit_durable(rs: Seq<SR>, t: u64, ops: Seq<SR>, k: int)
    requires !fold_records(rs).err, 0 <= k <= ops.len(),
        forall|i: int| 0 <= i < ops.len() ==> !(#[trigger] ops[i] is BeginTx) && !(ops[i] is CommitTx),
    ensures ({ let st = fold_records(rs.push(SR::BeginTx { txid: t }) + ops.take(k));
               !st.err && st.cur == Some(t) && st.pending == ops.take(k) && st.out == fold_records(rs).out }),
            k == ops.len() ==> ({ let fin = fold_records(rs.push(SR::BeginTx { txid: t }) + ops + seq![SR::CommitTx { txid: t }]);
               !fin.err && fin.cur is None && fin.out == fold_records(rs).out.push((t, ops)) }),
    decreases k
{
    let pre = rs.push(SR::BeginTx { txid: t });
    if k == 0 {
        assert(pre + ops.take(0) =~= pre);
        assert(pre.drop_last() =~= rs);
        assert(ops.take(0) =~= Seq::<SR>::empty());
    } else {
        lemma_commit_durable(rs, t, ops, k - 1);
        let a = pre + ops.take(k);
        assert(a.drop_last() =~= pre + ops.take(k - 1));
        assert(a.last() == ops[k - 1]);
        assert(ops.take(k - 1).push(ops[k - 1]) =~= ops.take(k));
    }
    if k == ops.len() {
        assert(ops.take(k) =~= ops);
        let f = pre + ops + seq![SR::CommitTx { txid: t }];
        assert(f.drop_last() =~= pre + ops);
        assert(f.last() == SR::CommitTx { txid: t });
    }
}

/// Once the fold has hit a protocol error it stays in error.
pub proof fn lemma_fold_err_sticky(rs: Seq<SR>, k: int)
    requires 0 <= k <= rs.len(), fold_records(rs.take(k)).err,
    ensures fold_records(rs).err,
    decreases rs.len() - k
{
    if k == rs.len() {
        assert(rs.take(k) =~= rs);
    } else {
        assert(rs.take(k + 1).drop_last() =~= rs.take(k));
        lemma_fold_err_sticky(rs, k + 1);
    }
}

impl WalReader {

pub open spec fn wf(&self) -> bool {
    self.offset == file_pos(&self.file) && self.offset <= file_bytes(&self.file).len()
}

//@extract nervusdb-storage/src/wal.rs WalReader::try_read_u32 ret r
//@| ensures
//@|   file_bytes(&final(self).file) == file_bytes(&old(self).file),
//@|   final(self).offset == old(self).offset,
//@|   r is Ok && r->Ok_0 is Some ==> file_pos(&old(self).file) + 4 <= file_bytes(&old(self).file).len()
//@|       && r->Ok_0->Some_0 == from_le32(file_bytes(&old(self).file).subrange(file_pos(&old(self).file) as int, file_pos(&old(self).file) as int + 4))
//@|       && file_pos(&final(self).file) == file_pos(&old(self).file) + 4,
//@|   r is Ok && r->Ok_0 is None ==> file_pos(&old(self).file) + 4 > file_bytes(&old(self).file).len(),
//@|   r is Err ==> r->Err_0 is Io,
//@end

//@extract nervusdb-storage/src/wal.rs WalReader::next_record ret r
//@| requires old(self).wf(),
//@| ensures
//@|   file_bytes(&final(self).file) == file_bytes(&old(self).file),
//@|   // C17.wal.next_record.spec: a complete frame is returned and consumed
//@|   frame_at(file_bytes(&old(self).file), old(self).offset as int) is Some ==> (
//@|       (r is Err && r->Err_0 is Io) || (
//@|       r is Ok && r->Ok_0 is Some && r->Ok_0->Some_0.0 == old(self).offset
//@|       && abs_rec(r->Ok_0->Some_0.1) == body_val(frame_body(file_bytes(&old(self).file), old(self).offset as int))
//@|       && final(self).offset == old(self).offset + frame_at(file_bytes(&old(self).file), old(self).offset as int)->Some_0
//@|       && final(self).wf())),
//@|   // C17.wal.next_record.never_err_on_tail: anything that is not a complete frame ends the log; only I/O failures are errors
//@|   frame_at(file_bytes(&old(self).file), old(self).offset as int) is None ==> (
//@|       (r is Ok && r->Ok_0 is None && final(self).offset == old(self).offset) || (r is Err && r->Err_0 is Io)),
//@end

} // impl WalReader

//@trusted v_walreader_open_same: WalReader::open(&wal.path) sees the same bytes as the Wal's own handle (same file, single writer: C10 is assumed); a fresh reader starts at offset 0
#[verifier::external_body]
pub fn v_walreader_open_same(path: &std::path::PathBuf, file: &Option<File>) -> (r: Result<WalReader>)
    requires file is Some,
    ensures r is Ok ==> r->Ok_0.offset == 0 && r->Ok_0.wf() && file_bytes(&r->Ok_0.file) == file_bytes(&file->Some_0),
        r is Err ==> r->Err_0 is Io,
{ unimplemented!() }

pub uninterp spec fn path_bytes(p: &std::path::Path) -> Seq<u8>;
//@trusted v_walreader_open_path: WalReader::open(path) yields a reader at offset 0 over the file's current content (uninterpreted path_bytes)
#[verifier::external_body]
pub fn v_walreader_open_path(path: &std::path::Path) -> (r: Result<WalReader>)
    ensures r is Ok ==> r->Ok_0.offset == 0 && r->Ok_0.wf() && file_bytes(&r->Ok_0.file) == path_bytes(path),
        r is Err ==> r->Err_0 is Io,
{ unimplemented!() }

impl Wal {

/// Representation invariant: a cached end-of-log is the end of the file and of its valid run.
pub open spec fn wf(&self) -> bool {
    self.file is Some ==> (self.end_of_log is Some ==> (
        self.end_of_log->Some_0 == file_bytes(&self.file->Some_0).len()
        && valid_end(file_bytes(&self.file->Some_0), 0) == file_bytes(&self.file->Some_0).len()))
}
pub open spec fn bytes(&self) -> Seq<u8> { file_bytes(&self.file->Some_0) }

//@extract nervusdb-storage/src/wal.rs Wal::append ret r
//@| requires old(self).wf(), rec_ok(abs_rec(*record)),
//@| ensures
//@|   // C17.wal.append.at_end_of_valid: whatever tail the file had, the new record lands right after the
//@|   // last complete record and is the next record a reader will see
//@|   r is Ok ==> old(self).file is Some && final(self).file is Some
//@|       && final(self).bytes() == old(self).bytes().take(valid_end(old(self).bytes(), 0)) + frame_of(rec_enc(abs_rec(*record)))
//@|       && records(final(self).bytes(), 0) == records(old(self).bytes(), 0).push(abs_rec(*record))
//@|       && r->Ok_0 == valid_end(old(self).bytes(), 0)
//@|       && final(self).wf() && final(self).end_of_log is Some,
//@|   // the records already in the log are never damaged, even by a failed append
//@|   old(self).file is Some ==> final(self).file is Some
//@|       && final(self).bytes().len() >= valid_end(old(self).bytes(), 0)
//@|       && final(self).bytes().take(valid_end(old(self).bytes(), 0)) == old(self).bytes().take(valid_end(old(self).bytes(), 0)),
//@lebytes len:u32 crc:u32
//@rewrite "WalReader::open(&self.path)?" => "v_walreader_open_same(&self.path, &self.file)?"
//@rewrite "u64::from(len)" => "(len as u64)"
//@rewrite "while reader.next_record()?.is_some() {}" => "loop invariant_except_break reader.wf(), invariant *self == *old(self), self.file is Some, valid_end(file_bytes(&self.file->Some_0), 0) <= file_bytes(&self.file->Some_0).len(), file_bytes(&reader.file) == file_bytes(&self.file->Some_0), 0 <= reader.offset <= file_bytes(&reader.file).len(), valid_end(file_bytes(&reader.file), 0) == valid_end(file_bytes(&reader.file), reader.offset as int), ensures frame_at(file_bytes(&reader.file), reader.offset as int) is None, decreases file_bytes(&reader.file).len() - reader.offset { let nr = reader.next_record()?; if !nr.is_some() { break; } }"
//@proof before 1 "if self.file.is_none() {"
//@| if old(self).file is Some { lemma_valid_end_bounds(old(self).bytes(), 0); }
//@proof before 1 "let Some(file) = self.file.as_mut() else {"
//@| lemma_valid_end_bounds(old(self).bytes(), 0);
//@| axiom_body_ok_from_spec(body@);
//@| lemma_rec_roundtrip_link(abs_rec(*record));
//@| lemma_append_frame(old(self).bytes(), body@);
//@proof before 1 "=Ok(offset)"
//@| let b0 = old(self).bytes(); let e = valid_end(b0, 0);
//@| assert(final(self).bytes() =~= b0.take(e) + frame_of(body@));
//@end

//@extract nervusdb-storage/src/wal.rs Wal::replay_committed_from_path ret r
//@| ensures
//@|   // C17.wal.replay.spec: the result is a function of the records of the valid run only
//@|   r is Ok ==> !fold_records(records(path_bytes(path), 0)).err
//@|       && abs_txs(r->Ok_0@) == fold_records(records(path_bytes(path), 0)).out,
//@|   r is Err ==> r->Err_0 is Io || fold_records(records(path_bytes(path), 0)).err,
//@rewrite "path: impl AsRef<Path>" => "path: &std::path::Path"
//@rewrite "WalReader::open(path.as_ref())?" => "v_walreader_open_path(path)?"
//@rewrite "std::mem::take(&mut pending)" => "v_vec_take(&mut pending)"
//@proof before 1 "while let Some((_offset, record)) = reader.next_record()? {" raw
//@| let ghost mut done: Seq<SR> = Seq::empty();
//@| proof { assert(records(path_bytes(path), 0) =~= done + records(path_bytes(path), 0)); }
//@loop 1
//@| invariant_except_break reader.wf(),
//@| invariant
//@|   file_bytes(&reader.file) == path_bytes(path), 0 <= reader.offset <= path_bytes(path).len(),
//@|   records(path_bytes(path), 0) == done + records(path_bytes(path), reader.offset as int),
//@|   !fold_records(done).err,
//@|   fold_records(done).cur == current_txid,
//@|   current_txid is Some ==> fold_records(done).pending == abs_ops(pending@),
//@|   fold_records(done).out == abs_txs(out@),
//@| ensures frame_at(path_bytes(path), reader.offset as int) is None,
//@| decreases path_bytes(path).len() - reader.offset,
//@proof before 1 "match record {" raw
//@| let ghost rec_abs = abs_rec(record);
//@| let ghost done0 = done;
//@| proof {
//@|     done = done.push(rec_abs);
//@|     assert(done.drop_last() =~= done0);
//@|     assert(done.last() == rec_abs);
//@|     assert(records(path_bytes(path), 0) =~= done + records(path_bytes(path), reader.offset as int));
//@|     assert(records(path_bytes(path), 0).take(done.len() as int) =~= done);
//@|     if fold_records(done).err { lemma_fold_err_sticky(records(path_bytes(path), 0), done.len() as int); }
//@| }
//@proof before 1 "=Ok(out)"
//@| assert(records(path_bytes(path), reader.offset as int) =~= Seq::<SR>::empty());
//@| assert(records(path_bytes(path), 0) =~= done);
//@end

} // impl Wal

//@trusted v_vec_take: std::mem::take on a Vec returns the old value and leaves an empty Vec
#[verifier::external_body]
pub fn v_vec_take<T>(v: &mut Vec<T>) -> (r: Vec<T>)
    ensures r == *old(v), final(v)@.len() == 0
{ std::mem::take(v) }

/// Link used by append: the encoding of an accepted record is a decodable body whose value is the record,
/// and it respects the frame limit checked by append.
pub proof fn lemma_rec_roundtrip_link(r: SR)
    requires rec_ok(r),
    ensures body_ok(rec_enc(r)) && body_val(rec_enc(r)) == r,
{
    lemma_rec_roundtrip(r);
    axiom_body_ok_from_spec(rec_enc(r));
}


// ------------------------------------------------------------------ checkpoint rewrite (Wal::rewrite_as_snapshot)
/// The byte image of a run of records written frame after frame.
pub open spec fn frames_of(rs: Seq<SR>) -> Seq<u8>
    decreases rs.len()
{ if rs.len() == 0 { Seq::<u8>::empty() } else { frames_of(rs.drop_last()) + frame_of(rec_enc(rs.last())) } }

pub open spec fn all_rec_ok(rs: Seq<SR>) -> bool { forall|i: int| 0 <= i < rs.len() ==> rec_ok(#[trigger] rs[i]) && rec_enc(rs[i]).len() <= max_record_len() }

/// C17.wal.snapshot.log_is_clean - a file written as frames_of(rs) holds exactly the records rs and has no tail.
pub proof fn lemma_frames_records(rs: Seq<SR>)
    requires all_rec_ok(rs),
    ensures records(frames_of(rs), 0) == rs, valid_end(frames_of(rs), 0) == frames_of(rs).len(),
    decreases rs.len()
{
    if rs.len() == 0 {
        assert(records(frames_of(rs), 0) =~= rs);
    } else {
        let r0 = rs.drop_last();
        lemma_frames_records(r0);
        let b = frames_of(r0);
        lemma_rec_roundtrip_link(rs.last());
        lemma_append_frame(b, rec_enc(rs.last()));
        assert(b.take(b.len() as int) =~= b);
        assert(r0.push(rs.last()) =~= rs);
    }
}

/// C17.wal.snapshot.one_committed_tx - the rewritten log replays as exactly one committed transaction carrying
/// the given operations (which are never BeginTx / CommitTx records themselves).
pub proof fn lemma_snapshot_replay(t: u64, ops: Seq<SR>)
    requires all_rec_ok(seq![SR::BeginTx { txid: t }] + ops + seq![SR::CommitTx { txid: t }]),
        forall|i: int| 0 <= i < ops.len() ==> !(#[trigger] ops[i] is BeginTx) && !(ops[i] is CommitTx),
    ensures ({ let b = frames_of(seq![SR::BeginTx { txid: t }] + ops + seq![SR::CommitTx { txid: t }]);
        let st = fold_records(records(b, 0));
        !st.err && st.cur is None && st.out == seq![(t, ops)] && valid_end(b, 0) == b.len() }),
{
    let rs = seq![SR::BeginTx { txid: t }] + ops + seq![SR::CommitTx { txid: t }];
    lemma_frames_records(rs);
    let e = Seq::<SR>::empty();
    lemma_commit_durable(e, t, ops, ops.len() as int);
    assert(e.push(SR::BeginTx { txid: t }) =~= seq![SR::BeginTx { txid: t }]);
    assert(fold_records(e).out =~= Seq::<(u64, Seq<SR>)>::empty());
    assert(fold_records(e).out.push((t, ops)) =~= seq![(t, ops)]);
}

pub proof fn lemma_frames_push(rs: Seq<SR>, r: SR)
    ensures frames_of(rs.push(r)) == frames_of(rs) + frame_of(rec_enc(r)),
        all_rec_ok(rs) && rec_ok(r) && rec_enc(r).len() <= max_record_len() ==> all_rec_ok(rs.push(r)),
{
    assert(rs.push(r).drop_last() =~= rs);
    assert(rs.push(r).last() == r);
}

//@trusted v_snapshot_tmp_path: `self.path.with_extension(format!("wal.tmp.{pid}.{txid}"))` names a scratch file next to the log (any path; nothing depends on its value)
#[verifier::external_body]
pub fn v_snapshot_tmp_path(path: &std::path::PathBuf, txid: u64) -> (r: std::path::PathBuf)
{ unimplemented!() }
//@trusted v_create_new_file: OpenOptions::new().write(true).create_new(true).truncate(false).open(path) yields a new empty file positioned at 0, or an I/O error (std)
#[verifier::external_body]
pub fn v_create_new_file(path: &std::path::PathBuf) -> (r: Result<File>)
    ensures r is Ok ==> file_bytes(&r->Ok_0).len() == 0 && file_pos(&r->Ok_0) == 0, r is Err ==> r->Err_0 is Io,
{ unimplemented!() }
//@trusted vfile_sync_data: File::sync_data changes neither content nor position
#[verifier::external_body]
pub fn vfile_sync_data(f: &mut std::fs::File) -> (r: Result<()>)
    ensures file_bytes(final(f)) == file_bytes(old(f)), file_pos(final(f)) == file_pos(old(f)), r is Err ==> r->Err_0 is Io,
{ unimplemented!() }
//@trusted v_replace_file: the rename block of rewrite_as_snapshot (rename, or remove + rename where rename does not overwrite) moves the scratch file over the log or fails with an I/O error; crash atomicity of rename is NOT modelled
#[verifier::external_body]
pub fn v_replace_file(tmp: &std::path::PathBuf, dst: &std::path::PathBuf) -> (r: Result<()>)
    ensures r is Err ==> r->Err_0 is Io,
{ unimplemented!() }
//@trusted v_reopen_replaced: after v_replace_file(tmp, path) returned Ok, OpenOptions::new().read(true).write(true).create(true).truncate(false).open(path) yields a handle at position 0 on the bytes that were written to the scratch file (POSIX rename + single writer: C10 is assumed); the ghost argument is that content
#[verifier::external_body]
pub fn v_reopen_replaced(path: &std::path::PathBuf, Ghost(content): Ghost<Seq<u8>>) -> (r: Result<File>)
    ensures r is Ok ==> file_bytes(&r->Ok_0) == content && file_pos(&r->Ok_0) == 0, r is Err ==> r->Err_0 is Io,
{ unimplemented!() }

// C17.wal.snapshot.append_to - one record, one frame, at the end of the scratch file
//@extract nervusdb-storage/src/wal.rs Wal::rewrite_as_snapshot::append_to ret r
//@| requires file_pos(old(file)) == file_bytes(old(file)).len(), rec_ok(abs_rec(*record)),
//@| ensures r is Ok ==> file_bytes(final(file)) == file_bytes(old(file)) + frame_of(rec_enc(abs_rec(*record)))
//@|         && file_pos(final(file)) == file_bytes(final(file)).len()
//@|         && rec_enc(abs_rec(*record)).len() <= max_record_len(),
//@lebytes len:u32 crc:u32
//@proof before 1 "=Ok(())"
//@| assert(file_bytes(file) =~= file_bytes(old(file)) + frame_of(body@));
//@end

impl Wal {
// C17.wal.snapshot.spec - the checkpoint rewrite leaves a log that is exactly BeginTx, the operations, CommitTx
//@extract nervusdb-storage/src/wal.rs Wal::rewrite_as_snapshot ret r
//@| requires forall|i: int| 0 <= i < ops@.len() ==> rec_ok(#[trigger] abs_rec(ops@[i])),
//@| ensures r is Ok ==> final(self).file is Some && final(self).end_of_log is None
//@|     && final(self).bytes() == frames_of(seq![SR::BeginTx { txid }] + abs_ops(ops@) + seq![SR::CommitTx { txid }])
//@|     && all_rec_ok(seq![SR::BeginTx { txid }] + abs_ops(ops@) + seq![SR::CommitTx { txid }])
//@|     && final(self).wf(),
//@preregex "(?s)\n            fn append_to\(.*?\n            \}\n" => "\n"
//@preregex "(?s)let tmp = \{\s*let pid = std::process::id\(\);\s*self\.path\.with_extension\(format!\(\"wal\.tmp\.\{pid\}\.\{txid\}\"\)\)\s*\};" => "let tmp = v_snapshot_tmp_path(&self.path, txid);"
//@preregex "(?s)OpenOptions::new\(\)\s*\.write\(true\)\s*\.create_new\(true\)\s*\.truncate\(false\)\s*\.open\(&tmp\)\?" => "v_create_new_file(&tmp)?"
//@preregex "(?s)if std::fs::rename\(&tmp, &self\.path\)\.is_err\(\) \{\s*if self\.path\.exists\(\) \{\s*std::fs::remove_file\(&self\.path\)\?;\s*\}\s*std::fs::rename\(&tmp, &self\.path\)\?;\s*\}" => "v_replace_file(&tmp, &self.path)?;"
//@preregex "(?s)OpenOptions::new\(\)\s*\.read\(true\)\s*\.write\(true\)\s*\.create\(true\)\s*\.truncate\(false\)\s*\.open\(&self\.path\)\?" => "v_reopen_replaced(&self.path, Ghost(snap))?"
//@prewrite "tmp_file.flush()?;" => "vfile_flush(&mut tmp_file)?;"
//@prewrite "tmp_file.sync_data()?;" => "vfile_sync_data(&mut tmp_file)?; proof { snap = file_bytes(&tmp_file); }"
//@proof before 1 "@start" raw
//@| let ghost mut snap: Seq<u8> = Seq::empty();
//@| let ghost all = seq![SR::BeginTx { txid }] + abs_ops(ops@) + seq![SR::CommitTx { txid }];
//@loop "for op in ops" iter it1
//@| invariant file_pos(&tmp_file) == file_bytes(&tmp_file).len(),
//@|     file_bytes(&tmp_file) == frames_of(seq![SR::BeginTx { txid }] + abs_ops(ops@).take(it1.index@ as int)),
//@|     all_rec_ok(seq![SR::BeginTx { txid }] + abs_ops(ops@).take(it1.index@ as int)),
//@|     forall|i: int| 0 <= i < ops@.len() ==> rec_ok(#[trigger] abs_rec(ops@[i])),
//@proof before 1 "=append_to(&mut tmp_file, &op)?;"
//@| assert(op == ops@[it1.index@ as int]);
//@proof before 1 "=for op in ops {"
//@| let e = Seq::<SR>::empty();
//@| lemma_frames_push(e, SR::BeginTx { txid });
//@| assert(e.push(SR::BeginTx { txid }) =~= seq![SR::BeginTx { txid }] + abs_ops(ops@).take(0));
//@| assert(file_bytes(&tmp_file) =~= frames_of(e) + frame_of(rec_enc(SR::BeginTx { txid })));
//@proof after 1 "=append_to(&mut tmp_file, &op)?;"
//@| let k = it1.index@ as int;
//@| let pre = seq![SR::BeginTx { txid }] + abs_ops(ops@).take(k);
//@| assert(abs_rec(op) == abs_ops(ops@)[k]);
//@| lemma_frames_push(pre, abs_rec(op));
//@| assert(pre.push(abs_rec(op)) =~= seq![SR::BeginTx { txid }] + abs_ops(ops@).take(k + 1));
//@proof before 1 "=tmp_file.flush()?;"
//@| let pre = seq![SR::BeginTx { txid }] + abs_ops(ops@);
//@| assert(abs_ops(ops@).take(ops@.len() as int) =~= abs_ops(ops@));
//@| lemma_frames_push(pre, SR::CommitTx { txid });
//@| assert(pre.push(SR::CommitTx { txid }) =~= all);
//@| lemma_frames_records(all);
//@end
} // impl Wal

// ---- vacuity canaries (canary run only; each MUST fail) ----
//@canary|pub proof fn canary_frame_some(b: Seq<u8>) requires frame_at(b, 0) is Some, records(b, 0).len() == 2 ensures false {}
//@canary|pub proof fn canary_tail_pre(b: Seq<u8>, t: Seq<u8>) requires frame_at(b.take(valid_end(b, 0)) + t, valid_end(b, 0)) is None, t.len() == 9, valid_end(b, 0) > 0 ensures false {}
//@canary|pub proof fn canary_wal_wf(w: Wal) requires w.wf(), w.file is Some, w.end_of_log is Some, w.end_of_log->Some_0 > 0 ensures false {}
//@canary|pub proof fn canary_fold_ok(rs: Seq<SR>) requires !fold_records(rs).err, fold_records(rs).out.len() == 2 ensures false {}

} // verus!
fn main() {}
