// ---- shared: abstract property values, the value storage format, its reference decoder and the
// ---- spec-level round-trip lemmas (proved in every unit that includes this file)
// ------------------------------------------------------------------ abstract values and the format
/// Mathematical content of a value: floats as bit patterns (so NaN payloads and signed zeros are
/// distinguished), strings as their UTF-8 bytes, lists as sequences.  Maps are opaque (not decided).
pub enum SV {
    Null, Bool(bool), Int(i64), Float(u64), Str(Seq<u8>), DateTime(i64), Blob(Seq<u8>), List(Seq<SV>), Map,
}

pub open spec fn abs(v: PropertyValue) -> SV
    decreases v
{
    match v {
        PropertyValue::Null => SV::Null,
        PropertyValue::Bool(b) => SV::Bool(b),
        PropertyValue::Int(i) => SV::Int(i),
        PropertyValue::Float(f) => SV::Float(f64_bits(f)),
        PropertyValue::String(s) => SV::Str(str_bytes(s@)),
        PropertyValue::DateTime(i) => SV::DateTime(i),
        PropertyValue::Blob(b) => SV::Blob(b@),
        PropertyValue::List(l) => SV::List(Seq::new(l@.len(), |i: int| if 0 <= i < l@.len() { abs(l@[i]) } else { SV::Null })),
        PropertyValue::Map(_) => SV::Map,
    }
}

/// Values the encoder accepts without panicking and whose round trip is decided here.
pub open spec fn sv_ok(v: SV) -> bool
    decreases v
{
    match v {
        SV::Str(s) => s.len() <= u32::MAX && is_utf8(s),
        SV::Blob(b) => b.len() <= u32::MAX,
        SV::List(l) => l.len() <= u32::MAX && forall|i: int| 0 <= i < l.len() ==> sv_ok(#[trigger] l[i]),
        SV::Map => false,
        _ => true,
    }
}

/// The storage format, written from the format description (tag byte, little-endian fixed-width
/// numbers, u32 length prefixes, list = count + concatenated items).
pub open spec fn sv_enc(v: SV) -> Seq<u8>
    decreases v
{
    match v {
        SV::Null => seq![0u8],
        SV::Bool(b) => seq![1u8, if b { 1u8 } else { 0u8 }],
        SV::Int(i) => seq![2u8] + le64(i as u64),
        SV::Float(bits) => seq![3u8] + le64(bits),
        SV::Str(s) => seq![4u8] + le32(s.len() as u32) + s,
        SV::DateTime(i) => seq![5u8] + le64(i as u64),
        SV::Blob(b) => seq![6u8] + le32(b.len() as u32) + b,
        SV::List(l) => seq![7u8] + le32(l.len() as u32) + sv_enc_list(l),
        SV::Map => seq![8u8],
    }
}
pub open spec fn sv_enc_list(l: Seq<SV>) -> Seq<u8>
    decreases l
{
    if l.len() == 0 { Seq::<u8>::empty() } else { sv_enc_list(l.drop_last()) + sv_enc(l.last()) }
}

/// Reference decoder (spec level): what a correct decoder must return on `b`.  None on malformed
/// input.  Maps are recognised and measured, their content is opaque.
pub open spec fn sv_dec(b: Seq<u8>) -> Option<(SV, nat)>
    decreases b.len(), 1nat, 0nat
{
    if b.len() == 0 { None }
    else if b[0] == 0 { Some((SV::Null, 1nat)) }
    else if b[0] == 1 { if b.len() < 2 { None } else { Some((SV::Bool(b[1] != 0), 2nat)) } }
    else if b[0] == 2 { if b.len() < 9 { None } else { Some((SV::Int(from_le64(b.subrange(1, 9)) as i64), 9nat)) } }
    else if b[0] == 3 { if b.len() < 9 { None } else { Some((SV::Float(from_le64(b.subrange(1, 9))), 9nat)) } }
    else if b[0] == 5 { if b.len() < 9 { None } else { Some((SV::DateTime(from_le64(b.subrange(1, 9)) as i64), 9nat)) } }
    else if b[0] == 4 || b[0] == 6 {
        if b.len() < 5 { None } else {
            let len = from_le32(b.subrange(1, 5)) as nat;
            if b.len() < 5 + len { None } else {
                let body = b.subrange(5, 5 + len as int);
                if b[0] == 6 { Some((SV::Blob(body), 5 + len)) }
                else if is_utf8(body) { Some((SV::Str(body), 5 + len)) } else { None }
            }
        }
    }
    else if b[0] == 7 {
        if b.len() < 5 { None } else {
            let count = from_le32(b.subrange(1, 5)) as nat;
            match sv_dec_list(b, 5, count) {
                Some((items, end)) => Some((SV::List(items), end)),
                None => None,
            }
        }
    }
    else if b[0] == 8 {
        // a map: count, then count entries (u32 key length, UTF-8 key, value).  The content of the map is
        // not modelled (SV::Map is opaque); what is specified is WHICH byte strings are maps and how many
        // bytes they occupy: a decoder must accept exactly these and consume exactly that many bytes.
        if b.len() < 5 { None } else {
            let count = from_le32(b.subrange(1, 5)) as nat;
            match sv_dec_entries(b, 5, count) {
                Some(end) => Some((SV::Map, end)),
                None => None,
            }
        }
    }
    else { None }
}
/// End position after `n` consecutive map entries of `b` starting at `pos` (None if malformed).
pub open spec fn sv_dec_entries(b: Seq<u8>, pos: nat, n: nat) -> Option<nat>
    decreases b.len(), 0nat, n
{
    if n == 0 { Some(pos) }
    else {
        match sv_dec_entries(b, pos, (n - 1) as nat) {
            None => None,
            Some(p) => {
                if p < 1 || p + 4 > b.len() { None } else {
                    let k_len = from_le32(b.subrange(p as int, p as int + 4)) as nat;
                    if p + 4 + k_len > b.len() || !is_utf8(b.subrange(p as int + 4, p as int + 4 + k_len as int)) { None } else {
                        let q = p + 4 + k_len;
                        if q > b.len() { None } else {
                            match sv_dec(b.skip(q as int)) {
                                None => None,
                                Some((v, c)) => Some(q + c),
                            }
                        }
                    }
                }
            }
        }
    }
}
/// Decode `n` consecutive values of `b` starting at `pos`.
pub open spec fn sv_dec_list(b: Seq<u8>, pos: nat, n: nat) -> Option<(Seq<SV>, nat)>
    decreases b.len(), 0nat, n
{
    if n == 0 { Some((Seq::<SV>::empty(), pos)) }
    else {
        match sv_dec_list(b, pos, (n - 1) as nat) {
            None => None,
            Some((items, p)) => {
                if p < 1 || p > b.len() { None } else {
                    match sv_dec(b.skip(p as int)) {
                        None => None,
                        Some((v, c)) => Some((items.push(v), p + c)),
                    }
                }
            }
        }
    }
}

pub open spec fn abs_seq(s: Seq<PropertyValue>) -> Seq<SV> {
    Seq::new(s.len(), |i: int| if 0 <= i < s.len() { abs(s[i]) } else { SV::Null })
}

// ------------------------------------------------------------------ format lemmas (spec level only)
pub proof fn lemma_dec_list_prefix(b: Seq<u8>, pos: nat, n: nat, k: nat)
    requires sv_dec_list(b, pos, n) is Some, k <= n,
    ensures sv_dec_list(b, pos, k) is Some,
    decreases n - k
{
    if k < n {
        assert(sv_dec_list(b, pos, (n - 1) as nat) is Some);
        lemma_dec_list_prefix(b, pos, (n - 1) as nat, k);
    }
}

pub proof fn lemma_enc_len(v: SV)
    requires sv_ok(v),
    ensures sv_enc(v).len() >= 1,
    decreases v
{
    lemma_le32_roundtrip(0); lemma_le64_roundtrip(0);
}

pub proof fn lemma_dec_consumes(b: Seq<u8>)
    ensures sv_dec(b) is Some ==> 1 <= sv_dec(b)->Some_0.1 <= b.len(),
    decreases b.len(), 1nat, 0nat
{
    if b.len() > 0 && b[0] == 7 && b.len() >= 5 {
        lemma_dec_list_consumes(b, 5, from_le32(b.subrange(1, 5)) as nat);
    }
    if b.len() > 0 && b[0] == 8 && b.len() >= 5 {
        lemma_dec_entries_consumes(b, 5, from_le32(b.subrange(1, 5)) as nat);
    }
}
pub proof fn lemma_dec_entries_consumes(b: Seq<u8>, pos: nat, n: nat)
    requires pos <= b.len(),
    ensures sv_dec_entries(b, pos, n) is Some ==> pos <= sv_dec_entries(b, pos, n)->Some_0 <= b.len(),
    decreases b.len(), 0nat, n
{
    if n > 0 {
        lemma_dec_entries_consumes(b, pos, (n - 1) as nat);
        match sv_dec_entries(b, pos, (n - 1) as nat) {
            None => {}
            Some(p) => {
                if p >= 1 && p + 4 <= b.len() {
                    let k_len = from_le32(b.subrange(p as int, p as int + 4)) as nat;
                    let q = p + 4 + k_len;
                    if q <= b.len() { lemma_dec_consumes(b.skip(q as int)); }
                }
            }
        }
    }
}
pub proof fn lemma_dec_entries_prefix(b: Seq<u8>, pos: nat, n: nat, k: nat)
    requires sv_dec_entries(b, pos, n) is Some, k <= n,
    ensures sv_dec_entries(b, pos, k) is Some,
    decreases n - k
{
    if k < n {
        assert(sv_dec_entries(b, pos, (n - 1) as nat) is Some);
        lemma_dec_entries_prefix(b, pos, (n - 1) as nat, k);
    }
}
pub proof fn lemma_dec_list_consumes(b: Seq<u8>, pos: nat, n: nat)
    requires pos <= b.len(),
    ensures sv_dec_list(b, pos, n) is Some ==> pos <= sv_dec_list(b, pos, n)->Some_0.1 <= b.len()
        && sv_dec_list(b, pos, n)->Some_0.0.len() == n,
    decreases b.len(), 0nat, n
{
    if n > 0 {
        lemma_dec_list_consumes(b, pos, (n - 1) as nat);
        match sv_dec_list(b, pos, (n - 1) as nat) {
            None => {}
            Some((items, p)) => {
                if p >= 1 && p <= b.len() {
                    lemma_dec_consumes(b.skip(p as int));
                }
            }
        }
    }
}

/// C25.val.roundtrip (spec level): the reference decoder inverts the format on every accepted
/// value, whatever bytes follow.
pub proof fn lemma_roundtrip(v: SV, rest: Seq<u8>)
    requires sv_ok(v),
    ensures sv_dec(sv_enc(v) + rest) == Some((v, sv_enc(v).len())),
    decreases v, 1nat
{
    let b = sv_enc(v) + rest;
    match v {
        SV::Null => { assert(b[0] == 0); }
        SV::Bool(x) => { assert(b[0] == 1); assert(b[1] == if x { 1u8 } else { 0u8 }); }
        SV::Int(i) => {
            lemma_le64_roundtrip(i as u64);
            assert(b[0] == 2);
            assert(b.subrange(1, 9) =~= le64(i as u64));
            assert((i as u64) as i64 == i) by (bit_vector);
        }
        SV::DateTime(i) => {
            lemma_le64_roundtrip(i as u64);
            assert(b[0] == 5);
            assert(b.subrange(1, 9) =~= le64(i as u64));
            assert((i as u64) as i64 == i) by (bit_vector);
        }
        SV::Float(bits) => {
            lemma_le64_roundtrip(bits);
            assert(b[0] == 3);
            assert(b.subrange(1, 9) =~= le64(bits));
        }
        SV::Str(s) => {
            lemma_le32_roundtrip(s.len() as u32);
            assert(b[0] == 4);
            assert(b.subrange(1, 5) =~= le32(s.len() as u32));
            assert(b.subrange(5, 5 + s.len() as int) =~= s);
        }
        SV::Blob(s) => {
            lemma_le32_roundtrip(s.len() as u32);
            assert(b[0] == 6);
            assert(b.subrange(1, 5) =~= le32(s.len() as u32));
            assert(b.subrange(5, 5 + s.len() as int) =~= s);
        }
        SV::List(l) => {
            lemma_le32_roundtrip(l.len() as u32);
            assert(b[0] == 7);
            assert(b.subrange(1, 5) =~= le32(l.len() as u32));
            assert(b =~= (seq![7u8] + le32(l.len() as u32)) + sv_enc_list(l) + rest);
            lemma_roundtrip_list(v, seq![7u8] + le32(l.len() as u32), l.len() as nat, rest);
            assert(l.take(l.len() as int) =~= l);
        }
        SV::Map => {}
    }
}
/// After the 5-byte list header `hdr`, decoding k items yields the first k items and stops where
/// their encodings end.
pub proof fn lemma_roundtrip_list(v: SV, hdr: Seq<u8>, k: nat, rest: Seq<u8>)
    requires v is List, sv_ok(v), hdr.len() == 5, k <= v->List_0.len(),
    ensures sv_dec_list(hdr + sv_enc_list(v->List_0) + rest, 5, k)
        == Some((v->List_0.take(k as int), 5 + sv_enc_list(v->List_0.take(k as int)).len())),
    decreases v, 0nat, k
{
    let l = v->List_0;
    let b = hdr + sv_enc_list(l) + rest;
    if k == 0 {
        assert(l.take(0) =~= Seq::<SV>::empty());
    } else {
        lemma_roundtrip_list(v, hdr, (k - 1) as nat, rest);
        let done = l.take(k - 1);
        let p = 5 + sv_enc_list(done).len();
        let item = l[k - 1];
        assert(sv_ok(item));
        lemma_enc_list_split(l, k as int);
        // b.skip(p) == sv_enc(item) + (encodings of the remaining items + rest)
        let tail = sv_enc_list_from(l, k as int) + rest;
        assert(b.skip(p as int) =~= sv_enc(item) + tail) by {
            lemma_enc_list_split_all(l, k as int);
            assert(l.take(k as int).drop_last() =~= done);
            assert(l.take(k as int).last() == item);
        }
        lemma_roundtrip(item, tail);
        lemma_enc_len(item);
        lemma_enc_list_split_all(l, k - 1);
        assert(l.take(k as int) =~= done.push(item));
        assert(l.take(k as int).drop_last() =~= done);
        assert(p >= 1 && p <= b.len());
    }
}
/// encodings of items k.. of l, concatenated
pub open spec fn sv_enc_list_from(l: Seq<SV>, k: int) -> Seq<u8>
    decreases l.len() - k
{
    if k < 0 || k >= l.len() { Seq::<u8>::empty() } else { sv_enc(l[k]) + sv_enc_list_from(l, k + 1) }
}
pub proof fn lemma_enc_list_split(l: Seq<SV>, k: int)
    requires 1 <= k <= l.len(),
    ensures sv_enc_list(l.take(k)) == sv_enc_list(l.take(k - 1)) + sv_enc(l[k - 1]),
{
    assert(l.take(k).drop_last() =~= l.take(k - 1));
    assert(l.take(k).last() == l[k - 1]);
}
pub proof fn lemma_enc_list_split_all(l: Seq<SV>, k: int)
    requires 0 <= k <= l.len(),
    ensures sv_enc_list(l) == sv_enc_list(l.take(k)) + sv_enc_list_from(l, k),
    decreases l.len() - k
{
    if k == l.len() {
        assert(l.take(k) =~= l);
        assert(sv_enc_list_from(l, k) =~= Seq::<u8>::empty());
        assert(sv_enc_list(l) =~= sv_enc_list(l) + Seq::<u8>::empty());
    } else {
        lemma_enc_list_split_all(l, k + 1);
        lemma_enc_list_split(l, k + 1);
        assert(sv_enc_list(l.take(k)) + (sv_enc(l[k]) + sv_enc_list_from(l, k + 1))
            =~= (sv_enc_list(l.take(k)) + sv_enc(l[k])) + sv_enc_list_from(l, k + 1));
    }
}

