// ---- shared trusted prelude (included into every Verus unit that needs it) ----
//@trusted usize64: the target has 64-bit usize (x86_64/aarch64; `as usize` casts of u32 lengths are verified for 64-bit targets only)
global size_of usize == 8;

pub uninterp spec fn str_bytes(s: Seq<char>) -> Seq<u8>;
pub uninterp spec fn is_utf8(b: Seq<u8>) -> bool;
pub uninterp spec fn f64_bits(f: f64) -> u64;

// u16: written out (low byte first) because this vstd proves no from/to round-trip lemma for u16
pub open spec fn le16(x: u16) -> Seq<u8> { seq![(x & 0xff) as u8, (x >> 8) as u8] }
pub open spec fn le32(x: u32) -> Seq<u8> { vstd::bytes::spec_u32_to_le_bytes(x) }
pub open spec fn le64(x: u64) -> Seq<u8> { vstd::bytes::spec_u64_to_le_bytes(x) }
pub open spec fn from_le16(b: Seq<u8>) -> u16 { (b[0] as u16) | ((b[1] as u16) << 8) }
pub open spec fn from_le32(b: Seq<u8>) -> u32 { vstd::bytes::spec_u32_from_le_bytes(b) }
pub open spec fn from_le64(b: Seq<u8>) -> u64 { vstd::bytes::spec_u64_from_le_bytes(b) }

//@trusted v_str_as_bytes: String::as_bytes yields the string's UTF-8 bytes (uninterpreted injection str_bytes)
#[verifier::external_body]
pub fn v_str_as_bytes(s: &String) -> (r: &[u8])
    ensures r@ == str_bytes(s@)
{ s.as_bytes() }
//@trusted v_str_len: String::len == number of UTF-8 bytes, and <= isize::MAX (std allocation limit)
#[verifier::external_body]
pub fn v_str_len(s: &String) -> (r: usize)
    ensures r == str_bytes(s@).len(), r <= 0x7fff_ffff_ffff_ffff
{ s.len() }
#[verifier::external_type_specification]
#[verifier::external_body]
pub struct ExFromUtf8Error(std::string::FromUtf8Error);
//@trusted v_string_from_utf8: String::from_utf8(v) is Ok(s) with as_bytes(s) == v exactly when v is valid UTF-8
#[verifier::external_body]
pub fn v_string_from_utf8(v: Vec<u8>) -> (r: core::result::Result<String, std::string::FromUtf8Error>)
    ensures r is Ok <==> is_utf8(v@), r is Ok ==> str_bytes(r->Ok_0@) == v@
{ String::from_utf8(v) }
//@trusted v_slice_len: a slice never holds more than isize::MAX bytes (language guarantee)
#[verifier::external_body]
pub fn v_slice_len(s: &[u8]) -> (r: usize)
    ensures r == s@.len(), r <= 0x7fff_ffff_ffff_ffff
{ s.len() }
pub fn v_usize_min(a: usize, b: usize) -> (r: usize)
    ensures r == if a <= b { a } else { b }
{ if a <= b { a } else { b } }
//@trusted v_slice_to_vec: <[u8]>::to_vec copies the slice
#[verifier::external_body]
pub fn v_slice_to_vec(s: &[u8]) -> (r: Vec<u8>)
    ensures r@ == s@
{ s.to_vec() }
//@trusted v_slice_to_array: <[u8; N]>::try_from(slice) succeeds iff slice.len() == N and copies it (the unwrap/expect of the original is this wrapper's precondition)
#[verifier::external_body]
pub fn v_slice_to_array<const N: usize>(s: &[u8]) -> (r: [u8; N])
    requires s@.len() == N
    ensures r@ == s@
{ s.try_into().unwrap() }

//@trusted v_int_le_bytes: std {to,from}_le_bytes on u16/u32/u64/i64/f64 are the little-endian byte sequences of vstd::bytes (f64 via its bit pattern)
#[verifier::external_body]
pub fn v_u16_from_le_bytes(b: [u8; 2]) -> (r: u16) ensures r == from_le16(b@) { u16::from_le_bytes(b) }
#[verifier::external_body]
pub fn v_u32_from_le_bytes(b: [u8; 4]) -> (r: u32) ensures r == from_le32(b@) { u32::from_le_bytes(b) }
#[verifier::external_body]
pub fn v_u64_from_le_bytes(b: [u8; 8]) -> (r: u64) ensures r == from_le64(b@) { u64::from_le_bytes(b) }
#[verifier::external_body]
pub fn v_i64_from_le_bytes(b: [u8; 8]) -> (r: i64) ensures r == from_le64(b@) as i64 { i64::from_le_bytes(b) }
#[verifier::external_body]
pub fn v_f64_from_le_bytes(b: [u8; 8]) -> (r: f64) ensures f64_bits(r) == from_le64(b@) { f64::from_le_bytes(b) }
#[verifier::external_body]
pub fn v_u16_to_le_bytes(x: u16) -> (r: [u8; 2]) ensures r@ == le16(x) { x.to_le_bytes() }
#[verifier::external_body]
pub fn v_u32_to_le_bytes(x: u32) -> (r: [u8; 4]) ensures r@ == le32(x) { x.to_le_bytes() }
#[verifier::external_body]
pub fn v_u64_to_le_bytes(x: u64) -> (r: [u8; 8]) ensures r@ == le64(x) { x.to_le_bytes() }
#[verifier::external_body]
pub fn v_i64_to_le_bytes(x: i64) -> (r: [u8; 8]) ensures r@ == le64(x as u64) { x.to_le_bytes() }
#[verifier::external_body]
pub fn v_f64_to_le_bytes(x: f64) -> (r: [u8; 8]) ensures r@ == le64(f64_bits(x)) { x.to_le_bytes() }

//@trusted v_vec_with_capacity: Vec::with_capacity(n) returns an empty Vec; the wrapper's precondition n <= budget is the C25 allocation-bound obligation (budget = number of input bytes)
#[verifier::external_body]
pub fn v_vec_with_capacity<T>(Ghost(budget): Ghost<nat>, n: usize) -> (r: Vec<T>)
    requires n <= budget
    ensures r@.len() == 0
{ Vec::with_capacity(n) }

pub proof fn lemma_le32_roundtrip(x: u32)
    ensures from_le32(le32(x)) == x, le32(x).len() == 4
{
    vstd::bytes::lemma_auto_spec_u32_to_from_le_bytes();
}
pub proof fn lemma_le64_roundtrip(x: u64)
    ensures from_le64(le64(x)) == x, le64(x).len() == 8
{
    vstd::bytes::lemma_auto_spec_u64_to_from_le_bytes();
}

#[verifier::external_type_specification]
#[verifier::external_body]
pub struct ExIoError(std::io::Error);
//@trusted u8_from_bool: u8::from(bool) is 1 for true and 0 for false (std)
pub assume_specification [<u8 as core::convert::From<bool>>::from] (b: bool) -> (r: u8)
    ensures r == (if b { 1u8 } else { 0u8 });
