// ---- shared page-store vocabulary (units c18_pager, c28_vacuum): abstract view of a Pager ----
// A Pager is viewed as (alloc: page id -> bool, next: int, bytes: the file's bytes).  A page's stored
// content is the 8192 bytes at offset id * 8192.
pub open spec fn byte_bit(b: u8, k: int) -> bool { ((b >> (k as u8)) & 1u8) == 1u8 }

/// the page image Meta::encode_page produces (uninterpreted here; its round trip through decode_page is Kani harness c18_meta_roundtrip)
pub uninterp spec fn meta_image(m: Meta) -> Seq<u8>;

impl Bitmap {
    #[verifier::opaque]
    pub open spec fn bit(&self, i: int) -> bool
        recommends 0 <= i < 65536
    { byte_bit(self.data@[i / 8], i % 8) }
}

impl Pager {
    /// page `p` is marked allocated in the in-memory bitmap
    pub open spec fn alloc(&self, p: int) -> bool { 0 <= p < 65536 && self.bitmap.bit(p) }
    pub open spec fn next(&self) -> int { self.meta.next_page_id as int }
    pub open spec fn bytes(&self) -> Seq<u8> { file_bytes(&self.file) }
    /// the bitmap page stored in the file is the in-memory bitmap (what a reopen will load)
    pub open spec fn disk_synced(&self) -> bool {
        self.bytes().len() >= 16384 && self.bytes().subrange(8192, 16384) == self.bitmap.data@ && self.bytes().subrange(0, 8192) == meta_image(self.meta)
    }
    /// representation invariant of the allocator
    pub open spec fn wf(&self) -> bool {
        &&& 2 <= self.next() <= 65536
        &&& self.alloc(0) && self.alloc(1)
        &&& forall|p: int| self.next() <= p < 65536 ==> !#[trigger] self.bitmap.bit(p)
        &&& self.bytes().len() >= 16384
        &&& self.bytes().len() <= 0x7fff_ffff_ffff_ffff
    }
}

/// THE FRAME CONDITION OF C18.  Between `o` (before) and `n` (after) a writer whose own pages are `own`
/// (i) kept the allocator well formed, (ii) freed no page but its own, (iii) did not shrink the file, and
/// (iv) left every byte of every page that was allocated before the call and is not its own exactly
/// as it was.  Pages that were free before the call may be taken and written.
pub open spec fn frame_ok(o: Pager, n: Pager, own: ISet<int>) -> bool {
    &&& n.wf()
    &&& forall|q: int| 0 <= q < 65536 && #[trigger] o.bitmap.bit(q) && !own.contains(q) ==> n.bitmap.bit(q)
    &&& n.bytes().len() >= o.bytes().len()
    &&& forall|i: int| 16384 <= i < o.bytes().len() && o.alloc(i / 8192) && !own.contains(i / 8192)
            ==> #[trigger] n.bytes()[i] == o.bytes()[i]
}

pub proof fn lemma_frame_trans(a: Pager, b: Pager, c: Pager, own: ISet<int>)
    requires frame_ok(a, b, own), frame_ok(b, c, own),
    ensures frame_ok(a, c, own),
{
    assert forall|i: int| 16384 <= i < a.bytes().len() && a.alloc(i / 8192) && !own.contains(i / 8192)
        implies #[trigger] c.bytes()[i] == a.bytes()[i] by {
        assert(b.bytes()[i] == a.bytes()[i]);
        assert(b.alloc(i / 8192));
        assert(c.bytes()[i] == b.bytes()[i]);
    }
}

/// Writing a page that was free at `a` (and so is nobody's stored content) keeps the frame of `a`.
pub proof fn lemma_frame_fresh(a: Pager, b: Pager, c: Pager, own: ISet<int>, p: int)
    requires frame_ok(a, b, own), frame_ok(b, c, own.insert(p)), !a.alloc(p),
    ensures frame_ok(a, c, own),
{
    assert forall|i: int| 16384 <= i < a.bytes().len() && a.alloc(i / 8192) && !own.contains(i / 8192)
        implies #[trigger] c.bytes()[i] == a.bytes()[i] by {
        assert(b.bytes()[i] == a.bytes()[i]);
        assert(b.alloc(i / 8192));
        assert(i / 8192 != p);
        assert(!own.insert(p).contains(i / 8192));
        assert(c.bytes()[i] == b.bytes()[i]);
    }
}

pub proof fn lemma_frame_weaken(a: Pager, b: Pager, own: ISet<int>, own2: ISet<int>)
    requires frame_ok(a, b, own), own.subset_of(own2),
    ensures frame_ok(a, b, own2),
{
}

// ---- positional file I/O (trusted; pread/pwrite loops of pager.rs) ----
//@trusted v_read_exact_at: read_exact_at(file, off, buf) (the pread loop of pager.rs) leaves the file unchanged and, when Ok, has filled buf with the bytes at [off, off+len), which then lie inside the file
#[verifier::external_body]
pub fn v_read_exact_at(file: &std::fs::File, offset: u64, buf: &mut [u8; PAGE_SIZE]) -> (r: Result<()>)
    ensures r is Ok ==> offset + 8192 <= file_bytes(file).len() && final(buf)@ == file_bytes(file).subrange(offset as int, offset + 8192),
        r is Err ==> r->Err_0 is Io,
{ unimplemented!() }

//@trusted v_write_all_at: write_all_at(file, off, buf) (the pwrite loop of pager.rs) changes no byte outside [off, off+len), never shrinks the file, and when Ok the file holds buf at [off, off+len); a gap between the old end of file and off reads as zeros (POSIX)
#[verifier::external_body]
pub fn v_write_all_at(file: &mut std::fs::File, offset: u64, buf: &[u8; PAGE_SIZE]) -> (r: Result<()>)
    requires offset + 8192 <= 0x7fff_ffff_ffff_ffff
    ensures
        file_bytes(final(file)).len() >= file_bytes(old(file)).len(),
        file_bytes(final(file)).len() <= 0x7fff_ffff_ffff_ffff,
        forall|i: int| 0 <= i < file_bytes(old(file)).len() && !(offset <= i < offset + 8192) ==> #[trigger] file_bytes(final(file))[i] == file_bytes(old(file))[i],
        r is Ok ==> file_bytes(final(file)).len() >= offset + 8192 && file_bytes(final(file)).subrange(offset as int, offset + 8192) == buf@,
        file_bytes(final(file)).len() <= (if file_bytes(old(file)).len() >= offset + 8192 { file_bytes(old(file)).len() } else { (offset + 8192) as nat }),
        r is Err ==> r->Err_0 is Io,
{ unimplemented!() }

//@trusted vfile_sync_data: File::sync_data changes neither content nor length
#[verifier::external_body]
pub fn vfile_sync_data(f: &mut std::fs::File) -> (r: Result<()>)
    ensures file_bytes(final(f)) == file_bytes(old(f)), r is Err ==> r->Err_0 is Io,
{ f.sync_data().map_err(Error::Io) }
