// Verus unit c25_wal — C25 (log records): WalRecord::{record_type, encode_body, decode_body}, read_u64.
// Bodies extracted from nervusdb-storage/src/wal.rs; PropertyValue::{encode,decode} enter through
// the contracts proved in unit c25_value.
//@unit c25_wal
//@rlimit 50
//@property C25
use vstd::prelude::*;
use std::collections::BTreeMap;
verus! {
//@include _prelude.rs

//@item nervusdb-api/src/lib.rs enum PropertyValue
//@item nervusdb-api/src/lib.rs enum DecodeError
//@item nervusdb-storage/src/lib.rs const PAGE_SIZE
//@item nervusdb-storage/src/error.rs enum Error
//@rewrite "    Serialization(serde_json::Error)," => ""
//@item nervusdb-storage/src/error.rs type Result
//@item nervusdb-storage/src/wal.rs struct SegmentPointer
//@item nervusdb-storage/src/wal.rs enum WalRecord

//@include _value_spec.rs
//@include _wal_spec.rs

// ---- contracts of the value codec (proved from the real bodies in unit c25_value) ----
impl PropertyValue {
    //@trusted encode: contract of PropertyValue::encode, proved in Verus unit c25_value from the real body
    #[verifier::external_body]
    pub fn encode(&self) -> (out: Vec<u8>)
        requires sv_ok(abs(*self)),
        ensures out@ == sv_enc(abs(*self)),
    { unimplemented!() }
    //@trusted decode: contract of PropertyValue::decode, proved in Verus unit c25_value from the real body
    #[verifier::external_body]
    pub fn decode(bytes: &[u8]) -> (r: core::result::Result<PropertyValue, DecodeError>)
        ensures sv_dec(bytes@) is Some ==> r is Ok && abs(r->Ok_0) == sv_dec(bytes@)->Some_0.0,
    { unimplemented!() }
}

//@trusted v_page_as_slice: Box<[u8; PAGE_SIZE]>::as_ref() is the page's bytes
#[verifier::external_body]
pub fn v_page_as_slice(page: &Box<[u8; PAGE_SIZE]>) -> (r: &[u8])
    ensures r@ == page@
{ page.as_ref() }
//@trusted v_page_copy_from_slice: page.as_mut_slice().copy_from_slice(src) overwrites the whole page with src (std panics unless the lengths are equal: precondition)
#[verifier::external_body]
pub fn v_page_copy_from_slice(page: &mut Box<[u8; PAGE_SIZE]>, src: &[u8])
    requires src@.len() == PAGE_SIZE
    ensures final(page)@ == src@
{ page.as_mut_slice().copy_from_slice(src) }

//@extract nervusdb-storage/src/wal.rs read_u64 ret r
//@| ensures payload@.len() == 8 ==> (r is Ok && r->Ok_0 == from_le64(payload@)),
//@|         payload@.len() != 8 ==> r is Err,
//@end

impl WalRecord {

//@extract nervusdb-storage/src/wal.rs WalRecord::record_type ret r
//@| ensures r == rec_tag(abs_rec(*self)),
//@end

//@extract nervusdb-storage/src/wal.rs WalRecord::encode_body ret r
//@| requires rec_ok(abs_rec(*self)),
//@| ensures r is Ok, r->Ok_0@ == rec_enc(abs_rec(*self)),
//@lebytes txid:*u64 page_id:*u64 label_id:*u32 name_len:u32 external_id:*u64 internal_id:*u32 node:*u32 src:*u32 rel:*u32 dst:*u32 epoch:*u64 count:u32 seg.id:u64 seg.meta_page_id:u64 properties_root:*u64 stats_root:*u64 up_to_txid:*u64 key_len:u32
//@rewrite "page.as_ref()" => "v_page_as_slice(page)"
//@rewrite "let count: u32 = segments\n                    .len()\n                    .try_into()" => "let count: u32 = u32::try_from(segments.len())"
//@loop 1 iter it1
//@| invariant *self matches WalRecord::ManifestSwitch { segments: sg, epoch: ep, .. } && sg == segments && ep == epoch,
//@|   count == segments@.len(),
//@|   out@ == seq![9u8] + le64(*epoch) + le32(count) + segs_enc(seg_seq(segments@).take(it1.index@ as int)),
//@proof before 1 "out.extend_from_slice(&seg.id.to_le_bytes());"
//@| let s = seg_seq(segments@); let k = it1.index@ as int;
//@| assert(s.take(k + 1).drop_last() =~= s.take(k));
//@| assert(s.take(k + 1).last() == (seg.id, seg.meta_page_id));
//@proof before 1 "out.extend_from_slice(&properties_root.to_le_bytes());"
//@| let s = seg_seq(segments@);
//@| assert(s.take(s.len() as int) =~= s);
//@proof before 1 "=Ok(out)"
//@| assert(out@ =~= rec_enc(abs_rec(*self)));
//@end

//@extract nervusdb-storage/src/wal.rs WalRecord::decode_body ret r
//@| ensures rec_dec(body@) is Some ==> r is Ok && abs_rec(r->Ok_0) == rec_dec(body@)->Some_0,
//@rewrite "page.as_mut_slice().copy_from_slice(&payload[8..]);" => "v_page_copy_from_slice(&mut page, &payload[8..]);"
//@rewrite "Vec::with_capacity(count)" => "v_vec_with_capacity(Ghost(payload@.len()), count)"
//@loop 1 iter it1
//@| invariant payload@ == body@.skip(1), body@.len() >= 1, body@[0] == 9, payload@.len() >= 12 + count * 16 + 8, count <= u32::MAX,
//@|   offset == 12 + 16 * it1.index@, it1.index@ <= count, segments@.len() == it1.index@,
//@|   seg_seq(segments@) =~= segs_dec(payload@, 12, it1.index@ as nat),
//@end

} // impl

//@include _wal_roundtrip.rs

/// C25.wal.roundtrip — for every record the encoder accepts, decoding its encoding yields a record
/// with the same content (composition of the encode_body / decode_body contracts and the lemma).
pub proof fn lemma_record_roundtrip(r: WalRecord)
    requires rec_ok(abs_rec(r)),
    ensures rec_dec(rec_enc(abs_rec(r))) == Some(abs_rec(r)),
{
    lemma_rec_roundtrip(abs_rec(r));
}

//@canary|pub proof fn canary_rec_ok(r: WalRecord) requires rec_ok(abs_rec(r)), r is SetNodeProperty ensures false {}
//@canary|pub proof fn canary_rec_dec_some(b: Seq<u8>) requires rec_dec(b) is Some, b.len() > 0, b[0] == 9, rec_dec(b)->Some_0->ManifestSwitch_segments.len() == 2 ensures false {}

} // verus!
fn main() {}
