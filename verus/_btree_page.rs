// ---- shared: the slotted index page of btree.rs under contract (units c26_page, c28_btree) ----
//@item nervusdb-storage/src/lib.rs const PAGE_SIZE
//@item nervusdb-storage/src/error.rs enum Error
//@rewrite "    Serialization(serde_json::Error)," => ""
//@item nervusdb-storage/src/error.rs type Result
//@item nervusdb-storage/src/pager.rs struct PageId keep-derive
//@item nervusdb-storage/src/index/btree.rs const MAGIC
//@item nervusdb-storage/src/index/btree.rs const VERSION
//@item nervusdb-storage/src/index/btree.rs enum PageKind keep-derive
//@item nervusdb-storage/src/index/btree.rs const COMMON_HEADER_SIZE
//@item nervusdb-storage/src/index/btree.rs const INTERNAL_HEADER_SIZE
//@item nervusdb-storage/src/index/btree.rs const OFF_MAGIC
//@item nervusdb-storage/src/index/btree.rs const OFF_KIND
//@item nervusdb-storage/src/index/btree.rs const OFF_VERSION
//@item nervusdb-storage/src/index/btree.rs const OFF_CELL_COUNT
//@item nervusdb-storage/src/index/btree.rs const OFF_CELL_CONTENT_BEGIN
//@item nervusdb-storage/src/index/btree.rs const OFF_FREE_BYTES
//@item nervusdb-storage/src/index/btree.rs const OFF_RESERVED
//@item nervusdb-storage/src/index/btree.rs const OFF_RIGHT_SIBLING
//@item nervusdb-storage/src/index/btree.rs const OFF_LEFTMOST_CHILD
//@item nervusdb-storage/src/index/btree.rs struct Page

impl PageId {
//@extract nervusdb-storage/src/pager.rs PageId::new ret r
//@| ensures r.0 == id
//@end
//@extract nervusdb-storage/src/pager.rs PageId::as_u64 ret r
//@| ensures r == self.0
//@end
}

//@trusted v_slice_write: `buf[off..off + N].copy_from_slice(&bytes)` overwrites N bytes of buf at off and nothing else (std panics unless off + N <= buf.len(): precondition)
#[verifier::external_body]
pub fn v_slice_write<const N: usize>(buf: &mut [u8], off: usize, src: &[u8; N])
    requires off + N <= old(buf)@.len()
    ensures final(buf)@ == old(buf)@.take(off as int) + src@ + old(buf)@.skip(off + N)
{ buf[off..off + N].copy_from_slice(src) }

pub proof fn lemma_le16_len(x: u16) ensures le16(x).len() == 2, from_le16(le16(x)) == x {
    assert(((((x & 0xff) as u8) as u16) | ((((x >> 8) as u8) as u16) << 8)) == x) by (bit_vector);
}
pub proof fn lemma_le32_len(x: u32) ensures le32(x).len() == 4 { lemma_le32_roundtrip(x); }
pub proof fn lemma_le64_len(x: u64) ensures le64(x).len() == 8, from_le64(le64(x)) == x { lemma_le64_roundtrip(x); }

//@extract nervusdb-storage/src/index/btree.rs header_size ret r
//@| ensures r == (if kind == PageKind::Leaf { 24usize } else { 32usize })
//@end

//@extract nervusdb-storage/src/index/btree.rs read_u16_le ret r
//@| requires off + 2 <= buf@.len() <= 0x7fff_ffff_ffff_ffff
//@| ensures r == from_le16(buf@.subrange(off as int, off + 2))
//@end
//@extract nervusdb-storage/src/index/btree.rs read_u64_le ret r
//@| requires off + 8 <= buf@.len() <= 0x7fff_ffff_ffff_ffff
//@| ensures r == from_le64(buf@.subrange(off as int, off + 8))
//@end
//@extract nervusdb-storage/src/index/btree.rs write_u16_le
//@| requires off + 2 <= old(buf)@.len() <= 0x7fff_ffff_ffff_ffff
//@| ensures final(buf)@ == old(buf)@.take(off as int) + le16(v) + old(buf)@.skip(off + 2),
//@|     final(buf)@.len() == old(buf)@.len(), final(buf)@.subrange(off as int, off + 2) == le16(v),
//@|     forall|j: int| 0 <= j < old(buf)@.len() && !(off <= j < off + 2) ==> #[trigger] final(buf)@[j] == old(buf)@[j],
//@proof before 1 "=}"
//@| lemma_le16_len(v);
//@| assert(buf@.subrange(off as int, off + 2) =~= le16(v));
//@prewrite "buf[off..off + 2].copy_from_slice(&v.to_le_bytes());" => "v_slice_write(buf, off, &v_u16_to_le_bytes(v));"
//@end
//@extract nervusdb-storage/src/index/btree.rs write_u32_le
//@| requires off + 4 <= old(buf)@.len() <= 0x7fff_ffff_ffff_ffff
//@| ensures final(buf)@ == old(buf)@.take(off as int) + le32(v) + old(buf)@.skip(off + 4),
//@|     final(buf)@.len() == old(buf)@.len(), final(buf)@.subrange(off as int, off + 4) == le32(v),
//@|     forall|j: int| 0 <= j < old(buf)@.len() && !(off <= j < off + 4) ==> #[trigger] final(buf)@[j] == old(buf)@[j],
//@proof before 1 "=}"
//@| lemma_le32_len(v);
//@| assert(buf@.subrange(off as int, off + 4) =~= le32(v));
//@prewrite "buf[off..off + 4].copy_from_slice(&v.to_le_bytes());" => "v_slice_write(buf, off, &v_u32_to_le_bytes(v));"
//@end
//@extract nervusdb-storage/src/index/btree.rs write_u64_le
//@| requires off + 8 <= old(buf)@.len() <= 0x7fff_ffff_ffff_ffff
//@| ensures final(buf)@ == old(buf)@.take(off as int) + le64(v) + old(buf)@.skip(off + 8),
//@|     final(buf)@.len() == old(buf)@.len(), final(buf)@.subrange(off as int, off + 8) == le64(v),
//@|     forall|j: int| 0 <= j < old(buf)@.len() && !(off <= j < off + 8) ==> #[trigger] final(buf)@[j] == old(buf)@[j],
//@proof before 1 "=}"
//@| lemma_le64_len(v);
//@| assert(buf@.subrange(off as int, off + 8) =~= le64(v));
//@prewrite "buf[off..off + 8].copy_from_slice(&v.to_le_bytes());" => "v_slice_write(buf, off, &v_u64_to_le_bytes(v));"
//@end

// ================================================================== varints (LEB128, u32, at most 5 bytes)
pub open spec fn vlen(v: u32) -> int { if v < 0x80 { 1 } else if v < 0x4000 { 2 } else if v < 0x20_0000 { 3 } else if v < 0x1000_0000 { 4 } else { 5 } }
pub open spec fn venc(v: u32) -> Seq<u8>
    decreases v
{ if v < 0x80 { seq![v as u8] } else { seq![((v % 128) + 128) as u8] + venc(v / 128) } }

pub proof fn lemma_shr7(v: u32)
    ensures (v >> 7) == v / 128, ((v as u8) | 0x80u8) == ((v % 128) + 128) as u8, (v as u8) & 0x7Fu8 == (v % 128) as u8,
        v < 0x80 ==> (v as u8) == v && ((v as u8) & 0x80u8) == 0,
{
    assert((v >> 7) == v / 128) by (bit_vector);
    assert(((v as u8) | 0x80u8) == ((v % 128) + 128) as u8) by (bit_vector);
    assert((v as u8) & 0x7Fu8 == (v % 128) as u8) by (bit_vector);
    assert(v < 0x80 ==> (v as u8) == v && ((v as u8) & 0x80u8) == 0) by (bit_vector);
}

//@extract nervusdb-storage/src/index/btree.rs varint_u32_len ret r
//@| ensures r == vlen(v)
//@prewrite "let mut n = 1;" => "let mut n: usize = 1; let ghost v0 = v;"
//@loop 1
//@| invariant 1 <= n <= 5, vlen(v0) == vlen(v) + (n - 1),
//@|     n == 2 ==> v < 0x200_0000, n == 3 ==> v < 0x4_0000, n == 4 ==> v < 0x800, n == 5 ==> v < 0x10,
//@| decreases v
//@proof before 1 "v >>= 7;"
//@| lemma_shr7(v);
//@end

pub proof fn lemma_venc_len(v: u32)
    ensures venc(v).len() == vlen(v)
    decreases v
{
    if v >= 0x80 { lemma_venc_len(v / 128); }
}

//@extract nervusdb-storage/src/index/btree.rs write_varint_u32 ret r
//@| requires vlen(v0) <= old(out)@.len() <= 0x7fff_ffff_ffff_ffff
//@| ensures r == vlen(v0), final(out)@.len() == old(out)@.len(),
//@|     final(out)@.take(r as int) == venc(v0), final(out)@.skip(r as int) == old(out)@.skip(r as int),
//@prewrite "mut v: u32" => "v0: u32"
//@prewrite "let mut i = 0;" => "let mut v = v0; let mut i: usize = 0;"
//@loop 1
//@| invariant i <= 4, vlen(v0) == vlen(v) + i, out@.len() == old(out)@.len(), vlen(v0) <= out@.len(),
//@|     i == 1 ==> v < 0x200_0000, i == 2 ==> v < 0x4_0000, i == 3 ==> v < 0x800, i == 4 ==> v < 0x10,
//@|     out@.take(i as int) + venc(v) == venc(v0), out@.skip(i as int) == old(out)@.skip(i as int),
//@| decreases v
//@proof before 1 "out[i] = (v as u8) | 0x80;" raw
//@| proof { lemma_shr7(v); }
//@| let ghost o1 = out@;
//@proof before 1 "v >>= 7;"
//@| assert(out@.take(i + 1) =~= out@.take(i as int).push(((v % 128) + 128) as u8));
//@| assert(out@.take(i as int) =~= old(out)@.take(0) + out@.take(i as int));
//@| assert(venc(v) =~= seq![((v % 128) + 128) as u8] + venc(v / 128));
//@| assert(out@.take(i + 1) + venc(v / 128) =~= out@.take(i as int) + venc(v));
//@| assert forall|j: int| 0 <= j < out@.len() - (i + 1) implies #[trigger] out@.skip(i + 1)[j] == old(out)@.skip(i + 1)[j] by {
//@|     assert(o1.skip(i as int)[j + 1] == old(out)@.skip(i as int)[j + 1]);
//@| }
//@| assert(out@.skip(i + 1) =~= old(out)@.skip(i + 1));
//@proof before 1 "out[i] = v as u8;" raw
//@| proof { lemma_shr7(v); }
//@| let ghost o2 = out@;
//@proof before 1 "=i + 1"
//@| assert(venc(v) =~= seq![v as u8]);
//@| assert(out@.take(i + 1) =~= venc(v0));
//@| assert forall|j: int| 0 <= j < out@.len() - (i + 1) implies #[trigger] out@.skip(i + 1)[j] == old(out)@.skip(i + 1)[j] by {
//@|     assert(o2.skip(i as int)[j + 1] == old(out)@.skip(i as int)[j + 1]);
//@| }
//@| assert(out@.skip(i + 1) =~= old(out)@.skip(i + 1));
//@end

/// what the varint decoder returns on a byte string (value, bytes consumed); uninterpreted: only the
/// three facts below are known about it
pub uninterp spec fn vdec(s: Seq<u8>) -> Option<(u32, int)>;
//@trusted axiom_vdec_bounds: read_varint_u32 consumes between 1 and 5 bytes, never more than it was given — discharged on the compiled code by Kani harness c26_varint_read_total (every buffer of <= 6 arbitrary bytes; the decoder never looks past 5)
#[verifier::external_body]
pub proof fn axiom_vdec_bounds(s: Seq<u8>)
    ensures vdec(s) is Some ==> 1 <= vdec(s)->Some_0.1 <= 5 && vdec(s)->Some_0.1 <= s.len()
{}
//@trusted axiom_vdec_prefix: the result of read_varint_u32 depends only on the bytes it consumed — discharged by Kani harness c26_varint_read_prefix
#[verifier::external_body]
pub proof fn axiom_vdec_prefix(s: Seq<u8>, t: Seq<u8>)
    requires vdec(s) is Some, t.len() >= vdec(s)->Some_0.1, t.take(vdec(s)->Some_0.1) == s.take(vdec(s)->Some_0.1)
    ensures vdec(t) == vdec(s)
{}
//@trusted axiom_vdec_roundtrip: read_varint_u32 inverts write_varint_u32 for every u32 — discharged by Kani harness c26_varint_roundtrip (real writer into real reader, all u32); the writer's output is venc(v) by the Verus proof of write_varint_u32 above
#[verifier::external_body]
pub proof fn axiom_vdec_roundtrip(v: u32, rest: Seq<u8>)
    ensures vdec(venc(v) + rest) == Some((v, vlen(v)))
{}
//@trusted read_varint_u32: `for (i, &b) in buf.iter().enumerate()` is an iterator adapter Verus cannot ingest; the function is characterised by vdec (three axioms above, each discharged by a Kani harness on the compiled code)
#[verifier::external_body]
pub fn read_varint_u32(buf: &[u8]) -> (r: Option<(u32, usize)>)
    ensures r is Some <==> vdec(buf@) is Some, r is Some ==> r->Some_0.0 == vdec(buf@)->Some_0.0 && r->Some_0.1 == vdec(buf@)->Some_0.1
{ unimplemented!() }

// ================================================================== abstract view of a slotted index page
pub open spec fn magic4() -> Seq<u8> { MAGIC@ }
pub open spec fn pg_kind_ok(b: Seq<u8>) -> bool { b.len() == 8192 && b.subrange(0, 4) == magic4() && b[5] == VERSION && (b[4] == 0 || b[4] == 1) }
pub open spec fn pg_hdr(b: Seq<u8>) -> int { if b[4] == 0 { 24 } else { 32 } }
pub open spec fn pg_count(b: Seq<u8>) -> int { from_le16(b.subrange(6, 8)) as int }
pub open spec fn pg_begin(b: Seq<u8>) -> int { from_le16(b.subrange(8, 10)) as int }
pub open spec fn pg_slot(b: Seq<u8>, i: int) -> int { from_le16(b.subrange(pg_hdr(b) + 2 * i, pg_hdr(b) + 2 * i + 2)) as int }

/// a leaf cell at offset `off`: varint key length, key bytes, payload (u64 LE)
pub open spec fn lc_vlen(b: Seq<u8>, off: int) -> int { vdec(b.skip(off))->Some_0.1 }
pub open spec fn lc_klen(b: Seq<u8>, off: int) -> int { vdec(b.skip(off))->Some_0.0 as int }
pub open spec fn lc_end(b: Seq<u8>, off: int) -> int { off + lc_vlen(b, off) + lc_klen(b, off) + 8 }
pub open spec fn lc_ok(b: Seq<u8>, off: int) -> bool { 0 <= off < 8192 && vdec(b.skip(off)) is Some && lc_end(b, off) <= 8192 }
pub open spec fn lc_key(b: Seq<u8>, off: int) -> Seq<u8> { b.subrange(off + lc_vlen(b, off), off + lc_vlen(b, off) + lc_klen(b, off)) }
pub open spec fn lc_payload(b: Seq<u8>, off: int) -> u64 { from_le64(b.subrange(lc_end(b, off) - 8, lc_end(b, off))) }

/// representation invariant of a leaf page
pub open spec fn leaf_wf(b: Seq<u8>) -> bool {
    &&& pg_kind_ok(b) && b[4] == 0
    &&& 24 + 2 * pg_count(b) <= pg_begin(b) <= 8192
    &&& forall|i: int| 0 <= i < pg_count(b) ==> pg_begin(b) <= #[trigger] pg_slot(b, i) && lc_ok(b, pg_slot(b, i))
}
/// the leaf as a sequence of (key, payload) entries in slot order
pub open spec fn leaf_cells(b: Seq<u8>) -> Seq<(Seq<u8>, u64)> {
    Seq::new(pg_count(b) as nat, |i: int| (lc_key(b, pg_slot(b, i)), lc_payload(b, pg_slot(b, i))))
}

//@trusted v_arr_range: `page[a..b]` on the page array is the sub-slice (std panics unless a <= b <= 8192: precondition)
#[verifier::external_body]
pub fn v_arr_range(page: &[u8; PAGE_SIZE], a: usize, b: usize) -> (r: &[u8])
    requires a <= b <= 8192
    ensures r@ == page@.subrange(a as int, b as int)
{ &page[a..b] }
//@trusted v_arr_from: `page[a..]` on the page array is the tail slice (std panics unless a <= 8192: precondition)
#[verifier::external_body]
pub fn v_arr_from(page: &[u8; PAGE_SIZE], a: usize) -> (r: &[u8])
    requires a <= 8192
    ensures r@ == page@.skip(a as int)
{ &page[a..] }
//@trusted v_slice_ne_array4: `slice != array` on bytes is sequence inequality (std)
#[verifier::external_body]
pub fn v_slice_ne_array4(s: &[u8], a: &[u8; 4]) -> (r: bool)
    ensures r == (s@ != a@)
{ s != a }

impl<'a> Page<'a> {
    pub open spec fn b(&self) -> Seq<u8> { (*self.buf)@ }

//@extract nervusdb-storage/src/index/btree.rs Page::new ret r
//@| ensures r.b() == old(buf)@, *r.buf == *old(buf), *final(r.buf) == *final(buf)
//@end

//@extract nervusdb-storage/src/index/btree.rs Page::kind ret r
//@| ensures r is Ok <==> pg_kind_ok(self.b()),
//@|     r is Ok ==> r->Ok_0 == (if self.b()[4] == 0 { PageKind::Leaf } else { PageKind::Internal }),
//@prewrite "self.buf[OFF_MAGIC..OFF_MAGIC + 4] != MAGIC" => "v_slice_ne_array4(v_arr_range(self.buf, OFF_MAGIC, OFF_MAGIC + 4), &MAGIC)"
//@end

//@extract nervusdb-storage/src/index/btree.rs Page::cell_count ret r
//@| ensures r == pg_count(self.b())
//@end
//@extract nervusdb-storage/src/index/btree.rs Page::cell_content_begin ret r
//@| ensures r == pg_begin(self.b())
//@end
//@extract nervusdb-storage/src/index/btree.rs Page::slots_off ret r
//@| ensures r is Ok <==> pg_kind_ok(self.b()), r is Ok ==> r->Ok_0 == pg_hdr(self.b()),
//@end
//@extract nervusdb-storage/src/index/btree.rs Page::slot_get ret r
//@| requires pg_kind_ok(self.b()) ==> pg_hdr(self.b()) + 2 * i + 2 <= 8192,
//@| ensures r is Ok <==> pg_kind_ok(self.b()), r is Ok ==> r->Ok_0 == pg_slot(self.b(), i as int),
//@end
//@extract nervusdb-storage/src/index/btree.rs Page::free_space ret r
//@| ensures r is Ok <==> pg_kind_ok(self.b()),
//@|     r is Ok ==> r->Ok_0 == (if pg_begin(self.b()) >= pg_hdr(self.b()) + 2 * pg_count(self.b()) { pg_begin(self.b()) - (pg_hdr(self.b()) + 2 * pg_count(self.b())) } else { 0 }),
//@end

// C26.page.leaf_cell.spec — on a well-formed leaf, cell `idx` reads back as entry `idx` of the abstract view.
//@extract nervusdb-storage/src/index/btree.rs Page::leaf_cell_key_and_payload ret r
//@| requires leaf_wf(self.b()),
//@| ensures r is Ok <==> idx < pg_count(self.b()),
//@|     r is Ok ==> r->Ok_0.0@ == leaf_cells(self.b())[idx as int].0 && r->Ok_0.1 == leaf_cells(self.b())[idx as int].1,
//@prewrite "read_varint_u32(&self.buf[cell_off..])" => "read_varint_u32(v_arr_from(self.buf, cell_off))"
//@prewrite "Ok((&self.buf[key_start..key_end], payload))" => "Ok((v_arr_range(self.buf, key_start, key_end), payload))"
//@end
}

// ================================================================== key order: byte-wise lexicographic
pub open spec fn lex_lt(a: Seq<u8>, b: Seq<u8>) -> bool
    decreases a.len()
{
    if b.len() == 0 { false } else if a.len() == 0 { true } else if a[0] != b[0] { a[0] < b[0] } else { lex_lt(a.skip(1), b.skip(1)) }
}
pub open spec fn lex_le(a: Seq<u8>, b: Seq<u8>) -> bool { !lex_lt(b, a) }
/// a < b <= c  ==>  a < c        and        a <= b <= c  ==>  a <= c
pub proof fn lemma_lex_trans(a: Seq<u8>, b: Seq<u8>, c: Seq<u8>)
    ensures lex_lt(a, b) && lex_le(b, c) ==> lex_lt(a, c),
        lex_le(a, b) && lex_lt(b, c) ==> lex_lt(a, c),
        lex_le(a, b) && lex_le(b, c) ==> lex_le(a, c),
    decreases a.len() + b.len() + c.len()
{
    if a.len() > 0 && b.len() > 0 && c.len() > 0 {
        lemma_lex_trans(a.skip(1), b.skip(1), c.skip(1));
    }
}
pub proof fn lemma_lex_irrefl(a: Seq<u8>)
    ensures !lex_lt(a, a)
    decreases a.len()
{
    if a.len() > 0 { lemma_lex_irrefl(a.skip(1)); }
}
pub proof fn lemma_lex_total(a: Seq<u8>, b: Seq<u8>)
    ensures lex_lt(a, b) || lex_lt(b, a) || a == b, !(lex_lt(a, b) && lex_lt(b, a)),
    decreases a.len() + b.len()
{
    if a.len() > 0 && b.len() > 0 {
        lemma_lex_total(a.skip(1), b.skip(1));
        if a[0] == b[0] && a.skip(1) == b.skip(1) {
            assert(a =~= seq![a[0]] + a.skip(1));
            assert(b =~= seq![b[0]] + b.skip(1));
        }
    } else if a.len() == 0 && b.len() == 0 {
        assert(a =~= b);
    }
}
//@trusted v_bytes_lt: `<` on byte slices is std's lexicographic order (Ord for [u8])
#[verifier::external_body]
pub fn v_bytes_lt(a: &[u8], b: &[u8]) -> (r: bool)
    ensures r == lex_lt(a@, b@)
{ a < b }
//@trusted v_bytes_le: `<=` on byte slices is std's lexicographic order (Ord for [u8])
#[verifier::external_body]
pub fn v_bytes_le(a: &[u8], b: &[u8]) -> (r: bool)
    ensures r == lex_le(a@, b@)
{ a <= b }

pub open spec fn keys_sorted(cells: Seq<(Seq<u8>, u64)>) -> bool {
    forall|i: int, j: int| 0 <= i < j < cells.len() ==> lex_le(#[trigger] cells[i].0, #[trigger] cells[j].0)
}

impl<'a> Page<'a> {
// C26.page.leaf_lower_bound.spec — on a well-formed leaf whose keys are in order, the result is the
// first position whose key is >= target (any cell count).
//@extract nervusdb-storage/src/index/btree.rs Page::leaf_lower_bound ret r
//@| requires leaf_wf(self.b()), keys_sorted(leaf_cells(self.b())),
//@| ensures r is Ok, r->Ok_0 <= pg_count(self.b()),
//@|     forall|i: int| 0 <= i < r->Ok_0 ==> lex_lt(#[trigger] leaf_cells(self.b())[i].0, target@),
//@|     forall|i: int| r->Ok_0 <= i < pg_count(self.b()) ==> lex_le(target@, #[trigger] leaf_cells(self.b())[i].0),
//@preregex "?if k < target \{" => "if v_bytes_lt(k, target) {"
//@preregex "?if k <= target \{" => "if v_bytes_le(k, target) {"
//@loop 1
//@| invariant leaf_wf(self.b()), keys_sorted(leaf_cells(self.b())), n == pg_count(self.b()), lo <= hi <= n, n <= 65535,
//@|     forall|i: int| 0 <= i < lo ==> lex_lt(#[trigger] leaf_cells(self.b())[i].0, target@),
//@|     forall|i: int| hi <= i < n ==> lex_le(target@, #[trigger] leaf_cells(self.b())[i].0),
//@| decreases hi - lo
//@proof before 1 "=lo = mid + 1;"
//@| let cs = leaf_cells(self.b());
//@| assert forall|i: int| 0 <= i < mid + 1 implies lex_lt(#[trigger] cs[i].0, target@) by {
//@|     if i < mid { assert(lex_le(cs[i].0, cs[mid as int].0)); }
//@|     lemma_lex_irrefl(cs[mid as int].0);
//@|     lemma_lex_trans(cs[i].0, cs[mid as int].0, target@);
//@| }
//@proof before 1 "=hi = mid;"
//@| let cs = leaf_cells(self.b());
//@| assert forall|i: int| mid <= i < n implies lex_le(target@, #[trigger] cs[i].0) by {
//@|     if mid < i { assert(lex_le(cs[mid as int].0, cs[i].0)); }
//@|     lemma_lex_irrefl(cs[mid as int].0);
//@|     lemma_lex_trans(target@, cs[mid as int].0, cs[i].0);
//@| }
//@end
}

// ================================================================== internal pages
/// an internal cell at offset `off`: right child (u64 LE), varint key length, key bytes
pub open spec fn ic_vlen(b: Seq<u8>, off: int) -> int { vdec(b.skip(off + 8))->Some_0.1 }
pub open spec fn ic_klen(b: Seq<u8>, off: int) -> int { vdec(b.skip(off + 8))->Some_0.0 as int }
pub open spec fn ic_end(b: Seq<u8>, off: int) -> int { off + 8 + ic_vlen(b, off) + ic_klen(b, off) }
pub open spec fn ic_ok(b: Seq<u8>, off: int) -> bool { 0 <= off && off + 8 < 8192 && vdec(b.skip(off + 8)) is Some && ic_end(b, off) <= 8192 }
pub open spec fn ic_key(b: Seq<u8>, off: int) -> Seq<u8> { b.subrange(off + 8 + ic_vlen(b, off), ic_end(b, off)) }
pub open spec fn ic_child(b: Seq<u8>, off: int) -> u64 { from_le64(b.subrange(off, off + 8)) }
pub open spec fn internal_wf(b: Seq<u8>) -> bool {
    &&& pg_kind_ok(b) && b[4] == 1
    &&& 32 + 2 * pg_count(b) <= pg_begin(b) <= 8192
    &&& forall|i: int| 0 <= i < pg_count(b) ==> pg_begin(b) <= #[trigger] pg_slot(b, i) && ic_ok(b, pg_slot(b, i))
}
/// separators and children of an internal page: child 0 is the leftmost child, child i+1 is cell i's right child
pub open spec fn int_seps(b: Seq<u8>) -> Seq<Seq<u8>> { Seq::new(pg_count(b) as nat, |i: int| ic_key(b, pg_slot(b, i))) }
pub open spec fn int_child(b: Seq<u8>, i: int) -> u64 { if i == 0 { from_le64(b.subrange(24, 32)) } else { ic_child(b, pg_slot(b, i - 1)) } }
pub open spec fn seps_sorted(s: Seq<Seq<u8>>) -> bool { forall|i: int, j: int| 0 <= i < j < s.len() ==> lex_le(#[trigger] s[i], #[trigger] s[j]) }

impl<'a> Page<'a> {
//@extract nervusdb-storage/src/index/btree.rs Page::right_sibling ret r
//@| ensures r.0 == from_le64(self.b().subrange(16, 24))
//@end
//@extract nervusdb-storage/src/index/btree.rs Page::leftmost_child ret r
//@| ensures r is Ok <==> pg_kind_ok(self.b()) && self.b()[4] == 1, r is Ok ==> r->Ok_0.0 == from_le64(self.b().subrange(24, 32)),
//@end
//@extract nervusdb-storage/src/index/btree.rs Page::internal_cell_key_and_right_child ret r
//@| requires internal_wf(self.b()),
//@| ensures r is Ok <==> idx < pg_count(self.b()),
//@|     r is Ok ==> r->Ok_0.0@ == int_seps(self.b())[idx as int] && r->Ok_0.1.0 == int_child(self.b(), idx + 1),
//@prewrite "read_varint_u32(&self.buf[cell_off + 8..])" => "read_varint_u32(v_arr_from(self.buf, cell_off + 8))"
//@prewrite "Ok((&self.buf[key_start..key_end], right_child))" => "Ok((v_arr_range(self.buf, key_start, key_end), right_child))"
//@end

// C26.page.internal_child_for_key.spec — descent goes to the child in front of the FIRST separator that
// is >= target: every separator before the chosen position is < target, every one from it on is
// >= target.  (A run of equal keys may straddle a split, with part of it at the end of the child
// left of a separator equal to the key: that child is where the run starts.)
//@extract nervusdb-storage/src/index/btree.rs Page::internal_child_for_key ret r
//@| requires internal_wf(self.b()), seps_sorted(int_seps(self.b())),
//@| ensures r is Ok, r->Ok_0.1 <= pg_count(self.b()), r->Ok_0.0.0 == int_child(self.b(), r->Ok_0.1 as int),
//@|     forall|i: int| 0 <= i < r->Ok_0.1 ==> lex_lt(#[trigger] int_seps(self.b())[i], target@),
//@|     forall|i: int| r->Ok_0.1 <= i < pg_count(self.b()) ==> lex_le(target@, #[trigger] int_seps(self.b())[i]),
//@preregex "?if k < target \{" => "if v_bytes_lt(k, target) {"
//@preregex "?if k <= target \{" => "if v_bytes_le(k, target) {"
//@loop 1
//@| invariant internal_wf(self.b()), seps_sorted(int_seps(self.b())), n == pg_count(self.b()), lo <= hi <= n, n <= 65535,
//@|     forall|i: int| 0 <= i < lo ==> lex_lt(#[trigger] int_seps(self.b())[i], target@),
//@|     forall|i: int| hi <= i < n ==> lex_le(target@, #[trigger] int_seps(self.b())[i]),
//@| decreases hi - lo
//@proof before 1 "=lo = mid + 1;"
//@| let cs = int_seps(self.b());
//@| assert forall|i: int| 0 <= i < mid + 1 implies lex_lt(#[trigger] cs[i], target@) by {
//@|     if i < mid { assert(lex_le(cs[i], cs[mid as int])); }
//@|     lemma_lex_irrefl(cs[mid as int]);
//@|     lemma_lex_trans(cs[i], cs[mid as int], target@);
//@| }
//@proof before 1 "=hi = mid;"
//@| let cs = int_seps(self.b());
//@| assert forall|i: int| mid <= i < n implies lex_le(target@, #[trigger] cs[i]) by {
//@|     if mid < i { assert(lex_le(cs[mid as int], cs[i])); }
//@|     lemma_lex_irrefl(cs[mid as int]);
//@|     lemma_lex_trans(target@, cs[mid as int], cs[i]);
//@| }
//@end
}

// ================================================================== page updates
//@trusted v_copy_within: `buf.copy_within(src..src + len, dst)` is memmove of len bytes from src to dst inside the page buffer (std panics unless both ranges lie inside the buffer: precondition)
#[verifier::external_body]
pub fn v_copy_within(buf: &mut [u8; PAGE_SIZE], src: usize, src_end: usize, dst: usize)
    requires src <= src_end <= 8192, dst + (src_end - src) <= 8192
    ensures final(buf)@.len() == 8192,
        final(buf)@.subrange(dst as int, dst + (src_end - src)) == old(buf)@.subrange(src as int, src_end as int),
        forall|j: int| 0 <= j < 8192 && !(dst <= j < dst + (src_end - src)) ==> #[trigger] final(buf)@[j] == old(buf)@[j],
{ buf.copy_within(src..src_end, dst) }
//@trusted v_arr_range_mut: `&mut page[a..b]` is the mutable sub-slice: what is written through it lands at a..b of the page and nothing else changes (std panics unless a <= b <= 8192: precondition)
#[verifier::external_body]
pub fn v_arr_range_mut(page: &mut [u8; PAGE_SIZE], a: usize, b: usize) -> (r: &mut [u8])
    requires a <= b <= 8192
    ensures r@ == old(page)@.subrange(a as int, b as int),
        final(page)@ == old(page)@.take(a as int) + final(r)@ + old(page)@.skip(b as int),
{ &mut page[a..b] }
//@trusted v_copy_from_slice: `dst.copy_from_slice(src)` overwrites dst with src (std panics unless the lengths are equal: precondition)
#[verifier::external_body]
pub fn v_copy_from_slice(dst: &mut [u8], src: &[u8])
    requires old(dst)@.len() == src@.len()
    ensures final(dst)@ == src@
{ dst.copy_from_slice(src) }

impl<'a> Page<'a> {
//@extract nervusdb-storage/src/index/btree.rs Page::set_cell_content_begin
//@| requires v <= 65535
//@| ensures *final(final(self).buf) == *final(old(self).buf), final(self).b().len() == old(self).b().len(), final(self).b().subrange(8, 10) == le16(v as u16),
//@|     forall|j: int| 0 <= j < 8192 && !(8 <= j < 10) ==> #[trigger] final(self).b()[j] == old(self).b()[j],
//@end
//@extract nervusdb-storage/src/index/btree.rs Page::set_cell_count
//@| requires count <= 65535
//@| ensures *final(final(self).buf) == *final(old(self).buf), final(self).b().len() == old(self).b().len(), final(self).b().subrange(6, 8) == le16(count as u16),
//@|     forall|j: int| 0 <= j < 8192 && !(6 <= j < 8) ==> #[trigger] final(self).b()[j] == old(self).b()[j],
//@end
//@extract nervusdb-storage/src/index/btree.rs Page::set_right_sibling
//@| ensures *final(final(self).buf) == *final(old(self).buf), final(self).b().len() == old(self).b().len(), final(self).b().subrange(16, 24) == le64(id.0),
//@|     forall|j: int| 0 <= j < 8192 && !(16 <= j < 24) ==> #[trigger] final(self).b()[j] == old(self).b()[j],
//@end
//@extract nervusdb-storage/src/index/btree.rs Page::slot_set ret r
//@| requires pg_kind_ok(old(self).b()), pg_hdr(old(self).b()) + 2 * i + 2 <= 8192, v <= 65535,
//@| ensures *final(final(self).buf) == *final(old(self).buf), r is Ok, final(self).b().len() == 8192,
//@|     final(self).b().subrange(pg_hdr(old(self).b()) + 2 * i, pg_hdr(old(self).b()) + 2 * i + 2) == le16(v as u16),
//@|     forall|j: int| 0 <= j < 8192 && !(pg_hdr(old(self).b()) + 2 * i <= j < pg_hdr(old(self).b()) + 2 * i + 2) ==> #[trigger] final(self).b()[j] == old(self).b()[j],
//@end
//@extract nervusdb-storage/src/index/btree.rs Page::shift_slots_right ret r
//@| requires pg_kind_ok(old(self).b()), pg_hdr(old(self).b()) + 2 * pg_count(old(self).b()) + 2 <= 8192,
//@| ensures *final(final(self).buf) == *final(old(self).buf), r is Ok <==> idx <= pg_count(old(self).b()), final(self).b().len() == 8192,
//@|     r is Err ==> final(self).b() == old(self).b(),
//@|     r is Ok ==> ({ let h = pg_hdr(old(self).b()); let c = pg_count(old(self).b());
//@|         final(self).b().subrange(h + 2 * idx + 2, h + 2 * c + 2) == old(self).b().subrange(h + 2 * idx, h + 2 * c)
//@|         && forall|j: int| 0 <= j < 8192 && !(h + 2 * idx + 2 <= j < h + 2 * c + 2) ==> #[trigger] final(self).b()[j] == old(self).b()[j] }),
//@preregex "self\.buf\.copy_within\(([^;]*?)\.\.([^;]*?),\s*([^;]*?)\);" => "v_copy_within(self.buf, \1, \2, \3);"
//@end
//@extract nervusdb-storage/src/index/btree.rs Page::shift_slots_left ret r
//@| requires pg_kind_ok(old(self).b()), pg_hdr(old(self).b()) + 2 * pg_count(old(self).b()) <= 8192,
//@| ensures *final(final(self).buf) == *final(old(self).buf), r is Ok <==> idx < pg_count(old(self).b()), final(self).b().len() == 8192,
//@|     r is Err ==> final(self).b() == old(self).b(),
//@|     r is Ok ==> ({ let h = pg_hdr(old(self).b()); let c = pg_count(old(self).b());
//@|         final(self).b().subrange(h + 2 * idx, h + 2 * c - 2) == old(self).b().subrange(h + 2 * idx + 2, h + 2 * c)
//@|         && forall|j: int| 0 <= j < 8192 && !(h + 2 * idx <= j < h + 2 * c - 2) ==> #[trigger] final(self).b()[j] == old(self).b()[j] }),
//@preregex "self\.buf\.copy_within\(([^;]*?)\.\.([^;]*?),\s*([^;]*?)\);" => "v_copy_within(self.buf, \1, \2, \3);"
//@end
}

// ================================================================== view lemmas for page updates
/// bytes from `off` on unchanged  ==>  the leaf cell at `off` reads the same
pub proof fn lemma_cell_frame(b0: Seq<u8>, b1: Seq<u8>, off: int)
    requires b0.len() == 8192, b1.len() == 8192, 0 <= off < 8192, forall|j: int| off <= j < 8192 ==> b1[j] == b0[j],
    ensures lc_ok(b1, off) == lc_ok(b0, off), lc_vlen(b1, off) == lc_vlen(b0, off), lc_klen(b1, off) == lc_klen(b0, off),
        lc_ok(b0, off) ==> lc_key(b1, off) == lc_key(b0, off) && lc_payload(b1, off) == lc_payload(b0, off),
{
    assert(b1.skip(off) =~= b0.skip(off));
    if lc_ok(b0, off) {
        axiom_vdec_bounds(b0.skip(off));
        assert(lc_key(b1, off) =~= lc_key(b0, off));
        assert(b1.subrange(lc_end(b0, off) - 8, lc_end(b0, off)) =~= b0.subrange(lc_end(b0, off) - 8, lc_end(b0, off)));
    }
}
/// the two slot bytes unchanged (and the kind byte)  ==>  the slot reads the same
pub proof fn lemma_slot_same(b0: Seq<u8>, b1: Seq<u8>, i: int, k: int)
    requires b0.len() == 8192, b1.len() == 8192, b1[4] == b0[4], 0 <= i, 0 <= k, pg_hdr(b0) + 2 * i + 2 <= 8192, pg_hdr(b0) + 2 * k + 2 <= 8192,
        b1[pg_hdr(b0) + 2 * i] == b0[pg_hdr(b0) + 2 * k], b1[pg_hdr(b0) + 2 * i + 1] == b0[pg_hdr(b0) + 2 * k + 1],
    ensures pg_slot(b1, i) == pg_slot(b0, k),
{
    let h = pg_hdr(b0);
    assert(b1.subrange(h + 2 * i, h + 2 * i + 2) =~= b0.subrange(h + 2 * k, h + 2 * k + 2));
}

/// C26.page.delete.view — removing slot `idx` (slots shifted left, count decremented) removes exactly
/// entry `idx` of the abstract view and keeps the page well formed.
pub proof fn lemma_delete_view(b0: Seq<u8>, b1: Seq<u8>, b2: Seq<u8>, idx: int)
    requires leaf_wf(b0), 0 <= idx < pg_count(b0), b1.len() == 8192, b2.len() == 8192,
        b1.subrange(24 + 2 * idx, 24 + 2 * pg_count(b0) - 2) == b0.subrange(24 + 2 * idx + 2, 24 + 2 * pg_count(b0)),
        forall|j: int| 0 <= j < 8192 && !(24 + 2 * idx <= j < 24 + 2 * pg_count(b0) - 2) ==> #[trigger] b1[j] == b0[j],
        b2.subrange(6, 8) == le16((pg_count(b0) - 1) as u16),
        forall|j: int| 0 <= j < 8192 && !(6 <= j < 8) ==> #[trigger] b2[j] == b1[j],
    ensures leaf_wf(b2), leaf_cells(b2) == leaf_cells(b0).remove(idx),
{
    let c = pg_count(b0);
    lemma_le16_len((c - 1) as u16);
    assert(b2.subrange(0, 4) =~= b0.subrange(0, 4));
    assert(b2.subrange(8, 10) =~= b0.subrange(8, 10));
    assert(pg_count(b2) == c - 1);
    assert(pg_begin(b2) == pg_begin(b0));
    assert forall|i: int| 0 <= i < c - 1 implies
        pg_slot(b2, i) == pg_slot(b0, if i < idx { i } else { i + 1 }) by {
        let k = if i < idx { i } else { i + 1 };
        if i >= idx {
            let x = b1.subrange(24 + 2 * idx, 24 + 2 * c - 2); let y = b0.subrange(24 + 2 * idx + 2, 24 + 2 * c);
            assert(x[2 * (i - idx)] == y[2 * (i - idx)]);
            assert(x[2 * (i - idx) + 1] == y[2 * (i - idx) + 1]);
        }
        lemma_slot_same(b0, b2, i, k);
    }
    assert forall|i: int| 0 <= i < pg_count(b2) implies pg_begin(b2) <= #[trigger] pg_slot(b2, i) && lc_ok(b2, pg_slot(b2, i)) by {
        let k = if i < idx { i } else { i + 1 };
        assert(pg_begin(b0) <= pg_slot(b0, k) && lc_ok(b0, pg_slot(b0, k)));
        lemma_cell_frame(b0, b2, pg_slot(b0, k));
    }
    assert forall|i: int| 0 <= i < c - 1 implies #[trigger] leaf_cells(b2)[i] == leaf_cells(b0).remove(idx)[i] by {
        let k = if i < idx { i } else { i + 1 };
        assert(pg_begin(b0) <= pg_slot(b0, k) && lc_ok(b0, pg_slot(b0, k)));
        lemma_cell_frame(b0, b2, pg_slot(b0, k));
    }
    assert(leaf_cells(b2) =~= leaf_cells(b0).remove(idx));
}

impl<'a> Page<'a> {
// C26.page.delete_from_leaf.spec — whole view, not just the touched cell.
//@extract nervusdb-storage/src/index/btree.rs Page::delete_from_leaf ret r
//@| requires leaf_wf(old(self).b()),
//@| ensures *final(final(self).buf) == *final(old(self).buf), r is Ok <==> idx < pg_count(old(self).b()),
//@|     r is Err ==> final(self).b() == old(self).b(),
//@|     r is Ok ==> leaf_wf(final(self).b()) && leaf_cells(final(self).b()) == leaf_cells(old(self).b()).remove(idx as int),
//@proof after 1 "self.shift_slots_left(" raw
//@| let ghost b1 = self.b();
//@proof before 1 "=Ok(())"
//@| lemma_delete_view(old(self).b(), b1, self.b(), idx as int);
//@end
}

/// C26.page.insert.view — the byte-level effect of leaf_insert_at (new cell written just below the old
/// content area, slots from idx shifted right, slot idx pointing at the new cell, count + 1) inserts
/// exactly the entry (key, payload) at position idx of the abstract view and keeps the page well formed.
pub proof fn lemma_insert_view(b0: Seq<u8>, b: Seq<u8>, idx: int, key: Seq<u8>, payload: u64)
    requires leaf_wf(b0), 0 <= idx <= pg_count(b0), key.len() <= u32::MAX, b.len() == 8192,
        24 + 2 * pg_count(b0) + 2 + vlen(key.len() as u32) + key.len() + 8 <= pg_begin(b0),
        forall|j: int| (0 <= j < 6 || 10 <= j < 24 + 2 * idx || pg_begin(b0) <= j < 8192) ==> #[trigger] b[j] == b0[j],
        b.subrange(6, 8) == le16((pg_count(b0) + 1) as u16),
        b.subrange(8, 10) == le16((pg_begin(b0) - (vlen(key.len() as u32) + key.len() + 8)) as u16),
        b.subrange(24 + 2 * idx, 24 + 2 * idx + 2) == le16((pg_begin(b0) - (vlen(key.len() as u32) + key.len() + 8)) as u16),
        b.subrange(24 + 2 * idx + 2, 24 + 2 * pg_count(b0) + 2) == b0.subrange(24 + 2 * idx, 24 + 2 * pg_count(b0)),
        b.subrange(pg_begin(b0) - (vlen(key.len() as u32) + key.len() + 8), pg_begin(b0)) == venc(key.len() as u32) + key + le64(payload),
    ensures leaf_wf(b), leaf_cells(b) == leaf_cells(b0).insert(idx, (key, payload)),
        pg_count(b) == pg_count(b0) + 1, pg_begin(b) == pg_begin(b0) - (vlen(key.len() as u32) + key.len() + 8),
{
    let c = pg_count(b0);
    let bg = pg_begin(b0);
    let kl = key.len() as u32;
    let vl = vlen(kl);
    let co = bg - (vl + key.len() + 8);
    lemma_le16_len((c + 1) as u16);
    lemma_le16_len(co as u16);
    lemma_venc_len(kl);
    lemma_le64_len(payload);
    assert(b.subrange(0, 4) =~= b0.subrange(0, 4));
    assert(pg_count(b) == c + 1);
    assert(pg_begin(b) == co);
    // the new cell
    let cell = venc(kl) + key + le64(payload);
    assert(b.skip(co) =~= venc(kl) + (key + le64(payload) + b.skip(bg))) by {
        let x = b.subrange(co, bg);
        assert forall|j: int| 0 <= j < 8192 - co implies #[trigger] b.skip(co)[j] == (venc(kl) + (key + le64(payload) + b.skip(bg)))[j] by {
            if j < bg - co { assert(x[j] == cell[j]); }
        }
    }
    axiom_vdec_roundtrip(kl, key + le64(payload) + b.skip(bg));
    assert(lc_vlen(b, co) == vl && lc_klen(b, co) == key.len());
    assert(lc_end(b, co) == bg);
    assert(lc_key(b, co) =~= key) by {
        let x = b.subrange(co, bg);
        assert forall|j: int| 0 <= j < key.len() implies #[trigger] lc_key(b, co)[j] == key[j] by { assert(x[vl + j] == cell[vl + j]); }
    }
    assert(b.subrange(bg - 8, bg) =~= le64(payload)) by {
        let x = b.subrange(co, bg);
        assert forall|j: int| 0 <= j < 8 implies #[trigger] b.subrange(bg - 8, bg)[j] == le64(payload)[j] by { assert(x[vl + key.len() + j] == cell[vl + key.len() + j]); }
    }
    assert(lc_payload(b, co) == payload);
    // the slots
    assert(pg_slot(b, idx) == co);
    assert forall|i: int| 0 <= i < c + 1 && i != idx implies pg_slot(b, i) == pg_slot(b0, if i < idx { i } else { i - 1 }) by {
        let k = if i < idx { i } else { i - 1 };
        if i > idx {
            let x = b.subrange(24 + 2 * idx + 2, 24 + 2 * c + 2); let y = b0.subrange(24 + 2 * idx, 24 + 2 * c);
            assert(x[2 * (i - idx - 1)] == y[2 * (i - idx - 1)]);
            assert(x[2 * (i - idx - 1) + 1] == y[2 * (i - idx - 1) + 1]);
        }
        lemma_slot_same(b0, b, i, k);
    }
    assert forall|i: int| 0 <= i < pg_count(b) implies pg_begin(b) <= #[trigger] pg_slot(b, i) && lc_ok(b, pg_slot(b, i)) by {
        if i != idx {
            let k = if i < idx { i } else { i - 1 };
            assert(pg_begin(b0) <= pg_slot(b0, k) && lc_ok(b0, pg_slot(b0, k)));
            lemma_cell_frame(b0, b, pg_slot(b0, k));
        }
    }
    assert forall|i: int| 0 <= i < c + 1 implies #[trigger] leaf_cells(b)[i] == leaf_cells(b0).insert(idx, (key, payload))[i] by {
        if i != idx {
            let k = if i < idx { i } else { i - 1 };
            assert(pg_begin(b0) <= pg_slot(b0, k) && lc_ok(b0, pg_slot(b0, k)));
            lemma_cell_frame(b0, b, pg_slot(b0, k));
        }
    }
    assert(leaf_cells(b) =~= leaf_cells(b0).insert(idx, (key, payload)));
}

impl<'a> Page<'a> {
// C26.page.leaf_insert_at.spec — whole view: Ok inserts exactly (key, payload) at idx and keeps the page
// well formed; Err leaves the page bytes unchanged; it succeeds exactly when the position is valid and
// the cell and its slot fit into the free space.
//@extract nervusdb-storage/src/index/btree.rs Page::leaf_insert_at ret r
//@| requires leaf_wf(old(self).b()), key@.len() <= 0x7fff_ffff_ffff_ffff,
//@| ensures *final(final(self).buf) == *final(old(self).buf), r is Err ==> final(self).b() == old(self).b(),
//@|     r is Ok ==> leaf_wf(final(self).b()) && leaf_cells(final(self).b()) == leaf_cells(old(self).b()).insert(idx as int, (key@, payload)),
//@|     // the cell goes directly below the old content area; the sibling link is not touched
//@|     r is Ok ==> pg_begin(final(self).b()) == pg_begin(old(self).b()) - (vlen(key@.len() as u32) + key@.len() + 8)
//@|         && final(self).b().subrange(16, 24) == old(self).b().subrange(16, 24),
//@|     r is Ok <==> key@.len() <= u32::MAX && idx <= pg_count(old(self).b())
//@|         && 24 + 2 * pg_count(old(self).b()) + 2 + vlen(key@.len() as u32) + key@.len() + 8 <= pg_begin(old(self).b()),
//@prewrite "&mut self.buf[cell_off..cell_off + var_len]" => "v_arr_range_mut(self.buf, cell_off, cell_off + var_len)"
//@prewrite "self.buf[key_start..key_start + key.len()].copy_from_slice(key);" => "v_copy_from_slice(v_arr_range_mut(self.buf, key_start, key_start + key.len()), key);"
//@prewrite "debug_assert_eq!(wrote, var_len);" => "assert(wrote == var_len);"
//@proof after 1 "self.set_cell_content_begin(" raw
//@| let ghost s1 = self.b();
//@proof before 1 "let key_start = cell_off + var_len;" raw
//@| let ghost s2 = self.b();
//@| proof {
//@|     lemma_venc_len(key_len);
//@|     assert(s2.subrange(cell_off as int, cell_off + var_len) =~= venc(key_len));
//@|     assert forall|j: int| 0 <= j < 8192 && !(cell_off <= j < cell_off + var_len) implies #[trigger] s2[j] == s1[j] by {}
//@| }
//@proof before 1 "write_u64_le(self.buf," raw
//@| let ghost s3 = self.b();
//@| proof {
//@|     assert(s3.subrange(key_start as int, key_start + key@.len()) =~= key@);
//@|     assert forall|j: int| 0 <= j < 8192 && !(key_start <= j < key_start + key@.len()) implies #[trigger] s3[j] == s2[j] by {}
//@| }
//@proof before 1 "self.shift_slots_right(" raw
//@| let ghost s4 = self.b();
//@| proof {
//@|     assert(pg_kind_ok(s4)) by { assert(s4.subrange(0, 4) =~= old(self).b().subrange(0, 4)); }
//@|     assert(pg_count(s4) == count) by { assert(s4.subrange(6, 8) =~= old(self).b().subrange(6, 8)); }
//@| }
//@proof before 1 "self.slot_set(" raw
//@| let ghost s5 = self.b();
//@| proof { assert(pg_kind_ok(s5)) by { assert(s5.subrange(0, 4) =~= old(self).b().subrange(0, 4)); } }
//@proof before 1 "self.set_cell_count(" raw
//@| let ghost s6 = self.b();
//@proof before 1 "=Ok(())"
//@| let b0 = old(self).b(); let b = self.b(); let bg = pg_begin(b0);
//@| lemma_le64_len(payload);
//@| assert(b.subrange(8, 10) =~= s1.subrange(8, 10));
//@| assert(b.subrange(24 + 2 * idx, 24 + 2 * idx + 2) =~= s6.subrange(24 + 2 * idx, 24 + 2 * idx + 2));
//@| assert(b.subrange(24 + 2 * idx + 2, 24 + 2 * count + 2) =~= b0.subrange(24 + 2 * idx, 24 + 2 * count)) by {
//@|     let x = s5.subrange(24 + 2 * idx + 2, 24 + 2 * count + 2); let y = s4.subrange(24 + 2 * idx, 24 + 2 * count);
//@|     assert forall|j: int| 0 <= j < 2 * (count - idx) implies #[trigger] b.subrange(24 + 2 * idx + 2, 24 + 2 * count + 2)[j] == b0.subrange(24 + 2 * idx, 24 + 2 * count)[j] by {
//@|         assert(x[j] == y[j]);
//@|     }
//@| }
//@| assert(b.subrange(cell_off as int, bg) =~= venc(key_len) + key@ + le64(payload)) by {
//@|     let v = s2.subrange(cell_off as int, cell_off + var_len); let k = s3.subrange(key_start as int, key_start + key@.len());
//@|     let p = s4.subrange(key_start + key@.len(), key_start + key@.len() + 8);
//@|     assert forall|j: int| 0 <= j < bg - cell_off implies #[trigger] b.subrange(cell_off as int, bg)[j] == (venc(key_len) + key@ + le64(payload))[j] by {
//@|         if j < var_len { assert(v[j] == venc(key_len)[j]); }
//@|         else if j < var_len + key@.len() { assert(k[j - var_len] == key@[j - var_len]); }
//@|         else { assert(p[j - var_len - key@.len()] == le64(payload)[j - var_len - key@.len()]); }
//@|     }
//@| }
//@| lemma_insert_view(b0, b, idx as int, key@, payload);
//@| assert(b.subrange(16, 24) =~= b0.subrange(16, 24));
//@end
}

//@trusted v_fill: `buf.fill(x)` sets every byte of the page buffer to x (std)
#[verifier::external_body]
pub fn v_fill(buf: &mut [u8; PAGE_SIZE], x: u8)
    ensures final(buf)@.len() == 8192, forall|j: int| 0 <= j < 8192 ==> #[trigger] final(buf)@[j] == x
{ buf.fill(x) }

impl<'a> Page<'a> {
// C26.page.init_leaf.spec — a fresh leaf is well formed, empty, and has no right sibling.
//@extract nervusdb-storage/src/index/btree.rs Page::init_leaf
//@| ensures *final(final(self).buf) == *final(old(self).buf), leaf_wf(final(self).b()), pg_count(final(self).b()) == 0, leaf_cells(final(self).b()) =~= Seq::<(Seq<u8>, u64)>::empty(),
//@|     from_le64(final(self).b().subrange(16, 24)) == 0, pg_begin(final(self).b()) == 8192,
//@prewrite "self.buf.fill(0);" => "v_fill(self.buf, 0);"
//@prewrite "self.buf[OFF_MAGIC..OFF_MAGIC + 4].copy_from_slice(&MAGIC);" => "v_slice_write(self.buf, OFF_MAGIC, &MAGIC);"
//@proof before 1 "=}"
//@| let b = self.b();
//@| lemma_le16_len(0u16); lemma_le16_len(8192u16); lemma_le64_len(0u64);
//@| assert(b.subrange(0, 4) =~= magic4());
//@end
}

impl<'a> Page<'a> {
// C26.page.init_internal.spec — a fresh internal page is well formed, has no separators and the given leftmost child.
//@extract nervusdb-storage/src/index/btree.rs Page::init_internal
//@| ensures *final(final(self).buf) == *final(old(self).buf), internal_wf(final(self).b()), pg_count(final(self).b()) == 0, pg_begin(final(self).b()) == 8192,
//@|     int_child(final(self).b(), 0) == leftmost_child.0,
//@prewrite "self.buf.fill(0);" => "v_fill(self.buf, 0);"
//@prewrite "self.buf[OFF_MAGIC..OFF_MAGIC + 4].copy_from_slice(&MAGIC);" => "v_slice_write(self.buf, OFF_MAGIC, &MAGIC);"
//@proof before 1 "=}"
//@| let b = self.b();
//@| lemma_le16_len(0u16); lemma_le16_len(8192u16); lemma_le64_len(0u64); lemma_le64_len(leftmost_child.0);
//@| assert(b.subrange(0, 4) =~= magic4());
//@end
}

// ================================================================== leaf-level laws over the abstract view
/// C26.leaf.insert_keeps_key_order — inserting at the position `leaf_lower_bound` returns keeps the keys
/// in order and puts the new entry in front of every entry with an equal key, so that the lower bound of
/// that key is the new entry: a lookup returns the most recently inserted payload (within one leaf).
pub proof fn lemma_insert_at_lower_bound(cells: Seq<(Seq<u8>, u64)>, r: int, key: Seq<u8>, payload: u64)
    requires keys_sorted(cells), 0 <= r <= cells.len(),
        forall|i: int| 0 <= i < r ==> lex_lt(#[trigger] cells[i].0, key),
        forall|i: int| r <= i < cells.len() ==> lex_le(key, #[trigger] cells[i].0),
    ensures keys_sorted(cells.insert(r, (key, payload))),
        cells.insert(r, (key, payload))[r] == (key, payload),
        forall|i: int| 0 <= i < r ==> lex_lt(#[trigger] cells.insert(r, (key, payload))[i].0, key),
        forall|i: int| r <= i < cells.len() + 1 ==> lex_le(key, #[trigger] cells.insert(r, (key, payload))[i].0),
{
    let c2 = cells.insert(r, (key, payload));
    lemma_lex_irrefl(key);
    assert forall|i: int, j: int| 0 <= i < j < c2.len() implies lex_le(#[trigger] c2[i].0, #[trigger] c2[j].0) by {
        if j < r { assert(lex_le(cells[i].0, cells[j].0)); }
        else if j == r { lemma_lex_total(cells[i].0, key); }
        else if i < r { lemma_lex_trans(cells[i].0, key, cells[j - 1].0); lemma_lex_total(cells[i].0, cells[j - 1].0); }
        else if i == r { }
        else { assert(lex_le(cells[i - 1].0, cells[j - 1].0)); }
    }
}
/// C26.leaf.delete_keeps_key_order — removing an entry keeps the others in order.
pub proof fn lemma_remove_keeps_sorted(cells: Seq<(Seq<u8>, u64)>, idx: int)
    requires keys_sorted(cells), 0 <= idx < cells.len(),
    ensures keys_sorted(cells.remove(idx)),
{
    let c2 = cells.remove(idx);
    assert forall|i: int, j: int| 0 <= i < j < c2.len() implies lex_le(#[trigger] c2[i].0, #[trigger] c2[j].0) by {
        let i0 = if i < idx { i } else { i + 1 }; let j0 = if j < idx { j } else { j + 1 };
        assert(lex_le(cells[i0].0, cells[j0].0));
    }
}

// ================================================================== internal page updates
pub open spec fn int_children(b: Seq<u8>) -> Seq<u64> { Seq::new(pg_count(b) as nat, |i: int| ic_child(b, pg_slot(b, i))) }

pub proof fn lemma_icell_frame(b0: Seq<u8>, b1: Seq<u8>, off: int)
    requires b0.len() == 8192, b1.len() == 8192, 0 <= off, off + 8 < 8192, forall|j: int| off <= j < 8192 ==> b1[j] == b0[j],
    ensures ic_ok(b1, off) == ic_ok(b0, off), ic_vlen(b1, off) == ic_vlen(b0, off), ic_klen(b1, off) == ic_klen(b0, off),
        ic_ok(b0, off) ==> ic_key(b1, off) == ic_key(b0, off) && ic_child(b1, off) == ic_child(b0, off),
{
    if off + 8 < 8192 {
        assert(b1.skip(off + 8) =~= b0.skip(off + 8));
        if ic_ok(b0, off) {
            axiom_vdec_bounds(b0.skip(off + 8));
            assert(ic_key(b1, off) =~= ic_key(b0, off));
            assert(b1.subrange(off, off + 8) =~= b0.subrange(off, off + 8));
        }
    }
}

/// C26.page.internal_insert.view — separator `key` with right child `child` is inserted at cell position idx;
/// every other separator/child and the leftmost child are unchanged.
pub proof fn lemma_internal_insert_view(b0: Seq<u8>, b: Seq<u8>, idx: int, key: Seq<u8>, child: u64)
    requires internal_wf(b0), 0 <= idx <= pg_count(b0), key.len() <= u32::MAX, b.len() == 8192,
        32 + 2 * pg_count(b0) + 2 + 8 + vlen(key.len() as u32) + key.len() <= pg_begin(b0),
        forall|j: int| (0 <= j < 6 || 10 <= j < 32 + 2 * idx || pg_begin(b0) <= j < 8192) ==> #[trigger] b[j] == b0[j],
        b.subrange(6, 8) == le16((pg_count(b0) + 1) as u16),
        b.subrange(8, 10) == le16((pg_begin(b0) - (8 + vlen(key.len() as u32) + key.len())) as u16),
        b.subrange(32 + 2 * idx, 32 + 2 * idx + 2) == le16((pg_begin(b0) - (8 + vlen(key.len() as u32) + key.len())) as u16),
        b.subrange(32 + 2 * idx + 2, 32 + 2 * pg_count(b0) + 2) == b0.subrange(32 + 2 * idx, 32 + 2 * pg_count(b0)),
        b.subrange(pg_begin(b0) - (8 + vlen(key.len() as u32) + key.len()), pg_begin(b0)) == le64(child) + venc(key.len() as u32) + key,
    ensures internal_wf(b), int_seps(b) == int_seps(b0).insert(idx, key), int_children(b) == int_children(b0).insert(idx, child),
        int_child(b, 0) == int_child(b0, 0),
        pg_count(b) == pg_count(b0) + 1, pg_begin(b) == pg_begin(b0) - (8 + vlen(key.len() as u32) + key.len()),
{
    let c = pg_count(b0);
    let bg = pg_begin(b0);
    let kl = key.len() as u32;
    let vl = vlen(kl);
    let co = bg - (8 + vl + key.len());
    lemma_le16_len((c + 1) as u16);
    lemma_le16_len(co as u16);
    lemma_venc_len(kl);
    lemma_le64_len(child);
    assert(b.subrange(0, 4) =~= b0.subrange(0, 4));
    assert(b.subrange(24, 32) =~= b0.subrange(24, 32));
    assert(pg_count(b) == c + 1);
    assert(pg_begin(b) == co);
    let cell = le64(child) + venc(kl) + key;
    let x = b.subrange(co, bg);
    assert(b.skip(co + 8) =~= venc(kl) + (key + b.skip(bg))) by {
        assert forall|j: int| 0 <= j < 8192 - co - 8 implies #[trigger] b.skip(co + 8)[j] == (venc(kl) + (key + b.skip(bg)))[j] by {
            if j < bg - co - 8 { assert(x[8 + j] == cell[8 + j]); }
        }
    }
    axiom_vdec_roundtrip(kl, key + b.skip(bg));
    assert(ic_vlen(b, co) == vl && ic_klen(b, co) == key.len());
    assert(ic_end(b, co) == bg);
    assert(ic_key(b, co) =~= key) by {
        assert forall|j: int| 0 <= j < key.len() implies #[trigger] ic_key(b, co)[j] == key[j] by { assert(x[8 + vl + j] == cell[8 + vl + j]); }
    }
    assert(b.subrange(co, co + 8) =~= le64(child)) by {
        assert forall|j: int| 0 <= j < 8 implies #[trigger] b.subrange(co, co + 8)[j] == le64(child)[j] by { assert(x[j] == cell[j]); }
    }
    assert(ic_child(b, co) == child);
    assert(pg_slot(b, idx) == co);
    assert forall|i: int| 0 <= i < c + 1 && i != idx implies pg_slot(b, i) == pg_slot(b0, if i < idx { i } else { i - 1 }) by {
        let k = if i < idx { i } else { i - 1 };
        if i > idx {
            let xs = b.subrange(32 + 2 * idx + 2, 32 + 2 * c + 2); let ys = b0.subrange(32 + 2 * idx, 32 + 2 * c);
            assert(xs[2 * (i - idx - 1)] == ys[2 * (i - idx - 1)]);
            assert(xs[2 * (i - idx - 1) + 1] == ys[2 * (i - idx - 1) + 1]);
        }
        lemma_slot_same(b0, b, i, k);
    }
    assert forall|i: int| 0 <= i < pg_count(b) implies pg_begin(b) <= #[trigger] pg_slot(b, i) && ic_ok(b, pg_slot(b, i)) by {
        if i != idx {
            let k = if i < idx { i } else { i - 1 };
            assert(pg_begin(b0) <= pg_slot(b0, k) && ic_ok(b0, pg_slot(b0, k)));
            lemma_icell_frame(b0, b, pg_slot(b0, k));
        }
    }
    assert forall|i: int| 0 <= i < c + 1 implies #[trigger] int_seps(b)[i] == int_seps(b0).insert(idx, key)[i] by {
        if i != idx {
            let k = if i < idx { i } else { i - 1 };
            assert(pg_begin(b0) <= pg_slot(b0, k) && ic_ok(b0, pg_slot(b0, k)));
            lemma_icell_frame(b0, b, pg_slot(b0, k));
        }
    }
    assert forall|i: int| 0 <= i < c + 1 implies #[trigger] int_children(b)[i] == int_children(b0).insert(idx, child)[i] by {
        if i != idx {
            let k = if i < idx { i } else { i - 1 };
            assert(pg_begin(b0) <= pg_slot(b0, k) && ic_ok(b0, pg_slot(b0, k)));
            lemma_icell_frame(b0, b, pg_slot(b0, k));
        }
    }
    assert(int_seps(b) =~= int_seps(b0).insert(idx, key));
    assert(int_children(b) =~= int_children(b0).insert(idx, child));
}

impl<'a> Page<'a> {
// C26.page.internal_insert_at.spec — whole view, like leaf_insert_at.
//@extract nervusdb-storage/src/index/btree.rs Page::internal_insert_at ret r
//@| requires internal_wf(old(self).b()), key@.len() <= 0x7fff_ffff_ffff_ffff,
//@| ensures *final(final(self).buf) == *final(old(self).buf), r is Err ==> final(self).b() == old(self).b(),
//@|     r is Ok ==> internal_wf(final(self).b()) && int_seps(final(self).b()) == int_seps(old(self).b()).insert(idx as int, key@)
//@|         && int_children(final(self).b()) == int_children(old(self).b()).insert(idx as int, right_child.0)
//@|         && int_child(final(self).b(), 0) == int_child(old(self).b(), 0)
//@|         && pg_begin(final(self).b()) == pg_begin(old(self).b()) - (8 + vlen(key@.len() as u32) + key@.len()),
//@|     r is Ok <==> key@.len() <= u32::MAX && idx <= pg_count(old(self).b())
//@|         && 32 + 2 * pg_count(old(self).b()) + 2 + 8 + vlen(key@.len() as u32) + key@.len() <= pg_begin(old(self).b()),
//@prewrite "&mut self.buf[cell_off + 8..cell_off + 8 + var_len]" => "v_arr_range_mut(self.buf, cell_off + 8, cell_off + 8 + var_len)"
//@prewrite "self.buf[key_start..key_start + key.len()].copy_from_slice(key);" => "v_copy_from_slice(v_arr_range_mut(self.buf, key_start, key_start + key.len()), key);"
//@prewrite "debug_assert_eq!(wrote, var_len);" => "assert(wrote == var_len);"
//@proof after 1 "self.set_cell_content_begin(" raw
//@| let ghost s1 = self.b();
//@proof before 1 "let wrote = write_varint_u32(" raw
//@| let ghost s1b = self.b();
//@proof before 1 "let key_start = cell_off + 8 + var_len;" raw
//@| let ghost s2 = self.b();
//@| proof {
//@|     lemma_venc_len(key_len);
//@|     assert(s2.subrange(cell_off + 8, cell_off + 8 + var_len) =~= venc(key_len));
//@|     assert forall|j: int| 0 <= j < 8192 && !(cell_off + 8 <= j < cell_off + 8 + var_len) implies #[trigger] s2[j] == s1b[j] by {}
//@| }
//@proof before 1 "self.shift_slots_right(" raw
//@| let ghost s4 = self.b();
//@| proof {
//@|     assert(s4.subrange(key_start as int, key_start + key@.len()) =~= key@);
//@|     assert forall|j: int| 0 <= j < 8192 && !(key_start <= j < key_start + key@.len()) implies #[trigger] s4[j] == s2[j] by {}
//@|     assert(pg_kind_ok(s4)) by { assert(s4.subrange(0, 4) =~= old(self).b().subrange(0, 4)); }
//@|     assert(pg_count(s4) == count) by { assert(s4.subrange(6, 8) =~= old(self).b().subrange(6, 8)); }
//@| }
//@proof before 1 "self.slot_set(" raw
//@| let ghost s5 = self.b();
//@| proof { assert(pg_kind_ok(s5)) by { assert(s5.subrange(0, 4) =~= old(self).b().subrange(0, 4)); } }
//@proof before 1 "self.set_cell_count(" raw
//@| let ghost s6 = self.b();
//@proof before 1 "=Ok(())"
//@| let b0 = old(self).b(); let b = self.b(); let bg = pg_begin(b0);
//@| lemma_le64_len(right_child.0);
//@| assert(b.subrange(8, 10) =~= s1.subrange(8, 10));
//@| assert(b.subrange(32 + 2 * idx, 32 + 2 * idx + 2) =~= s6.subrange(32 + 2 * idx, 32 + 2 * idx + 2));
//@| assert(b.subrange(32 + 2 * idx + 2, 32 + 2 * count + 2) =~= b0.subrange(32 + 2 * idx, 32 + 2 * count)) by {
//@|     let x = s5.subrange(32 + 2 * idx + 2, 32 + 2 * count + 2); let y = s4.subrange(32 + 2 * idx, 32 + 2 * count);
//@|     assert forall|j: int| 0 <= j < 2 * (count - idx) implies #[trigger] b.subrange(32 + 2 * idx + 2, 32 + 2 * count + 2)[j] == b0.subrange(32 + 2 * idx, 32 + 2 * count)[j] by {
//@|         assert(x[j] == y[j]);
//@|     }
//@| }
//@| assert(b.subrange(cell_off as int, bg) =~= le64(right_child.0) + venc(key_len) + key@) by {
//@|     let c8 = s1b.subrange(cell_off as int, cell_off + 8);
//@|     let v = s2.subrange(cell_off + 8, cell_off + 8 + var_len); let k = s4.subrange(key_start as int, key_start + key@.len());
//@|     assert forall|j: int| 0 <= j < bg - cell_off implies #[trigger] b.subrange(cell_off as int, bg)[j] == (le64(right_child.0) + venc(key_len) + key@)[j] by {
//@|         if j < 8 { assert(c8[j] == le64(right_child.0)[j]); }
//@|         else if j < 8 + var_len { assert(v[j - 8] == venc(key_len)[j - 8]); }
//@|         else { assert(k[j - 8 - var_len] == key@[j - 8 - var_len]); }
//@|     }
//@| }
//@| lemma_internal_insert_view(b0, b, idx as int, key@, right_child.0);
//@end
}

// ================================================================== tree level: BTree::delete over an abstract page store
#[verifier::external_body]
pub struct Pager { _p: core::marker::PhantomData<u8> }
/// stored content of page `id` (the page-store view of unit c18_pager: Pager::page)
pub uninterp spec fn pg(p: &Pager, id: u64) -> Seq<u8>;
/// page `id` is allocated (unit c18_pager: Pager::alloc)
pub uninterp spec fn live(p: &Pager, id: u64) -> bool;
impl Pager {
    //@trusted Pager::read_page: contract proved from the real body in unit c18_pager (a successful read returns the stored content of that page, and only allocated pages can be read)
    #[verifier::external_body]
    pub fn read_page(&self, page_id: PageId) -> (r: Result<[u8; PAGE_SIZE]>)
        ensures r is Ok ==> r->Ok_0@ == pg(self, page_id.0) && 2 <= page_id.0 < 65536 && live(self, page_id.0)
    { unimplemented!() }
    //@trusted Pager::write_page: contract proved from the real body in unit c18_pager (no other page changes; the allocation map does not change; on success the page holds the given bytes)
    #[verifier::external_body]
    pub fn write_page(&mut self, page_id: PageId, page: &[u8; PAGE_SIZE]) -> (r: Result<()>)
        ensures forall|o: u64| o != page_id.0 ==> #[trigger] pg(final(self), o) == pg(old(self), o),
            forall|o: u64| #[trigger] live(final(self), o) == live(old(self), o),
            r is Ok ==> pg(final(self), page_id.0) == page@,
    { unimplemented!() }
    //@trusted Pager::allocate_page: contract proved from the real body in unit c18_pager (the page handed out is a data page, 2 <= id < 65536, was free and is allocated afterwards; no other page's allocation state and no allocated page's content changes)
    #[verifier::external_body]
    pub fn allocate_page(&mut self) -> (r: Result<PageId>)
        ensures forall|o: u64| live(old(self), o) ==> #[trigger] pg(final(self), o) == pg(old(self), o),
            forall|o: u64| live(old(self), o) ==> #[trigger] live(final(self), o),
            r is Ok ==> 2 <= r->Ok_0.0 < 65536 && !live(old(self), r->Ok_0.0) && live(final(self), r->Ok_0.0) && forall|o: u64| o != r->Ok_0.0 ==> #[trigger] live(final(self), o) == live(old(self), o),
    { unimplemented!() }
}
//@item nervusdb-storage/src/index/btree.rs struct BTree
/// page-local part of the tree invariant: every index page in the store is well formed and in order
pub open spec fn tree_pages_ok(p: &Pager) -> bool {
    forall|id: u64| pg_kind_ok(#[trigger] pg(p, id)) ==>
        (pg(p, id)[4] == 0 ==> leaf_wf(pg(p, id)) && keys_sorted(leaf_cells(pg(p, id)))
            // a leaf's right sibling link, when set, points at a leaf page
            && (from_le64(pg(p, id).subrange(16, 24)) != 0 ==> pg_kind_ok(pg(p, from_le64(pg(p, id).subrange(16, 24)))) && pg(p, from_le64(pg(p, id).subrange(16, 24)))[4] == 0))
        && (pg(p, id)[4] == 1 ==> internal_wf(pg(p, id)) && seps_sorted(int_seps(pg(p, id))))
}
