// Verus unit c27_okey — C27: index key encoding preserves order and equality.
// Bodies of encode_ordered_value / encode_index_key are extracted from /repo at run time.
//@unit c27_okey
//@rlimit 50
//@property C27
use vstd::prelude::*;
use std::collections::BTreeMap;
verus! {

//@trusted usize64: the target has 64-bit usize (x86_64/aarch64; the engine's `as usize` casts are verified for 64-bit targets only)
global size_of usize == 8;

// ---------------------------------------------------------------- trusted wrappers
pub uninterp spec fn str_bytes(s: Seq<char>) -> Seq<u8>;
pub uninterp spec fn f64_bits(f: f64) -> u64;

//@trusted v_str_as_bytes: String::as_bytes yields the string's UTF-8 bytes (uninterpreted injection str_bytes)
#[verifier::external_body]
pub fn v_str_as_bytes(s: &String) -> (r: &[u8])
    ensures r@ == str_bytes(s@)
{ s.as_bytes() }

//@trusted v_str_len: String::len == number of UTF-8 bytes, and <= isize::MAX (std allocation limit)
#[verifier::external_body]
pub fn v_str_len(s: &String) -> (r: usize)
    ensures r == str_bytes(s@).len(), r <= 0x7fff_ffff_ffff_ffff
{ s.len() }

//@trusted v_f64_to_bits: f64::to_bits is the IEEE-754 bit pattern (uninterpreted here; bit-level facts are proved by Kani)
#[verifier::external_body]
pub fn v_f64_to_bits(f: f64) -> (r: u64)
    ensures r == f64_bits(f)
{ f.to_bits() }

pub open spec fn be64(x: u64) -> Seq<u8> {
    seq![
        ((x >> 56) & 0xff) as u8, ((x >> 48) & 0xff) as u8, ((x >> 40) & 0xff) as u8, ((x >> 32) & 0xff) as u8,
        ((x >> 24) & 0xff) as u8, ((x >> 16) & 0xff) as u8, ((x >> 8) & 0xff) as u8, (x & 0xff) as u8,
    ]
}
pub open spec fn be32(x: u32) -> Seq<u8> {
    seq![((x >> 24) & 0xff) as u8, ((x >> 16) & 0xff) as u8, ((x >> 8) & 0xff) as u8, (x & 0xff) as u8]
}

//@trusted v_u64_to_be_bytes: u64::to_be_bytes is the big-endian byte sequence be64
#[verifier::external_body]
pub fn v_u64_to_be_bytes(x: u64) -> (r: [u8; 8])
    ensures r@ == be64(x)
{ x.to_be_bytes() }

//@trusted v_u32_to_be_bytes: u32::to_be_bytes is the big-endian byte sequence be32
#[verifier::external_body]
pub fn v_u32_to_be_bytes(x: u32) -> (r: [u8; 4])
    ensures r@ == be32(x)
{ x.to_be_bytes() }

//@trusted v_u64_to_le_bytes: u64::to_le_bytes is the little-endian byte sequence (be64 reversed)
#[verifier::external_body]
pub fn v_u64_to_le_bytes(x: u64) -> (r: [u8; 8])
    ensures r@ == be64(x).reverse()
{ x.to_le_bytes() }
//@trusted v_u32_to_le_bytes: u32::to_le_bytes is the little-endian byte sequence (be32 reversed)
#[verifier::external_body]
pub fn v_u32_to_le_bytes(x: u32) -> (r: [u8; 4])
    ensures r@ == be32(x).reverse()
{ x.to_le_bytes() }

//@trusted v_vec_len_bound: a Vec<u8> never holds more than isize::MAX bytes (std allocation limit)
#[verifier::external_body]
pub fn v_blob_len(b: &Vec<u8>) -> (r: usize)
    ensures r == b@.len(), r <= 0x7fff_ffff_ffff_ffff
{ b.len() }

// ---------------------------------------------------------------- the value type (extracted)
//@item nervusdb-api/src/lib.rs enum PropertyValue

// ---------------------------------------------------------------- specification
/// 0x00-stuffing of a byte string (no terminator).
pub open spec fn stuff(s: Seq<u8>) -> Seq<u8>
    decreases s.len()
{
    if s.len() == 0 { Seq::<u8>::empty() }
    else if s[0] == 0 { seq![0u8, 0xFFu8] + stuff(s.skip(1)) }
    else { seq![s[0]] + stuff(s.skip(1)) }
}
pub open spec fn stuff_t(s: Seq<u8>) -> Seq<u8> { stuff(s) + seq![0u8, 0u8] }

pub open spec fn flip(i: i64) -> u64 { (i as u64) ^ 0x8000_0000_0000_0000u64 }
pub open spec fn canon0(bits: u64) -> u64 { if bits == (1u64 << 63) { 0u64 } else { bits } }
pub open spec fn fsort(bits: u64) -> u64 {
    if (bits & (1u64 << 63)) != 0 { !bits } else { bits ^ (1u64 << 63) }
}

/// The key format, written from the format comment: tag byte, then the kind's body.
pub open spec fn okey(v: PropertyValue) -> Seq<u8> {
    match v {
        PropertyValue::Null => seq![0x00u8],
        PropertyValue::Bool(b) => seq![0x01u8, if b { 1u8 } else { 0u8 }],
        PropertyValue::Int(i) => seq![0x02u8] + be64(flip(i)),
        PropertyValue::Float(f) => seq![0x03u8] + be64(fsort(canon0(f64_bits(f)))),
        PropertyValue::String(s) => seq![0x04u8] + stuff_t(str_bytes(s@)),
        PropertyValue::DateTime(i) => seq![0x05u8] + be64(flip(i)),
        PropertyValue::Blob(b) => seq![0x06u8] + stuff_t(b@),
        PropertyValue::List(_) => seq![0x07u8],
        PropertyValue::Map(_) => seq![0x08u8],
    }
}

pub open spec fn lex_lt(a: Seq<u8>, b: Seq<u8>) -> bool
    decreases a.len()
{
    if b.len() == 0 { false }
    else if a.len() == 0 { true }
    else if a[0] < b[0] { true }
    else if a[0] > b[0] { false }
    else { lex_lt(a.skip(1), b.skip(1)) }
}
pub open spec fn is_prefix(a: Seq<u8>, b: Seq<u8>) -> bool {
    a.len() <= b.len() && b.subrange(0, a.len() as int) == a
}
pub open spec fn proper_prefix(a: Seq<u8>, b: Seq<u8>) -> bool { is_prefix(a, b) && a.len() < b.len() }

// ---------------------------------------------------------------- lemmas about stuffing
pub proof fn lemma_stuff_push(a: Seq<u8>, x: u8)
    ensures stuff(a.push(x)) == stuff(a) + (if x == 0 { seq![0u8, 0xFFu8] } else { seq![x] }),
    decreases a.len()
{
    if a.len() == 0 {
        assert(a.push(x).skip(1) =~= Seq::<u8>::empty());
        assert(stuff(a.push(x).skip(1)) =~= Seq::<u8>::empty());
        assert(stuff(a.push(x)) =~= (if x == 0 { seq![0u8, 0xFFu8] } else { seq![x] }));
    } else {
        assert(a.push(x).skip(1) =~= a.skip(1).push(x));
        lemma_stuff_push(a.skip(1), x);
        assert(a.push(x)[0] == a[0]);
        if a[0] == 0 {
            assert(stuff(a.push(x)) =~= seq![0u8, 0xFFu8] + stuff(a.skip(1).push(x)));
        } else {
            assert(stuff(a.push(x)) =~= seq![a[0]] + stuff(a.skip(1).push(x)));
        }
    }
}

/// C27.okey.stuff.order — byte order of the values is the byte order of the terminated stuffings.
pub proof fn lemma_stuff_order(a: Seq<u8>, b: Seq<u8>)
    requires lex_lt(a, b),
    ensures lex_lt(stuff_t(a), stuff_t(b)),
    decreases a.len()
{
    let sa = stuff_t(a);
    let sb = stuff_t(b);
    assert(b.len() > 0);
    if a.len() == 0 {
        assert(stuff(a) =~= Seq::<u8>::empty());
        assert(sa =~= seq![0u8, 0u8]);
        // b non-empty: sb starts with b[0] != 0, or with 0x00 0xFF
        if b[0] == 0 {
            assert(sb =~= seq![0u8, 0xFFu8] + (stuff(b.skip(1)) + seq![0u8, 0u8]));
            assert(sb[0] == 0 && sb[1] == 0xFF);
            assert(sa.skip(1)[0] == 0 && sb.skip(1)[0] == 0xFF);
            assert(lex_lt(sa.skip(1), sb.skip(1)));
        } else {
            assert(sb =~= seq![b[0]] + (stuff(b.skip(1)) + seq![0u8, 0u8]));
            assert(sb[0] == b[0]);
        }
    } else if a[0] < b[0] {
        // first stuffed bytes already differ the same way (b[0] > 0)
        if a[0] == 0 {
            assert(sa =~= seq![0u8, 0xFFu8] + (stuff(a.skip(1)) + seq![0u8, 0u8]));
        } else {
            assert(sa =~= seq![a[0]] + (stuff(a.skip(1)) + seq![0u8, 0u8]));
        }
        assert(sb =~= seq![b[0]] + (stuff(b.skip(1)) + seq![0u8, 0u8]));
        assert(sa[0] == a[0] && sb[0] == b[0]);
    } else {
        assert(a[0] == b[0]);
        lemma_stuff_order(a.skip(1), b.skip(1));
        let ra = stuff_t(a.skip(1));
        let rb = stuff_t(b.skip(1));
        if a[0] == 0 {
            assert(sa =~= seq![0u8, 0xFFu8] + ra);
            assert(sb =~= seq![0u8, 0xFFu8] + rb);
            assert(sa.skip(1).skip(1) =~= ra);
            assert(sb.skip(1).skip(1) =~= rb);
            assert(sa.skip(1)[0] == 0xFF && sb.skip(1)[0] == 0xFF);
            assert(lex_lt(sa.skip(1), sb.skip(1)));
        } else {
            assert(sa =~= seq![a[0]] + ra);
            assert(sb =~= seq![b[0]] + rb);
            assert(sa.skip(1) =~= ra);
            assert(sb.skip(1) =~= rb);
        }
    }
}

/// C27.okey.stuff.prefix_free (+ injective): if one terminated stuffing is a prefix of
/// another, the two strings are equal.
pub proof fn lemma_stuff_prefix_eq(a: Seq<u8>, b: Seq<u8>)
    requires is_prefix(stuff_t(a), stuff_t(b)),
    ensures a == b,
    decreases a.len()
{
    let sa = stuff_t(a);
    let sb = stuff_t(b);
    assert(forall|i: int| 0 <= i < sa.len() ==> sa[i] == #[trigger] sb.subrange(0, sa.len() as int)[i]);
    if a.len() == 0 {
        assert(stuff(a) =~= Seq::<u8>::empty());
        assert(sa =~= seq![0u8, 0u8]);
        assert(sb.subrange(0, 2)[0] == sb[0] && sb.subrange(0, 2)[1] == sb[1]);
        if b.len() > 0 {
            if b[0] == 0 {
                assert(sb =~= seq![0u8, 0xFFu8] + stuff_t(b.skip(1)));
                assert(sb[1] == 0xFF);
                assert(false);
            } else {
                assert(sb =~= seq![b[0]] + stuff_t(b.skip(1)));
                assert(sb[0] == b[0]);
                assert(false);
            }
        }
        assert(a =~= b);
    } else {
        if a[0] == 0 {
            assert(sa =~= seq![0u8, 0xFFu8] + stuff_t(a.skip(1)));
        } else {
            assert(sa =~= seq![a[0]] + stuff_t(a.skip(1)));
        }
        assert(sa.len() >= 3);
        assert(sb.subrange(0, sa.len() as int)[0] == sb[0] && sb.subrange(0, sa.len() as int)[1] == sb[1]);
        if b.len() == 0 {
            assert(stuff(b) =~= Seq::<u8>::empty());
            assert(sb =~= seq![0u8, 0u8]);
            assert(false);
        }
        if b[0] == 0 {
            assert(sb =~= seq![0u8, 0xFFu8] + stuff_t(b.skip(1)));
        } else {
            assert(sb =~= seq![b[0]] + stuff_t(b.skip(1)));
        }
        assert(sa[0] == a[0] && sb[0] == b[0]);
        assert(a[0] == b[0]);
        let k: int = if a[0] == 0 { 2 } else { 1 };
        let ra = stuff_t(a.skip(1));
        let rb = stuff_t(b.skip(1));
        assert(sa.skip(k) =~= ra);
        assert(sb.skip(k) =~= rb);
        assert(rb.subrange(0, ra.len() as int) =~= ra) by {
            assert forall|i: int| 0 <= i < ra.len() implies rb.subrange(0, ra.len() as int)[i] == ra[i] by {
                assert(ra[i] == sa[i + k]);
                assert(rb[i] == sb[i + k]);
                assert(sb.subrange(0, sa.len() as int)[i + k] == sb[i + k]);
            }
        }
        lemma_stuff_prefix_eq(a.skip(1), b.skip(1));
        assert(a =~= seq![a[0]] + a.skip(1));
        assert(b =~= seq![b[0]] + b.skip(1));
    }
}

pub proof fn lemma_stuff_injective(a: Seq<u8>, b: Seq<u8>)
    requires stuff_t(a) == stuff_t(b),
    ensures a == b,
{
    assert(stuff_t(b).subrange(0, stuff_t(a).len() as int) =~= stuff_t(a));
    lemma_stuff_prefix_eq(a, b);
}

pub proof fn lemma_lex_prepend(p: Seq<u8>, a: Seq<u8>, b: Seq<u8>)
    requires lex_lt(a, b),
    ensures lex_lt(p + a, p + b),
    decreases p.len()
{
    if p.len() == 0 {
        assert(p + a =~= a);
        assert(p + b =~= b);
    } else {
        assert((p + a).skip(1) =~= p.skip(1) + a);
        assert((p + b).skip(1) =~= p.skip(1) + b);
        lemma_lex_prepend(p.skip(1), a, b);
    }
}

/// C27.okey.str.order / C27.okey.blob.order: for two values of the same variable-length kind.
pub proof fn lemma_okey_bytes_order(tag: u8, a: Seq<u8>, b: Seq<u8>)
    requires lex_lt(a, b),
    ensures lex_lt(seq![tag] + stuff_t(a), seq![tag] + stuff_t(b)),
{
    lemma_stuff_order(a, b);
    lemma_lex_prepend(seq![tag], stuff_t(a), stuff_t(b));
}

/// C27.okey.str.eq_iff and prefix-freedom within a variable-length kind.
pub proof fn lemma_okey_bytes_prefix_free(tag: u8, a: Seq<u8>, b: Seq<u8>)
    requires is_prefix(seq![tag] + stuff_t(a), seq![tag] + stuff_t(b)),
    ensures a == b,
{
    let x = seq![tag] + stuff_t(a);
    let y = seq![tag] + stuff_t(b);
    assert(stuff_t(b).subrange(0, stuff_t(a).len() as int) =~= stuff_t(a)) by {
        assert forall|i: int| 0 <= i < stuff_t(a).len() implies
            stuff_t(b).subrange(0, stuff_t(a).len() as int)[i] == stuff_t(a)[i] by {
            assert(y.subrange(0, x.len() as int)[i + 1] == x[i + 1]);
        }
    }
    lemma_stuff_prefix_eq(a, b);
}

pub open spec fn in_scope(v: PropertyValue) -> bool {
    !(v is List) && !(v is Map)
}
pub open spec fn same_kind(a: PropertyValue, b: PropertyValue) -> bool {
    okey(a)[0] == okey(b)[0]
}

/// C27.okey.cross_kind.prefix_free — no in-scope value's key is a proper prefix of
/// another's, for the variable-length kinds and across kinds.  (Fixed-width kinds of the
/// same tag have equal length; their injectivity is the Kani obligations.)
pub proof fn lemma_okey_prefix_free(a: PropertyValue, b: PropertyValue)
    requires in_scope(a), in_scope(b), is_prefix(okey(a), okey(b)),
    ensures okey(a).len() == okey(b).len(),
{
    let x = okey(a);
    let y = okey(b);
    assert(x.len() >= 1 && y.len() >= 1);
    assert(y.subrange(0, x.len() as int)[0] == y[0]);
    assert(x[0] == y[0]);
    match a {
        PropertyValue::String(s) => {
            match b {
                PropertyValue::String(t) => {
                    lemma_okey_bytes_prefix_free(0x04u8, str_bytes(s@), str_bytes(t@));
                }
                _ => { assert(false); }
            }
        }
        PropertyValue::Blob(s) => {
            match b {
                PropertyValue::Blob(t) => {
                    lemma_okey_bytes_prefix_free(0x06u8, s@, t@);
                }
                _ => { assert(false); }
            }
        }
        PropertyValue::Null => { assert(b is Null); }
        PropertyValue::Bool(_) => { assert(b is Bool); }
        PropertyValue::Int(_) => { assert(b is Int); }
        PropertyValue::Float(_) => { assert(b is Float); }
        PropertyValue::DateTime(_) => { assert(b is DateTime); }
        _ => {}
    }
}

// ---------------------------------------------------------------- the real encoder
//@extract nervusdb-storage/src/index/ordered_key.rs encode_ordered_value ret out
//@| ensures out@ == okey(*v),
//@proof before 1 "@start"
//@| // operand order of the bit operations is irrelevant to the proof
//@| assert(forall|x: u64, y: u64| #![auto] x ^ y == y ^ x) by (bit_vector);
//@rewrite "u8::from(*b)" => "(if *b { 1u8 } else { 0u8 })"
//@rewrite "u.to_be_bytes()" => "v_u64_to_be_bytes(u)"
//@rewrite "sortable.to_be_bytes()" => "v_u64_to_be_bytes(sortable)"
//@rewrite "f.to_bits()" => "v_f64_to_bits(*f)"
//@rewrite "s.len()" => "v_str_len(s)"
//@rewrite "b.len()" => "v_blob_len(b)"
//@loop 1 iter it1
//@| invariant out@ == seq![0x04u8] + stuff(str_bytes(s@).take(it1.index@ as int)),
//@proof before 1 "if b == 0x00 {"
//@| let bs = str_bytes(s@); let k = it1.index@ as int;
//@| assert(bs.take(k + 1) =~= bs.take(k).push(b));
//@| lemma_stuff_push(bs.take(k), b);
//@loop 2 iter it2
//@| invariant out@ == seq![0x06u8] + stuff(b@.take(it2.index@ as int)),
//@proof before 1 "if byte == 0x00 {"
//@| let k = it2.index@ as int;
//@| assert(b@.take(k + 1) =~= b@.take(k).push(byte));
//@| lemma_stuff_push(b@.take(k), byte);
//@proof before 1 "=out"
//@| assert(out@ =~= okey(*v));
//@proof before 2 "=out"
//@| assert(out@ =~= okey(*v));
//@proof before 3 "=out"
//@| assert(str_bytes(s@).take(str_bytes(s@).len() as int) =~= str_bytes(s@));
//@| assert(out@ =~= okey(*v));
//@proof before 4 "=out"
//@| assert(out@ =~= okey(*v));
//@proof before 5 "=out"
//@| assert(b@.take(b@.len() as int) =~= b@);
//@| assert(out@ =~= okey(*v));
//@end

// C27.index_key.format — the composite key an index stores is the index id (big endian), the value's ordered key and
// the node id (big endian): entries of one index are grouped by value in value order, and within one value by node id.
//@extract nervusdb-storage/src/index/ordered_key.rs encode_index_key ret out
//@| ensures out@ == be32(index_id) + okey(*v) + be64(internal_node_id),
//@lebytes index_id:u32 internal_node_id:u64
//@proof before 1 "=out"
//@| assert(out@ =~= be32(index_id) + okey(*v) + be64(internal_node_id));
//@end

/// a strict order between two keys neither of which is a prefix of the other survives any suffixes
pub proof fn lemma_lex_append(a: Seq<u8>, b: Seq<u8>, s: Seq<u8>, t: Seq<u8>)
    requires lex_lt(a, b), !is_prefix(a, b),
    ensures lex_lt(a + s, b + t),
    decreases a.len()
{
    reveal_with_fuel(lex_lt, 2);
    if a.len() == 0 { assert(is_prefix(a, b)) by { assert(b.subrange(0, 0) =~= a); } }
    else if b.len() == 0 { }
    else if a[0] < b[0] { assert((a + s)[0] == a[0] && (b + t)[0] == b[0]); }
    else {
        assert(a[0] == b[0]);
        assert(!is_prefix(a.skip(1), b.skip(1))) by {
            if is_prefix(a.skip(1), b.skip(1)) {
                assert(b.subrange(0, a.len() as int) =~= a) by {
                    assert forall|i: int| 0 <= i < a.len() implies b.subrange(0, a.len() as int)[i] == a[i] by {
                        if i > 0 { assert(b.skip(1).subrange(0, a.len() - 1)[i - 1] == a.skip(1)[i - 1]); }
                    }
                }
            }
        }
        lemma_lex_append(a.skip(1), b.skip(1), s, t);
        assert((a + s).skip(1) =~= a.skip(1) + s);
        assert((b + t).skip(1) =~= b.skip(1) + t);
        assert((a + s)[0] == a[0] && (b + t)[0] == b[0]);
    }
}
/// C27.index_key.order — in one index, entries of a smaller value come before entries of a larger value whatever the
/// node ids, given the value-level order okey(a) < okey(b) (the C27 obligations) and that neither key is a prefix of the other
pub proof fn lemma_index_key_order(idx: u32, a: PropertyValue, b: PropertyValue, ida: u64, idb: u64)
    requires in_scope(a), in_scope(b), lex_lt(okey(a), okey(b)), okey(a) != okey(b),
    ensures lex_lt(be32(idx) + okey(a) + be64(ida), be32(idx) + okey(b) + be64(idb)),
{
    if is_prefix(okey(a), okey(b)) {
        lemma_okey_prefix_free(a, b);
        assert(okey(b).subrange(0, okey(a).len() as int) =~= okey(b));
    }
    lemma_lex_append(okey(a), okey(b), be64(ida), be64(idb));
    lemma_lex_prepend(be32(idx), okey(a) + be64(ida), okey(b) + be64(idb));
    assert(be32(idx) + okey(a) + be64(ida) =~= be32(idx) + (okey(a) + be64(ida)));
    assert(be32(idx) + okey(b) + be64(idb) =~= be32(idx) + (okey(b) + be64(idb)));
}

} // verus!
fn main() {}
