// Verus unit c28_btree — C28 (vacuum preserves the database): the B-tree part of the reachability scan,
// BTree::mark_reachable_pages, over the page layer of unit c26_page (same extracted functions, same
// contracts, included from _btree_page.rs) and an abstract page store.
//@unit c28_btree
//@rlimit 50
//@property C28
use vstd::prelude::*;
use std::collections::{BTreeSet, VecDeque};
verus! {
//@include _prelude.rs
//@include _btree_page.rs

// ---- the set of reachable pages (std BTreeSet<PageId>, viewed as a set of page numbers) ----
pub uninterp spec fn reach(s: &BTreeSet<PageId>) -> Set<u64>;
//@trusted v_reach_insert: BTreeSet::insert adds the element and reports whether it was new (std)
#[verifier::external_body]
pub fn v_reach_insert(s: &mut BTreeSet<PageId>, p: PageId) -> (r: bool)
    ensures reach(final(s)) == reach(old(s)).insert(p.0), r == !reach(old(s)).contains(p.0)
{ unimplemented!() }
//@trusted v_payload_sink: `payloads.as_deref_mut()` + `payloads.push(v)` append to the caller's optional payload vector; modelled as a ghost log so that WHAT is collected can be specified
pub uninterp spec fn sink_log(p: &Option<&mut Vec<u64>>) -> Seq<u64>;
pub uninterp spec fn sink_wanted(p: &Option<&mut Vec<u64>>) -> bool;
#[verifier::external_body]
pub fn v_sink_wanted(p: &Option<&mut Vec<u64>>) -> (r: bool) ensures r == sink_wanted(p) { p.is_some() }
#[verifier::external_body]
pub fn v_sink_push(p: &mut Option<&mut Vec<u64>>, v: u64)
    ensures sink_log(final(p)) == sink_log(old(p)).push(v), sink_wanted(final(p)) == sink_wanted(old(p))
{ if let Some(x) = p.as_deref_mut() { x.push(v); } }
/// payload `v` has been handed to the caller's sink
pub open spec fn log_has(log: Seq<u64>, v: u64) -> bool { exists|k: int| 0 <= k < log.len() && #[trigger] log[k] == v }
pub proof fn lemma_log_push(log: Seq<u64>, x: u64, v: u64)
    ensures log_has(log.push(x), v) == (log_has(log, v) || x == v)
{
    if log_has(log, v) { let k = choose|k: int| 0 <= k < log.len() && #[trigger] log[k] == v; assert(log.push(x)[k] == v); }
    if x == v { assert(log.push(x)[log.len() as int] == v); }
    if log_has(log.push(x), v) { let k = choose|k: int| 0 <= k < log.push(x).len() && #[trigger] log.push(x)[k] == v; if k < log.len() { assert(log[k] == v); } }
}
/// every payload of every newly marked leaf other than `cur` is in the sink
pub open spec fn collected_except(pager: &Pager, old_s: Set<u64>, s: Set<u64>, log: Seq<u64>, cur: u64) -> bool {
    forall|p: u64, i: int| p != cur && s.contains(p) && !old_s.contains(p) && pg_kind_ok(pg(pager, p)) && pg(pager, p)[4] == 0 && 0 <= i < pg_count(pg(pager, p))
        ==> log_has(log, #[trigger] leaf_cells(pg(pager, p))[i].1)
}
pub proof fn lemma_collected_push(pager: &Pager, old_s: Set<u64>, s: Set<u64>, log: Seq<u64>, cur: u64, x: u64)
    requires collected_except(pager, old_s, s, log, cur)
    ensures collected_except(pager, old_s, s, log.push(x), cur)
{
    assert forall|p: u64, i: int| p != cur && s.contains(p) && !old_s.contains(p) && pg_kind_ok(pg(pager, p)) && pg(pager, p)[4] == 0 && 0 <= i < pg_count(pg(pager, p))
        implies log_has(log.push(x), #[trigger] leaf_cells(pg(pager, p))[i].1) by { lemma_log_push(log, x, leaf_cells(pg(pager, p))[i].1); }
}

/// page `c` is referenced by index page `b`: right sibling, leftmost child or a cell's right child
pub open spec fn page_refs(b: Seq<u8>, c: u64) -> bool {
    c != 0 && pg_kind_ok(b) && (
        from_le64(b.subrange(16, 24)) == c
        || (b[4] == 1 && (from_le64(b.subrange(24, 32)) == c || exists|i: int| 0 <= i < pg_count(b) && #[trigger] ic_child(b, pg_slot(b, i)) == c)))
}

/// `c` is waiting in the work queue
pub open spec fn in_q(q: Seq<PageId>, c: u64) -> bool { exists|k: int| 0 <= k < q.len() && #[trigger] q[k].0 == c }
pub proof fn lemma_in_q_push(q: Seq<PageId>, x: PageId, c: u64)
    ensures in_q(q.push(x), c) == (in_q(q, c) || x.0 == c)
{
    if in_q(q, c) { let k = choose|k: int| 0 <= k < q.len() && #[trigger] q[k].0 == c; assert(q.push(x)[k].0 == c); }
    if x.0 == c { assert(q.push(x)[q.len() as int].0 == c); }
    if in_q(q.push(x), c) {
        let k = choose|k: int| 0 <= k < q.push(x).len() && #[trigger] q.push(x)[k].0 == c;
        if k < q.len() { assert(q[k].0 == c); }
    }
}
pub proof fn lemma_in_q_pop(q: Seq<PageId>, c: u64)
    requires q.len() > 0, in_q(q, c)
    ensures q[0].0 == c || in_q(q.skip(1), c)
{
    let k = choose|k: int| 0 <= k < q.len() && #[trigger] q[k].0 == c;
    if k > 0 { assert(q.skip(1)[k - 1].0 == c); }
}
/// worklist invariant: every reference of every newly marked page is marked or queued
pub open spec fn closed(pager: &Pager, old_s: Set<u64>, s: Set<u64>, q: Seq<PageId>) -> bool {
    forall|p: u64, c: u64| s.contains(p) && !old_s.contains(p) && #[trigger] page_refs(pg(pager, p), c) ==> s.contains(c) || in_q(q, c)
}
/// ... of every newly marked page other than `cur` (the page being processed)
pub open spec fn closed_except(pager: &Pager, old_s: Set<u64>, s: Set<u64>, q: Seq<PageId>, cur: u64) -> bool {
    forall|p: u64, c: u64| p != cur && s.contains(p) && !old_s.contains(p) && #[trigger] page_refs(pg(pager, p), c) ==> s.contains(c) || in_q(q, c)
}
pub proof fn lemma_closed_push(pager: &Pager, old_s: Set<u64>, s: Set<u64>, q: Seq<PageId>, cur: u64, x: PageId)
    requires closed_except(pager, old_s, s, q, cur)
    ensures closed_except(pager, old_s, s, q.push(x), cur)
{
    assert forall|p: u64, c: u64| p != cur && s.contains(p) && !old_s.contains(p) && #[trigger] page_refs(pg(pager, p), c) implies s.contains(c) || in_q(q.push(x), c) by {
        lemma_in_q_push(q, x, c);
    }
}
/// popping the head `cur` of the queue when it is already marked keeps the invariant
pub proof fn lemma_pop_marked(pager: &Pager, old_s: Set<u64>, s: Set<u64>, q: Seq<PageId>, root: u64)
    requires q.len() > 0, s.contains(q[0].0), closed(pager, old_s, s, q), s.contains(root) || in_q(q, root),
    ensures closed(pager, old_s, s, q.skip(1)), s.contains(root) || in_q(q.skip(1), root),
{
    assert forall|p: u64, c: u64| s.contains(p) && !old_s.contains(p) && #[trigger] page_refs(pg(pager, p), c) implies s.contains(c) || in_q(q.skip(1), c) by {
        if !s.contains(c) { lemma_in_q_pop(q, c); }
    }
    if !s.contains(root) { lemma_in_q_pop(q, root); }
}
/// popping the head `cur` and marking it leaves only `cur` itself to be closed
pub proof fn lemma_pop_new(pager: &Pager, old_s: Set<u64>, s: Set<u64>, q: Seq<PageId>, root: u64)
    requires q.len() > 0, closed(pager, old_s, s, q), s.contains(root) || in_q(q, root),
    ensures closed_except(pager, old_s, s.insert(q[0].0), q.skip(1), q[0].0), s.insert(q[0].0).contains(root) || in_q(q.skip(1), root),
{
    let cur = q[0].0;
    assert forall|p: u64, c: u64| p != cur && s.insert(cur).contains(p) && !old_s.contains(p) && #[trigger] page_refs(pg(pager, p), c) implies s.insert(cur).contains(c) || in_q(q.skip(1), c) by {
        if !s.contains(c) { lemma_in_q_pop(q, c); }
    }
    if !s.contains(root) { lemma_in_q_pop(q, root); }
}

/// one push keeps everything the worklist argument needs
pub proof fn lemma_push_all(pager: &Pager, old_s: Set<u64>, s: Set<u64>, qb: Seq<PageId>, cur: u64, x: PageId, root: u64)
    requires closed_except(pager, old_s, s, qb, cur), s.contains(root) || in_q(qb, root), forall|k: int| 0 <= k < qb.len() ==> #[trigger] qb[k].0 != 0, x.0 != 0,
    ensures closed_except(pager, old_s, s, qb.push(x), cur), s.contains(root) || in_q(qb.push(x), root),
        forall|k: int| 0 <= k < qb.push(x).len() ==> #[trigger] qb.push(x)[k].0 != 0, in_q(qb.push(x), x.0),
        forall|c: u64| in_q(qb, c) ==> in_q(qb.push(x), c),
{
    lemma_closed_push(pager, old_s, s, qb, cur, x);
    lemma_in_q_push(qb, x, root);
    lemma_in_q_push(qb, x, x.0);
    assert forall|c: u64| in_q(qb, c) implies in_q(qb.push(x), c) by { lemma_in_q_push(qb, x, c); }
}

impl BTree {
// C28.btree.mark.closure — the B-tree part of the reachability scan: the root is marked, and every page
// this call newly marks is an index page all of whose references (right sibling, leftmost child, every
// cell's right child) are marked too - so everything reachable from the root through pages not marked
// before is marked (closure; the induction over paths is the reader's).  Nothing is ever unmarked.
//@extract nervusdb-storage/src/index/btree.rs BTree::mark_reachable_pages ret r
//@attr #[verifier::exec_allows_no_decreases_clause]
//@| requires tree_pages_ok(pager),
//@| ensures reach(old(out)).subset_of(reach(final(out))),
//@|     r is Ok ==> (self.root.0 != 0 ==> reach(final(out)).contains(self.root.0))
//@|         && closed(pager, reach(old(out)), reach(final(out)), Seq::<PageId>::empty()),
//@prewrite "mut payloads: Option<&mut Vec<u64>>," => "payloads0: Option<&mut Vec<u64>>,"
//@prewrite "let mut queue = VecDeque::new();" => "let mut payloads = payloads0; let mut queue: VecDeque<PageId> = VecDeque::new();"
//@prewrite "if !out.insert(page_id) {" => "if !v_reach_insert(out, page_id) {"
//@prewrite "if let Some(payloads) = payloads.as_deref_mut() {" => "if v_sink_wanted(&payloads) {"
//@prewrite "payloads.push(v);" => "v_sink_push(&mut payloads, v);"
//@proof before 1 "while let Some(page_id) = queue.pop_front()" raw
//@| let ghost mut gq = queue@;      // the queue as it was at the loop head (before the pop of this iteration)
//@| proof {
//@|     assert(queue@[0].0 == self.root.0);
//@|     assert(in_q(queue@, self.root.0));
//@| }
//@loop "while let Some(page_id) = queue.pop_front()"
//@| invariant tree_pages_ok(pager), reach(old(out)).subset_of(reach(out)), gq == queue@,
//@|     self.root.0 != 0, reach(out).contains(self.root.0) || in_q(queue@, self.root.0),
//@|     forall|k: int| 0 <= k < queue@.len() ==> #[trigger] queue@[k].0 != 0,
//@|     closed(pager, reach(old(out)), reach(out), queue@),
//@|     !reach(out).contains(0) || reach(old(out)).contains(0),
//@|     sink_wanted(&payloads) ==> collected_except(pager, reach(old(out)), reach(out), sink_log(&payloads), 0),
//@| ensures queue@.len() == 0,
//@proof before 1 "if !out.insert(page_id) {" raw
//@| let ghost s_head = reach(out);
//@| proof {
//@|     assert(queue@ == gq.skip(1) && page_id == gq[0]);
//@|     assert forall|k: int| 0 <= k < queue@.len() implies #[trigger] queue@[k].0 != 0 by { assert(gq[k + 1].0 != 0); }
//@| }
//@proof before 1 "=continue;"
//@| lemma_pop_marked(pager, reach(old(out)), s_head, gq, self.root.0);
//@| gq = queue@;
//@proof before 1 "=Ok(())"
//@| assert(queue@ =~= Seq::<PageId>::empty());
//@| assert(!in_q(queue@, self.root.0));
//@| // C28.btree.mark.payloads: when the caller asked for payloads, every payload of every newly marked leaf was handed over
//@| assert(sink_wanted(&payloads) ==> collected_except(pager, reach(old(out)), reach(out), sink_log(&payloads), 0));
//@proof before 1 "let mut buf = pager.read_page(page_id)?;" raw
//@| let ghost cur = page_id.0;
//@| proof { lemma_pop_new(pager, reach(old(out)), s_head, gq, self.root.0); }
//@proof before 1 "=match page.kind()? {"
//@| assert(page.b() == pg(pager, cur));
//@proof before 1 "queue.push_back(right);" raw
//@| let ghost qb1 = queue@;
//@proof after 1 "queue.push_back(right);"
//@| lemma_push_all(pager, reach(old(out)), reach(out), qb1, cur, right, self.root.0);
//@proof before 2 "queue.push_back(right);" raw
//@| let ghost qb2 = queue@;
//@proof after 2 "queue.push_back(right);"
//@| lemma_push_all(pager, reach(old(out)), reach(out), qb2, cur, right, self.root.0);
//@proof before 1 "queue.push_back(left);" raw
//@| let ghost qb3 = queue@;
//@proof after 1 "queue.push_back(left);"
//@| lemma_push_all(pager, reach(old(out)), reach(out), qb3, cur, left, self.root.0);
//@proof? before 1 "queue.push_back(child);" raw
//@| let ghost qb4 = queue@;
//@proof? after 1 "queue.push_back(child);"
//@| lemma_push_all(pager, reach(old(out)), reach(out), qb4, cur, child, self.root.0);
//@loop? 2 iter it2
//@| invariant tree_pages_ok(pager), page.b() == pg(pager, cur), pg_kind_ok(page.b()), page.b()[4] == 0, leaf_wf(page.b()),
//@|     reach(old(out)).subset_of(reach(out)), self.root.0 != 0, reach(out).contains(self.root.0) || in_q(queue@, self.root.0),
//@|     forall|k: int| 0 <= k < queue@.len() ==> #[trigger] queue@[k].0 != 0,
//@|     closed_except(pager, reach(old(out)), reach(out), queue@, cur), reach(out).contains(cur),
//@|     from_le64(page.b().subrange(16, 24)) != 0 ==> in_q(queue@, from_le64(page.b().subrange(16, 24))),
//@|     cur != 0, !reach(out).contains(0) || reach(old(out)).contains(0), sink_wanted(&payloads),
//@|     collected_except(pager, reach(old(out)), reach(out), sink_log(&payloads), cur),
//@|     forall|j: int| 0 <= j < it2.index@ ==> log_has(sink_log(&payloads), #[trigger] leaf_cells(page.b())[j].1),
//@proof? before 1 "payloads.push(v);" raw
//@| let ghost lg = sink_log(&payloads);
//@proof? after 1 "payloads.push(v);"
//@| lemma_collected_push(pager, reach(old(out)), reach(out), lg, cur, v);
//@| assert forall|j: int| 0 <= j < it2.index@ + 1 implies log_has(sink_log(&payloads), #[trigger] leaf_cells(page.b())[j].1) by {
//@|     lemma_log_push(lg, v, leaf_cells(page.b())[j].1);
//@| }
//@loop? 3 iter it3
//@| invariant tree_pages_ok(pager), page.b() == pg(pager, cur), pg_kind_ok(page.b()), page.b()[4] == 1, internal_wf(page.b()),
//@|     reach(old(out)).subset_of(reach(out)), self.root.0 != 0, reach(out).contains(self.root.0) || in_q(queue@, self.root.0),
//@|     forall|k: int| 0 <= k < queue@.len() ==> #[trigger] queue@[k].0 != 0,
//@|     closed_except(pager, reach(old(out)), reach(out), queue@, cur), reach(out).contains(cur),
//@|     from_le64(page.b().subrange(16, 24)) != 0 ==> in_q(queue@, from_le64(page.b().subrange(16, 24))),
//@|     in_q(queue@, from_le64(page.b().subrange(24, 32))),
//@|     forall|j: int| 0 <= j < it3.index@ ==> in_q(queue@, #[trigger] ic_child(page.b(), pg_slot(page.b(), j))),
//@|     cur != 0, !reach(out).contains(0) || reach(old(out)).contains(0),
//@|     sink_wanted(&payloads) ==> collected_except(pager, reach(old(out)), reach(out), sink_log(&payloads), cur),
//@proof after 1 "=match page.kind()? {" raw
//@| proof {
//@|     // every reference of the page just processed is marked or queued: the closure invariant holds again without exception
//@|     assert forall|p: u64, c: u64| reach(out).contains(p) && !reach(old(out)).contains(p) && #[trigger] page_refs(pg(pager, p), c)
//@|         implies reach(out).contains(c) || in_q(queue@, c) by { if p == cur { } }
//@|     if sink_wanted(&payloads) {
//@|         assert forall|p: u64, i: int| p != 0 && reach(out).contains(p) && !reach(old(out)).contains(p) && pg_kind_ok(pg(pager, p)) && pg(pager, p)[4] == 0 && 0 <= i < pg_count(pg(pager, p))
//@|             implies log_has(sink_log(&payloads), #[trigger] leaf_cells(pg(pager, p))[i].1) by { if p == cur { } }
//@|     }
//@|     gq = queue@;
//@| }
//@end
}

//@canary|pub proof fn canary_refs(b: Seq<u8>) requires internal_wf(b), pg_count(b) == 2, page_refs(b, 7), page_refs(b, 9) ensures false {}
} // verus!
fn main() {}
