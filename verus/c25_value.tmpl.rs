// Verus unit c25_value — C25: PropertyValue::{encode, decode, decode_recursive} round-trip, are total,
// and never request an allocation larger than the input.  Bodies extracted from nervusdb-api/src/lib.rs.
//@unit c25_value
//@rlimit 50
//@property C25
use vstd::prelude::*;
use std::collections::BTreeMap;
verus! {
//@include _prelude.rs


//@item nervusdb-api/src/lib.rs enum PropertyValue
//@item nervusdb-api/src/lib.rs enum DecodeError

//@include _value_spec.rs

// ------------------------------------------------------------------ the real encoder / decoder
impl PropertyValue {

//@extract nervusdb-api/src/lib.rs PropertyValue::encode ret out
//@| requires sv_ok(abs(*self)),
//@| ensures out@ == sv_enc(abs(*self)),
//@| decreases self,
//@rewrite "i.to_le_bytes()" => "v_i64_to_le_bytes(*i)"
//@rewrite "f.to_le_bytes()" => "v_f64_to_le_bytes(*f)"
//@rewrite "k_len.to_le_bytes()" => "v_u32_to_le_bytes(k_len)"
//@rewrite "len.to_le_bytes()" => "v_u32_to_le_bytes(len)"
//@rewrite "in it2: m " => "in it2: m.iter() "
//@loop 1 iter it1
//@| invariant *self == PropertyValue::List(*l), sv_ok(abs(*self)), len == l@.len(),
//@|   out@ == seq![7u8] + le32(len) + sv_enc_list(abs(*self)->List_0.take(it1.index@ as int)),
//@loop 2 iter it2
//@| invariant sv_ok(abs(*self)), *self is Map,
//@proof before 1 "out.extend_from_slice(&item.encode());"
//@| let a = abs(*self)->List_0; let k = it1.index@ as int;
//@| assert(a.take(k + 1).drop_last() =~= a.take(k));
//@| assert(a.take(k + 1).last() == abs(*item));
//@| assert(sv_ok(a[k]));
//@proof after 1 "let mut out = vec![4];"
//@| assert(out@ =~= seq![4u8]);
//@proof before 1 "=out"
//@| assert(out@ =~= sv_enc(abs(*self)));
//@proof before 2 "=out"
//@| assert(out@ =~= sv_enc(abs(*self)));
//@proof before 3 "=out"
//@| assert(out@ =~= sv_enc(abs(*self)));
//@proof before 4 "=out"
//@| assert(out@ =~= sv_enc(abs(*self)));
//@proof before 5 "=out"
//@| assert(out@ =~= sv_enc(abs(*self)));
//@proof before 6 "=out"
//@| assert(out@ =~= sv_enc(abs(*self)));
//@proof before 7 "=out"
//@| let a = abs(*self)->List_0; assert(a.take(a.len() as int) =~= a);
//@| assert(out@ =~= sv_enc(abs(*self)));
//@end

//@extract nervusdb-api/src/lib.rs PropertyValue::decode ret r
//@| ensures
//@|   sv_dec(bytes@) is Some ==> r is Ok && abs(r->Ok_0) == sv_dec(bytes@)->Some_0.0,
//@end

//@extract nervusdb-api/src/lib.rs PropertyValue::decode_recursive ret r
//@| ensures
//@|   r is Ok ==> 1 <= r->Ok_0.1 <= bytes@.len(),
//@|   sv_dec(bytes@) is Some ==> r is Ok && abs(r->Ok_0.0) == sv_dec(bytes@)->Some_0.0 && r->Ok_0.1 == sv_dec(bytes@)->Some_0.1,
//@| decreases bytes@.len(),
//@rewrite "Vec::with_capacity(" => "v_vec_with_capacity(Ghost(bytes@.len()), "
//@rewrite "bytes.len()" => "v_slice_len(bytes)"
//@rewrite "count.min(" => "v_usize_min(count, "
//@proof before 1 "let mut items ="
//@| lemma_dec_consumes(bytes@);
//@| assert(sv_dec_list(bytes@, 5, 0) == Some((Seq::<SV>::empty(), 5nat)));
//@loop 1 iter it1
//@| invariant
//@|   5 <= pos <= bytes@.len(), bytes@.len() >= 5, bytes@.len() <= 0x7fff_ffff_ffff_ffff, bytes@[0] == 7, count == from_le32(bytes@.subrange(1, 5)) as usize,
//@|   items@.len() == it1.index@, it1.index@ <= count,
//@|   sv_dec(bytes@) is Some ==> sv_dec_list(bytes@, 5, count as nat) is Some,
//@|   sv_dec_list(bytes@, 5, count as nat) is Some ==> (
//@|       sv_dec_list(bytes@, 5, items@.len()) is Some
//@|       && sv_dec_list(bytes@, 5, items@.len())->Some_0.1 == pos
//@|       && sv_dec_list(bytes@, 5, items@.len())->Some_0.0 == abs_seq(items@)),
//@proof before 1 "let (item, consumed) = Self::decode_recursive(&bytes[pos..])?;"
//@| let k = items@.len();
//@| if sv_dec_list(bytes@, 5, count as nat) is Some {
//@|     lemma_dec_list_prefix(bytes@, 5, count as nat, (k + 1) as nat);
//@|     assert(sv_dec(bytes@.skip(pos as int)) is Some);
//@| }
//@proof after 1 "pos += consumed;"
//@| let k = (items@.len() - 1) as nat;
//@| if sv_dec_list(bytes@, 5, count as nat) is Some {
//@|     lemma_dec_list_prefix(bytes@, 5, count as nat, (k + 1) as nat);
//@|     assert(abs_seq(items@) =~= abs_seq(items@.drop_last()).push(abs(items@.last())));
//@|     assert(sv_dec_list(bytes@, 5, (k + 1) as nat)->Some_0.0 =~= abs_seq(items@));
//@| }
//@proof before 1 "Ok((PropertyValue::List(items), pos))"
//@| if sv_dec(bytes@) is Some {
//@|     assert(abs(PropertyValue::List(items))->List_0 =~= abs_seq(items@));
//@| }
//@proof before 1 "let mut map = BTreeMap::new();"
//@| lemma_dec_consumes(bytes@);
//@loop 2 iter it2
//@| invariant 5 <= pos <= bytes@.len(), bytes@.len() >= 5, bytes@.len() <= 0x7fff_ffff_ffff_ffff, bytes@[0] == 8, count == from_le32(bytes@.subrange(1, 5)) as usize,
//@|   it2.index@ <= count,
//@|   sv_dec(bytes@) is Some ==> sv_dec_entries(bytes@, 5, count as nat) is Some,
//@|   sv_dec_entries(bytes@, 5, count as nat) is Some ==> (
//@|       sv_dec_entries(bytes@, 5, it2.index@ as nat) is Some
//@|       && sv_dec_entries(bytes@, 5, it2.index@ as nat)->Some_0 == pos),
//@proof before 1 "if bytes.len() < pos + 4 {"
//@| let k = it2.index@ as nat;
//@| if sv_dec_entries(bytes@, 5, count as nat) is Some {
//@|     lemma_dec_entries_prefix(bytes@, 5, count as nat, (k + 1) as nat);
//@| }
//@end

} // impl

/// C25.val.roundtrip — the property's first sentence for every map-free value, as a lemma over the
/// contracts of encode and decode: decoding the encoding of v (followed by any bytes) yields a
/// value with the same mathematical content (bit-exact floats, same bytes, same nesting).
pub proof fn lemma_value_roundtrip(v: PropertyValue, rest: Seq<u8>)
    requires sv_ok(abs(v)),
    ensures sv_dec(sv_enc(abs(v)) + rest) == Some((abs(v), sv_enc(abs(v)).len())),
{
    lemma_roundtrip(abs(v), rest);
}

// ---- vacuity canaries (only present in the canary run; each MUST fail) ----
//@canary|pub proof fn canary_encode_requires(v: PropertyValue) requires sv_ok(abs(v)), v is List, v->List_0@.len() == 2 ensures false {}
//@canary|pub proof fn canary_dec_list_some(b: Seq<u8>) requires sv_dec(b) is Some, b.len() > 0, b[0] == 7, sv_dec(b)->Some_0.0->List_0.len() == 2 ensures false {}
//@canary|pub proof fn canary_roundtrip_pre(v: SV) requires sv_ok(v), v is Str, v->Str_0.len() == 3 ensures false {}

} // verus!
fn main() {}
