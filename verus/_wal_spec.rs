// ---- shared: abstract WAL records, the record body format and its reference decoder ----
pub enum SR {
    BeginTx { txid: u64 },
    CommitTx { txid: u64 },
    PageWrite { page_id: u64, page: Seq<u8> },
    PageFree { page_id: u64 },
    CreateLabel { name: Seq<u8>, label_id: u32 },
    CreateNode { external_id: u64, label_id: u32, internal_id: u32 },
    AddNodeLabel { node: u32, label_id: u32 },
    RemoveNodeLabel { node: u32, label_id: u32 },
    CreateEdge { src: u32, rel: u32, dst: u32 },
    TombstoneNode { node: u32 },
    TombstoneEdge { src: u32, rel: u32, dst: u32 },
    ManifestSwitch { epoch: u64, segments: Seq<(u64, u64)>, properties_root: u64, stats_root: u64 },
    Checkpoint { up_to_txid: u64, epoch: u64, properties_root: u64, stats_root: u64 },
    SetNodeProperty { node: u32, key: Seq<u8>, value: SV },
    SetEdgeProperty { src: u32, rel: u32, dst: u32, key: Seq<u8>, value: SV },
    RemoveNodeProperty { node: u32, key: Seq<u8> },
    RemoveEdgeProperty { src: u32, rel: u32, dst: u32, key: Seq<u8> },
}

pub open spec fn seg_seq(s: Seq<SegmentPointer>) -> Seq<(u64, u64)> {
    Seq::new(s.len(), |i: int| (s[i].id, s[i].meta_page_id))
}

pub open spec fn abs_rec(r: WalRecord) -> SR {
    match r {
        WalRecord::BeginTx { txid } => SR::BeginTx { txid },
        WalRecord::CommitTx { txid } => SR::CommitTx { txid },
        WalRecord::PageWrite { page_id, page } => SR::PageWrite { page_id, page: page@ },
        WalRecord::PageFree { page_id } => SR::PageFree { page_id },
        WalRecord::CreateLabel { name, label_id } => SR::CreateLabel { name: str_bytes(name@), label_id },
        WalRecord::CreateNode { external_id, label_id, internal_id } => SR::CreateNode { external_id, label_id, internal_id },
        WalRecord::AddNodeLabel { node, label_id } => SR::AddNodeLabel { node, label_id },
        WalRecord::RemoveNodeLabel { node, label_id } => SR::RemoveNodeLabel { node, label_id },
        WalRecord::CreateEdge { src, rel, dst } => SR::CreateEdge { src, rel, dst },
        WalRecord::TombstoneNode { node } => SR::TombstoneNode { node },
        WalRecord::TombstoneEdge { src, rel, dst } => SR::TombstoneEdge { src, rel, dst },
        WalRecord::ManifestSwitch { epoch, segments, properties_root, stats_root } =>
            SR::ManifestSwitch { epoch, segments: seg_seq(segments@), properties_root, stats_root },
        WalRecord::Checkpoint { up_to_txid, epoch, properties_root, stats_root } =>
            SR::Checkpoint { up_to_txid, epoch, properties_root, stats_root },
        WalRecord::SetNodeProperty { node, key, value } => SR::SetNodeProperty { node, key: str_bytes(key@), value: abs(value) },
        WalRecord::SetEdgeProperty { src, rel, dst, key, value } =>
            SR::SetEdgeProperty { src, rel, dst, key: str_bytes(key@), value: abs(value) },
        WalRecord::RemoveNodeProperty { node, key } => SR::RemoveNodeProperty { node, key: str_bytes(key@) },
        WalRecord::RemoveEdgeProperty { src, rel, dst, key } => SR::RemoveEdgeProperty { src, rel, dst, key: str_bytes(key@) },
    }
}

pub open spec fn key_ok(k: Seq<u8>) -> bool { k.len() <= u32::MAX && is_utf8(k) }

/// Records the encoder accepts and whose round trip is decided (map-valued properties are not).
pub open spec fn rec_ok(r: SR) -> bool {
    match r {
        SR::PageWrite { page, .. } => page.len() == 8192,
        SR::CreateLabel { name, .. } => key_ok(name),
        SR::ManifestSwitch { segments, .. } => segments.len() <= u32::MAX,
        SR::SetNodeProperty { key, value, .. } => key_ok(key) && sv_ok(value),
        SR::SetEdgeProperty { key, value, .. } => key_ok(key) && sv_ok(value),
        SR::RemoveNodeProperty { key, .. } => key_ok(key),
        SR::RemoveEdgeProperty { key, .. } => key_ok(key),
        _ => true,
    }
}

pub open spec fn rec_tag(r: SR) -> u8 {
    match r {
        SR::BeginTx { .. } => 1, SR::CommitTx { .. } => 2, SR::PageWrite { .. } => 3, SR::PageFree { .. } => 4,
        SR::CreateNode { .. } => 5, SR::CreateEdge { .. } => 6, SR::TombstoneNode { .. } => 7, SR::TombstoneEdge { .. } => 8,
        SR::ManifestSwitch { .. } => 9, SR::Checkpoint { .. } => 10, SR::SetNodeProperty { .. } => 11,
        SR::SetEdgeProperty { .. } => 12, SR::RemoveNodeProperty { .. } => 13, SR::RemoveEdgeProperty { .. } => 14,
        SR::CreateLabel { .. } => 15, SR::AddNodeLabel { .. } => 16, SR::RemoveNodeLabel { .. } => 17,
    }
}

pub open spec fn segs_enc(s: Seq<(u64, u64)>) -> Seq<u8>
    decreases s.len()
{
    if s.len() == 0 { Seq::<u8>::empty() } else { segs_enc(s.drop_last()) + le64(s.last().0) + le64(s.last().1) }
}

/// The record body format (tag byte + little-endian fields), written from the format comments.
pub open spec fn rec_enc(r: SR) -> Seq<u8> {
    seq![rec_tag(r)] + match r {
        SR::BeginTx { txid } => le64(txid),
        SR::CommitTx { txid } => le64(txid),
        SR::PageWrite { page_id, page } => le64(page_id) + page,
        SR::PageFree { page_id } => le64(page_id),
        SR::CreateLabel { name, label_id } => le32(label_id) + le32(name.len() as u32) + name,
        SR::CreateNode { external_id, label_id, internal_id } => le64(external_id) + le32(label_id) + le32(internal_id),
        SR::AddNodeLabel { node, label_id } => le32(node) + le32(label_id),
        SR::RemoveNodeLabel { node, label_id } => le32(node) + le32(label_id),
        SR::CreateEdge { src, rel, dst } => le32(src) + le32(rel) + le32(dst),
        SR::TombstoneNode { node } => le32(node),
        SR::TombstoneEdge { src, rel, dst } => le32(src) + le32(rel) + le32(dst),
        SR::ManifestSwitch { epoch, segments, properties_root, stats_root } =>
            le64(epoch) + le32(segments.len() as u32) + segs_enc(segments) + le64(properties_root) + le64(stats_root),
        SR::Checkpoint { up_to_txid, epoch, properties_root, stats_root } =>
            le64(up_to_txid) + le64(epoch) + le64(properties_root) + le64(stats_root),
        SR::SetNodeProperty { node, key, value } => le32(node) + le32(key.len() as u32) + key + sv_enc(value),
        SR::SetEdgeProperty { src, rel, dst, key, value } =>
            le32(src) + le32(rel) + le32(dst) + le32(key.len() as u32) + key + sv_enc(value),
        SR::RemoveNodeProperty { node, key } => le32(node) + le32(key.len() as u32) + key,
        SR::RemoveEdgeProperty { src, rel, dst, key } => le32(src) + le32(rel) + le32(dst) + le32(key.len() as u32) + key,
    }
}

pub open spec fn segs_dec(p: Seq<u8>, off: int, n: nat) -> Seq<(u64, u64)>
    decreases n
{
    if n == 0 { Seq::<(u64, u64)>::empty() }
    else {
        let k = (n - 1) as nat;
        segs_dec(p, off, k).push((from_le64(p.subrange(off + 16 * k, off + 16 * k + 8)),
                                  from_le64(p.subrange(off + 16 * k + 8, off + 16 * k + 16))))
    }
}

/// Reference decoder for record bodies: what a correct decoder must return.  None on malformed
/// bodies (and on property values that are maps: not decided).
pub open spec fn rec_dec(body: Seq<u8>) -> Option<SR> {
    if body.len() == 0 { None } else {
        let ty = body[0];
        let p = body.skip(1);
        let n = p.len();
        if ty == 1 { if n != 8 { None } else { Some(SR::BeginTx { txid: from_le64(p) }) } }
        else if ty == 2 { if n != 8 { None } else { Some(SR::CommitTx { txid: from_le64(p) }) } }
        else if ty == 3 { if n != 8 + 8192 { None } else { Some(SR::PageWrite { page_id: from_le64(p.subrange(0, 8)), page: p.skip(8) }) } }
        else if ty == 4 { if n != 8 { None } else { Some(SR::PageFree { page_id: from_le64(p) }) } }
        else if ty == 15 {
            if n < 8 { None } else {
                let l = from_le32(p.subrange(4, 8)) as int;
                if n < 8 + l || !is_utf8(p.subrange(8, 8 + l)) { None }
                else { Some(SR::CreateLabel { name: p.subrange(8, 8 + l), label_id: from_le32(p.subrange(0, 4)) }) }
            }
        }
        else if ty == 5 { if n != 16 { None } else { Some(SR::CreateNode { external_id: from_le64(p.subrange(0, 8)),
                label_id: from_le32(p.subrange(8, 12)), internal_id: from_le32(p.subrange(12, 16)) }) } }
        else if ty == 16 { if n != 8 { None } else { Some(SR::AddNodeLabel { node: from_le32(p.subrange(0, 4)), label_id: from_le32(p.subrange(4, 8)) }) } }
        else if ty == 17 { if n != 8 { None } else { Some(SR::RemoveNodeLabel { node: from_le32(p.subrange(0, 4)), label_id: from_le32(p.subrange(4, 8)) }) } }
        else if ty == 6 { if n != 12 { None } else { Some(SR::CreateEdge { src: from_le32(p.subrange(0, 4)), rel: from_le32(p.subrange(4, 8)), dst: from_le32(p.subrange(8, 12)) }) } }
        else if ty == 7 { if n != 4 { None } else { Some(SR::TombstoneNode { node: from_le32(p.subrange(0, 4)) }) } }
        else if ty == 8 { if n != 12 { None } else { Some(SR::TombstoneEdge { src: from_le32(p.subrange(0, 4)), rel: from_le32(p.subrange(4, 8)), dst: from_le32(p.subrange(8, 12)) }) } }
        else if ty == 9 {
            if n < 28 { None } else {
                let count = from_le32(p.subrange(8, 12)) as int;
                let end = 12 + count * 16;
                if n < end + 8 { None } else {
                    // NB: the real decoder reads the two roots at `end` and ignores any bytes after them
                    if n < end + 16 { None } else {
                    Some(SR::ManifestSwitch { epoch: from_le64(p.subrange(0, 8)), segments: segs_dec(p, 12, count as nat),
                        properties_root: from_le64(p.subrange(end, end + 8)), stats_root: from_le64(p.subrange(end + 8, end + 16)) }) }
                }
            }
        }
        else if ty == 10 { if n != 32 { None } else { Some(SR::Checkpoint { up_to_txid: from_le64(p.subrange(0, 8)), epoch: from_le64(p.subrange(8, 16)),
                properties_root: from_le64(p.subrange(16, 24)), stats_root: from_le64(p.subrange(24, 32)) }) } }
        else if ty == 11 {
            if n < 8 { None } else {
                let l = from_le32(p.subrange(4, 8)) as int;
                if n < 8 + l || !is_utf8(p.subrange(8, 8 + l)) { None } else {
                    match sv_dec(p.skip(8 + l)) {
                        Some((v, _)) => Some(SR::SetNodeProperty { node: from_le32(p.subrange(0, 4)), key: p.subrange(8, 8 + l), value: v }),
                        None => None,
                    }
                }
            }
        }
        else if ty == 12 {
            if n < 16 { None } else {
                let l = from_le32(p.subrange(12, 16)) as int;
                if n < 16 + l || !is_utf8(p.subrange(16, 16 + l)) { None } else {
                    match sv_dec(p.skip(16 + l)) {
                        Some((v, _)) => Some(SR::SetEdgeProperty { src: from_le32(p.subrange(0, 4)), rel: from_le32(p.subrange(4, 8)),
                            dst: from_le32(p.subrange(8, 12)), key: p.subrange(16, 16 + l), value: v }),
                        None => None,
                    }
                }
            }
        }
        else if ty == 13 {
            if n < 8 { None } else {
                let l = from_le32(p.subrange(4, 8)) as int;
                if n != 8 + l || !is_utf8(p.subrange(8, 8 + l)) { None }
                else { Some(SR::RemoveNodeProperty { node: from_le32(p.subrange(0, 4)), key: p.subrange(8, 8 + l) }) }
            }
        }
        else if ty == 14 {
            if n < 16 { None } else {
                let l = from_le32(p.subrange(12, 16)) as int;
                if n != 16 + l || !is_utf8(p.subrange(16, 16 + l)) { None }
                else { Some(SR::RemoveEdgeProperty { src: from_le32(p.subrange(0, 4)), rel: from_le32(p.subrange(4, 8)),
                        dst: from_le32(p.subrange(8, 12)), key: p.subrange(16, 16 + l) }) }
            }
        }
        else { None }
    }
}
