// Verus unit c26_page — C26 (the on-disk B-tree as a sorted multimap), single-page scope.
// Slotted index page of nervusdb-storage/src/index/btree.rs: byte helpers, varints, Page::{kind, init_leaf,
// cell_count, cell_content_begin, slot_get/slot_set, free_space, shift_slots_*, leaf_cell_key_and_payload,
// internal_cell_key_and_right_child, leaf_lower_bound, internal_child_for_key, leaf_insert_at, delete_from_leaf}.
//@unit c26_page
//@rlimit 50
//@property C26
use vstd::prelude::*;
verus! {
//@include _prelude.rs

//@include _btree_page.rs

//@trusted v_bytes_ne: `!=` on byte slices is sequence inequality (std)
#[verifier::external_body]
pub fn v_bytes_ne(a: &[u8], b: &[u8]) -> (r: bool)
    ensures r == (a@ != b@)
{ a != b }

pub open spec fn only_changed(o: &Pager, n: &Pager, l: u64) -> bool { forall|x: u64| x != l ==> #[trigger] pg(n, x) == pg(o, x) }
pub open spec fn deleted_at(o: &Pager, n: &Pager, l: u64, i: int, key: Seq<u8>, payload: u64) -> bool {
    0 <= i < pg_count(pg(o, l)) && leaf_wf(pg(o, l)) && leaf_cells(pg(o, l))[i] == (key, payload)
    && leaf_wf(pg(n, l)) && leaf_cells(pg(n, l)) == leaf_cells(pg(o, l)).remove(i) && only_changed(o, n, l)
}
impl BTree {
// C26.tree.delete.exact — tree-level contract of BTree::delete over any page store whose index pages are
// well formed: Ok(false) changes nothing; Ok(true) changed exactly one leaf page, by removing exactly one
// entry, and that entry was (key, payload); no other page changes in any case.  (That a stored pair is
// always FOUND needs the cross-page tree invariant and is not decided here.)  Termination not proved.
//@extract nervusdb-storage/src/index/btree.rs BTree::delete ret r
//@attr #[verifier::exec_allows_no_decreases_clause]
//@| requires tree_pages_ok(old(pager)),
//@| ensures
//@|     (r is Ok && r->Ok_0 == false) ==> forall|o: u64| #[trigger] pg(final(pager), o) == pg(old(pager), o),
//@|     (r is Ok && r->Ok_0 == true) ==> exists|l: u64, i: int| #[trigger] deleted_at(old(pager), final(pager), l, i, key@, payload),
//@|     // a failed delete touched at most one page
//@|     r is Err ==> forall|x: u64, y: u64| pg(final(pager), x) != pg(old(pager), x) && pg(final(pager), y) != pg(old(pager), y) ==> x == y,
//@prewrite "if k != key {" => "if v_bytes_ne(k, key) {"
//@loop 1
//@| invariant tree_pages_ok(old(pager)), forall|o: u64| #[trigger] pg(pager, o) == pg(old(pager), o),
//@| ensures pg_kind_ok(pg(old(pager), cur.0)) && pg(old(pager), cur.0)[4] == 0,
//@loop 2
//@| invariant tree_pages_ok(old(pager)), forall|o: u64| #[trigger] pg(pager, o) == pg(old(pager), o),
//@|     buf@ == pg(old(pager), cur.0), leaf_wf(buf@), keys_sorted(leaf_cells(buf@)), idx <= 65535,
//@proof before 1 "=return Ok(true);"
//@| assert(deleted_at(old(pager), pager, cur.0, idx as int, key@, payload));
//@end
}

// ================================================================== tree level: the scan cursor over the leaf chain
//@item nervusdb-storage/src/index/btree.rs struct BTreeCursor
/// k-th leaf of the sibling chain that starts at leaf `l` (0 once the chain has ended)
pub open spec fn leaf_at(p: &Pager, l: u64, k: nat) -> u64
    decreases k
{
    if k == 0 { l } else {
        let prev = leaf_at(p, l, (k - 1) as nat);
        if prev == 0 { 0 } else { from_le64(pg(p, prev).subrange(16, 24)) }
    }
}
impl<'a> BTreeCursor<'a> {
    /// the cursor holds a faithful copy of a well-formed leaf of the store
    pub open spec fn ok(&self) -> bool {
        self.buf@ == pg(self.pager, self.leaf.0) && pg_kind_ok(self.buf@) && self.buf@[4] == 0 && leaf_wf(self.buf@)
            && self.slot <= pg_count(self.buf@) && self.leaf.0 != 0
    }
    /// moving from `o` the cursor skipped only empty leaves and stands on the first entry of leaf number n of the chain
    pub open spec fn skipped_to(o: &BTreeCursor<'a>, n_: &BTreeCursor<'a>, n: nat) -> bool {
        n >= 1 && n_.leaf.0 == leaf_at(o.pager, o.leaf.0, n) && n_.slot == 0 && n_.leaf.0 != 0
            && forall|j: nat| 1 <= j < n ==> leaf_at(o.pager, o.leaf.0, j) != 0 && pg_count(pg(o.pager, #[trigger] leaf_at(o.pager, o.leaf.0, j))) == 0
    }
    /// from `o` on there is no further entry: every later leaf of the chain is empty and the chain ends
    pub open spec fn exhausted(o: &BTreeCursor<'a>, n: nat) -> bool {
        leaf_at(o.pager, o.leaf.0, n + 1) == 0
            && forall|j: nat| 1 <= j <= n ==> leaf_at(o.pager, o.leaf.0, j) != 0 && pg_count(pg(o.pager, #[trigger] leaf_at(o.pager, o.leaf.0, j))) == 0
    }

//@extract nervusdb-storage/src/index/btree.rs BTreeCursor::is_valid ret r
//@| requires old(self).ok(),
//@| ensures *final(self) == *old(self), r is Ok, r->Ok_0 == (old(self).slot < pg_count(old(self).buf@)),
//@end
//@extract nervusdb-storage/src/index/btree.rs BTreeCursor::key ret r
//@| requires old(self).ok(), keys_sorted(leaf_cells(old(self).buf@)),
//@| ensures *final(self) == *old(self), r is Ok <==> old(self).slot < pg_count(old(self).buf@),
//@|     r is Ok ==> r->Ok_0@ == leaf_cells(old(self).buf@)[old(self).slot as int].0,
//@prewrite "Ok(k.to_vec())" => "Ok(v_slice_to_vec(k))"
//@end
//@extract nervusdb-storage/src/index/btree.rs BTreeCursor::payload ret r
//@| requires old(self).ok(),
//@| ensures *final(self) == *old(self), r is Ok <==> old(self).slot < pg_count(old(self).buf@),
//@|     r is Ok ==> r->Ok_0 == leaf_cells(old(self).buf@)[old(self).slot as int].1,
//@end

// C26.tree.cursor.advance — a scan step neither skips nor invents an entry: it moves to the next slot of
// the same leaf, or over EMPTY leaves only to the first entry of the next non-empty leaf of the chain;
// it reports the end only when every remaining leaf of the chain is empty.  Termination not proved.
//@extract nervusdb-storage/src/index/btree.rs BTreeCursor::advance ret r
//@attr #[verifier::exec_allows_no_decreases_clause]
//@| requires old(self).ok(), tree_pages_ok(old(self).pager),
//@| ensures final(self).pager == old(self).pager,
//@|     r is Ok ==> final(self).ok(),
//@|     (r is Ok && r->Ok_0) ==> final(self).slot < pg_count(final(self).buf@)
//@|         && ((final(self).leaf == old(self).leaf && final(self).slot == old(self).slot + 1 && final(self).buf@ == old(self).buf@)
//@|             || (old(self).slot + 1 >= pg_count(old(self).buf@) && exists|n: nat| #[trigger] BTreeCursor::skipped_to(old(self), final(self), n))),
//@|     (r is Ok && !r->Ok_0) ==> old(self).slot + 1 >= pg_count(old(self).buf@) && exists|n: nat| #[trigger] BTreeCursor::exhausted(old(self), n),
//@proof before 1 "=loop {" raw
//@| let ghost mut nn: nat = 0;
//@prewrite "self.slot = 0;" => "self.slot = 0; proof { nn = nn + 1; }"
//@loop "loop" 
//@| invariant self.pager == old(self).pager, tree_pages_ok(self.pager), self.ok(), old(self).ok(),
//@|     old(self).slot + 1 >= pg_count(old(self).buf@),
//@|     self.leaf.0 == leaf_at(old(self).pager, old(self).leaf.0, nn),
//@|     forall|j: nat| 1 <= j <= nn ==> leaf_at(old(self).pager, old(self).leaf.0, j) != 0 && pg_count(pg(old(self).pager, #[trigger] leaf_at(old(self).pager, old(self).leaf.0, j))) == 0,
//@proof before 1 "=return Ok(false);"
//@| assert(BTreeCursor::exhausted(old(self), nn));
//@proof before 2 "=return Ok(true);"
//@| assert(BTreeCursor::skipped_to(old(self), self, nn));
//@end
}

impl BTree {
// C26.tree.cursor_lower_bound — the cursor a lookup/scan starts from is a faithful copy of a well-formed
// leaf of the store, and it stands past the end of its leaf only when the leaf chain has ended (empty and
// exhausted leaves are stepped over).  (WHICH leaf and slot - that no entry >= target lies left of it and
// the entry under it is >= target - needs the cross-page ordering invariant and is not decided here.)
// Termination not proved.
//@extract nervusdb-storage/src/index/btree.rs BTree::cursor_lower_bound ret r
//@attr #[verifier::exec_allows_no_decreases_clause]
//@| requires tree_pages_ok(pager),
//@| ensures r is Ok ==> r->Ok_0.ok() && r->Ok_0.pager == pager
//@|     && (r->Ok_0.slot >= pg_count(r->Ok_0.buf@) ==> from_le64(r->Ok_0.buf@.subrange(16, 24)) == 0),
//@loop 1
//@| invariant tree_pages_ok(pager),
//@loop? 2
//@| invariant tree_pages_ok(pager), leaf_buf@ == pg(pager, leaf_id.0), pg_kind_ok(leaf_buf@), leaf_buf@[4] == 0, leaf_wf(leaf_buf@), keys_sorted(leaf_cells(leaf_buf@)),
//@|     leaf_id.0 != 0, slot <= pg_count(leaf_buf@),
//@| ensures slot < pg_count(leaf_buf@) || from_le64(leaf_buf@.subrange(16, 24)) == 0,
//@end
}

//@item nervusdb-storage/src/index/btree.rs struct PathEntry keep-derive
/// an entry (key, payload) was put in front of all equal keys of leaf `l`, which had room; nothing else changed
pub open spec fn inserted_at(o: &Pager, n: &Pager, l: u64, i: int, key: Seq<u8>, payload: u64) -> bool {
    leaf_wf(pg(o, l)) && 0 <= i <= pg_count(pg(o, l))
    && (forall|j: int| 0 <= j < i ==> lex_lt(#[trigger] leaf_cells(pg(o, l))[j].0, key))
    && (forall|j: int| i <= j < pg_count(pg(o, l)) ==> lex_le(key, #[trigger] leaf_cells(pg(o, l))[j].0))
    && leaf_wf(pg(n, l)) && leaf_cells(pg(n, l)) == leaf_cells(pg(o, l)).insert(i, (key, payload)) && only_changed(o, n, l)
}
// ================================================================== leaf split: sizes, cut point, rebuild
/// bytes one cell with a key of `klen` bytes takes in a page: slot, key length varint, key, payload / child id
pub open spec fn cell_sz(klen: int) -> int { 2 + vlen(klen as u32) + klen + 8 }
/// bytes a run of entries takes in a page (without the page header)
pub open spec fn ents_sz(s: Seq<(Seq<u8>, u64)>) -> int
    decreases s.len()
{ if s.len() == 0 { 0 } else { ents_sz(s.drop_last()) + cell_sz(s.last().0.len() as int) } }
/// abstract view of an in-memory run of entries
pub open spec fn eview(v: Seq<(Vec<u8>, u64)>) -> Seq<(Seq<u8>, u64)> { Seq::new(v.len(), |i: int| (v[i].0@, v[i].1)) }

pub proof fn lemma_ents_sz_step(s: Seq<(Seq<u8>, u64)>, i: int)
    requires 0 <= i < s.len(),
    ensures ents_sz(s.take(i + 1)) == ents_sz(s.take(i)) + cell_sz(s[i].0.len() as int), ents_sz(s.take(i)) >= 0, cell_sz(s[i].0.len() as int) >= 11,
    decreases i
{
    assert(s.take(i + 1).drop_last() =~= s.take(i));
    assert(s.take(i + 1).last() == s[i]);
    if i > 0 { lemma_ents_sz_step(s, i - 1); } else { assert(s.take(0).len() == 0); }
}
pub proof fn lemma_ents_sz_mono(s: Seq<(Seq<u8>, u64)>, i: int, j: int)
    requires 0 <= i <= j <= s.len(),
    ensures 0 <= ents_sz(s.take(i)) <= ents_sz(s.take(j)),
    decreases j - i
{
    if i < j { lemma_ents_sz_step(s, j - 1); lemma_ents_sz_mono(s, i, j - 1); }
    else if i > 0 { lemma_ents_sz_step(s, i - 1); } else { assert(s.take(0).len() == 0); }
}
/// a run is as large as its two halves together
pub proof fn lemma_ents_sz_split(s: Seq<(Seq<u8>, u64)>, m: int)
    requires 0 <= m <= s.len(),
    ensures ents_sz(s) == ents_sz(s.take(m)) + ents_sz(s.skip(m)), ents_sz(s.skip(m)) >= 0,
    decreases s.len() - m
{
    if m == s.len() {
        assert(s.take(m) =~= s); assert(s.skip(m).len() == 0);
    } else {
        lemma_ents_sz_split(s, m + 1);
        lemma_ents_sz_step(s, m);
        // skip(m) = [s[m]] + skip(m + 1): peel the first element of skip(m) by induction on its own prefix sums
        lemma_ents_sz_front(s.skip(m));
        assert(s.skip(m).skip(1) =~= s.skip(m + 1));
    }
}
/// a run is its first entry plus the rest
pub proof fn lemma_ents_sz_front(s: Seq<(Seq<u8>, u64)>)
    requires s.len() >= 1,
    ensures ents_sz(s) == cell_sz(s[0].0.len() as int) + ents_sz(s.skip(1)), ents_sz(s.skip(1)) >= 0,
    decreases s.len()
{
    if s.len() == 1 {
        assert(s.drop_last().len() == 0); assert(s.skip(1).len() == 0);
        assert(ents_sz(s.drop_last()) == 0); assert(ents_sz(s.skip(1)) == 0); assert(s.last() == s[0]);
    } else {
        let t = s.skip(1);
        assert(t.len() >= 1);
        assert(ents_sz(t) == ents_sz(t.drop_last()) + cell_sz(t.last().0.len() as int));
        lemma_ents_sz_front(s.drop_last());
        assert(s.drop_last().skip(1) =~= s.skip(1).drop_last());
        assert(s.skip(1).last() == s.last());
        assert(s.drop_last()[0] == s[0]);
    }
}
pub proof fn lemma_ents_sz_all(s: Seq<(Seq<u8>, u64)>)
    ensures ents_sz(s) >= 0, forall|i: int| 0 <= i < s.len() ==> cell_sz((#[trigger] s[i]).0.len() as int) <= ents_sz(s),
{
    assert(s.take(s.len() as int) =~= s);
    assert forall|i: int| 0 <= i < s.len() implies cell_sz((#[trigger] s[i]).0.len() as int) <= ents_sz(s) by {
        lemma_ents_sz_step(s, i); lemma_ents_sz_mono(s, i + 1, s.len() as int);
    }
    lemma_ents_sz_mono(s, 0, s.len() as int);
}
/// both halves of a cut at `m` fit one leaf page
pub open spec fn cut_fits(s: Seq<(Seq<u8>, u64)>, m: int) -> bool { ents_sz(s.take(m)) <= 8168 && ents_sz(s.skip(m)) <= 8168 }

// C26.split.cell_space — the size the split code charges per cell is the size leaf_insert_at needs for it.
//@extract nervusdb-storage/src/index/btree.rs cell_space ret r
//@| requires cell_sz(key_len as int) <= usize::MAX,
//@| ensures r == cell_sz(key_len as int),
//@end

// C26.split.leaf_split_point — a cut returned by the split-point search leaves a non-empty right half and
// two halves that each fit a leaf page; the search fails only when no cut does.
//@extract nervusdb-storage/src/index/btree.rs leaf_split_point ret r
//@| requires entries@.len() >= 1, ents_sz(eview(entries@)) <= usize::MAX,
//@| ensures r is Ok ==> 0 <= r->Ok_0 < entries@.len() && cut_fits(eview(entries@), r->Ok_0 as int),
//@|     r is Err ==> forall|m: int| 0 <= m < entries@.len() ==> !#[trigger] cut_fits(eview(entries@), m),
//@proof before 1 "let mut total = 0usize;"
//@| lemma_ents_sz_all(eview(entries@));
//@| assert(eview(entries@).take(0).len() == 0);
//@loop "for i in 0..entries.len()"
//@| invariant total == ents_sz(eview(entries@).take(i as int)), ents_sz(eview(entries@)) <= usize::MAX,
//@|     forall|k: int| 0 <= k < entries@.len() ==> cell_sz((#[trigger] eview(entries@)[k]).0.len() as int) <= ents_sz(eview(entries@)),
//@proof before 1 "total += cell_space("
//@| lemma_ents_sz_step(eview(entries@), i as int);
//@| lemma_ents_sz_mono(eview(entries@), i + 1, entries@.len() as int);
//@| assert(eview(entries@).take(entries@.len() as int) =~= eview(entries@));
//@| assert(eview(entries@)[i as int].0 == entries@[i as int].0@);
//@proof before 1 "let mut best_mid = entries.len();"
//@| assert(eview(entries@).take(entries@.len() as int) =~= eview(entries@));
//@loop "for mid in 0..entries.len()"
//@| invariant left == ents_sz(eview(entries@).take(mid as int)), total == ents_sz(eview(entries@)), cap == 8168,
//@|     forall|k: int| 0 <= k < entries@.len() ==> cell_sz((#[trigger] eview(entries@)[k]).0.len() as int) <= ents_sz(eview(entries@)),
//@|     best_mid <= entries@.len(),
//@|     best_mid < entries@.len() ==> cut_fits(eview(entries@), best_mid as int),
//@|     best_mid == entries@.len() ==> forall|m: int| 0 <= m < mid ==> !#[trigger] cut_fits(eview(entries@), m),
//@proof before 1 "let right = total - left;"
//@| lemma_ents_sz_mono(eview(entries@), mid as int, entries@.len() as int);
//@| assert(eview(entries@).take(entries@.len() as int) =~= eview(entries@));
//@| lemma_ents_sz_split(eview(entries@), mid as int);
//@| lemma_ents_sz_step(eview(entries@), mid as int);
//@| lemma_ents_sz_mono(eview(entries@), mid + 1, entries@.len() as int);
//@| assert(eview(entries@)[mid as int].0 == entries@[mid as int].0@);
//@end

impl<'a> Page<'a> {
// C26.split.rebuild_leaf — rebuilding a page from a run of entries that fits yields a well-formed leaf whose
// view is exactly that run, in the same order, with the given right sibling; no insertion can fail (the
// `unwrap()` of the original is a proved obligation).
//@extract nervusdb-storage/src/index/btree.rs Page::rebuild_leaf
//@| requires ents_sz(eview(entries@)) <= 8168,
//@| ensures *final(final(self).buf) == *final(old(self).buf), leaf_wf(final(self).b()), leaf_cells(final(self).b()) == eview(entries@),
//@|     from_le64(final(self).b().subrange(16, 24)) == right_sibling.0,
//@proof before 1 "=self.set_right_sibling(right_sibling);" raw
//@| let ghost s0 = self.b();
//@proof after 1 "=self.set_right_sibling(right_sibling);"
//@| let b = self.b();
//@| lemma_le64_len(right_sibling.0);
//@| assert(b.subrange(0, 4) =~= s0.subrange(0, 4));
//@| assert(b.subrange(6, 8) =~= s0.subrange(6, 8));
//@| assert(b.subrange(8, 10) =~= s0.subrange(8, 10));
//@| assert(pg_count(b) == 0 && pg_begin(b) == 8192);
//@| assert(leaf_wf(b));
//@| assert(leaf_cells(b) =~= eview(entries@).take(0));
//@| lemma_ents_sz_all(eview(entries@));
//@| assert(eview(entries@).take(0).len() == 0);
//@loop 1
//@| invariant *final(self.buf) == *final(old(self).buf), leaf_wf(self.b()), leaf_cells(self.b()) == eview(entries@).take(i as int),
//@|     pg_count(self.b()) == i, pg_begin(self.b()) == 8192 - (ents_sz(eview(entries@).take(i as int)) - 2 * i),
//@|     from_le64(self.b().subrange(16, 24)) == right_sibling.0, ents_sz(eview(entries@)) <= 8168,
//@|     forall|k: int| 0 <= k < entries@.len() ==> cell_sz((#[trigger] eview(entries@)[k]).0.len() as int) <= ents_sz(eview(entries@)),
//@proof before 1 "self.leaf_insert_at("
//@| lemma_ents_sz_step(eview(entries@), i as int);
//@| lemma_ents_sz_mono(eview(entries@), i + 1, entries@.len() as int);
//@| assert(eview(entries@).take(entries@.len() as int) =~= eview(entries@));
//@| assert(eview(entries@)[i as int] == (k@, *v));
//@proof after 1 "self.leaf_insert_at("
//@| assert(eview(entries@).take(i as int).insert(i as int, (k@, *v)) =~= eview(entries@).take(i + 1));
//@proof before 1 "=}"
//@| assert(eview(entries@).take(entries@.len() as int) =~= eview(entries@));
//@end
}

// ================================================================== internal split: cut point, rebuild
pub open spec fn kview(v: Seq<Vec<u8>>) -> Seq<(Seq<u8>, u64)> { Seq::new(v.len(), |i: int| (v[i]@, 0u64)) }
pub open spec fn iview(v: Seq<(Vec<u8>, PageId)>) -> Seq<(Seq<u8>, u64)> { Seq::new(v.len(), |i: int| (v[i].0@, v[i].1.0)) }
pub open spec fn firsts(s: Seq<(Seq<u8>, u64)>) -> Seq<Seq<u8>> { Seq::new(s.len(), |i: int| s[i].0) }
pub open spec fn seconds(s: Seq<(Seq<u8>, u64)>) -> Seq<u64> { Seq::new(s.len(), |i: int| s[i].1) }
/// with separator `m` moved up, the separators on each side of it fit one internal page
pub open spec fn promote_fits(s: Seq<(Seq<u8>, u64)>, m: int) -> bool { ents_sz(s.take(m)) <= 8160 && ents_sz(s.skip(m + 1)) <= 8160 }

// C26.split.internal_split_point — the separator chosen to move up leaves two sides that each fit an internal
// page; the search fails only when no choice does.
//@extract nervusdb-storage/src/index/btree.rs internal_split_point ret r
//@| requires ents_sz(kview(keys@)) <= usize::MAX,
//@| ensures r is Ok ==> 0 <= r->Ok_0 < keys@.len() && promote_fits(kview(keys@), r->Ok_0 as int),
//@|     r is Err ==> forall|m: int| 0 <= m < keys@.len() ==> !#[trigger] promote_fits(kview(keys@), m),
//@proof before 1 "let mut total = 0usize;"
//@| lemma_ents_sz_all(kview(keys@));
//@| assert(kview(keys@).take(0).len() == 0);
//@loop "for i in 0..keys.len()"
//@| invariant total == ents_sz(kview(keys@).take(i as int)), ents_sz(kview(keys@)) <= usize::MAX,
//@|     forall|k: int| 0 <= k < keys@.len() ==> cell_sz((#[trigger] kview(keys@)[k]).0.len() as int) <= ents_sz(kview(keys@)),
//@proof before 1 "total += cell_space("
//@| lemma_ents_sz_step(kview(keys@), i as int);
//@| lemma_ents_sz_mono(kview(keys@), i + 1, keys@.len() as int);
//@| assert(kview(keys@).take(keys@.len() as int) =~= kview(keys@));
//@| assert(kview(keys@)[i as int].0 == keys@[i as int]@);
//@proof before 1 "let mut best_mid = keys.len();"
//@| assert(kview(keys@).take(keys@.len() as int) =~= kview(keys@));
//@loop "for mid in 0..keys.len()"
//@| invariant left == ents_sz(kview(keys@).take(mid as int)), total == ents_sz(kview(keys@)), cap == 8160,
//@|     forall|k: int| 0 <= k < keys@.len() ==> cell_sz((#[trigger] kview(keys@)[k]).0.len() as int) <= ents_sz(kview(keys@)),
//@|     best_mid <= keys@.len(),
//@|     best_mid < keys@.len() ==> promote_fits(kview(keys@), best_mid as int),
//@|     best_mid == keys@.len() ==> forall|m: int| 0 <= m < mid ==> !#[trigger] promote_fits(kview(keys@), m),
//@proof before 1 "let right = total - left - "
//@| lemma_ents_sz_mono(kview(keys@), mid + 1, keys@.len() as int);
//@| assert(kview(keys@).take(keys@.len() as int) =~= kview(keys@));
//@| lemma_ents_sz_split(kview(keys@), mid + 1);
//@| lemma_ents_sz_step(kview(keys@), mid as int);
//@| assert(kview(keys@)[mid as int].0 == keys@[mid as int]@);
//@end

impl<'a> Page<'a> {
// C26.split.rebuild_internal — rebuilding an internal page from separators and children that fit succeeds and
// yields a well-formed page with exactly those separators and children, in order.
//@extract nervusdb-storage/src/index/btree.rs Page::rebuild_internal ret r
//@| requires ents_sz(iview(cells@)) <= 8160,
//@| ensures *final(final(self).buf) == *final(old(self).buf), r is Ok, internal_wf(final(self).b()),
//@|     int_seps(final(self).b()) == firsts(iview(cells@)), int_children(final(self).b()) == seconds(iview(cells@)),
//@|     int_child(final(self).b(), 0) == leftmost_child.0,
//@proof after 1 "self.init_internal(leftmost_child);"
//@| let b = self.b();
//@| assert(int_seps(b) =~= firsts(iview(cells@).take(0)));
//@| assert(int_children(b) =~= seconds(iview(cells@).take(0)));
//@| lemma_ents_sz_all(iview(cells@));
//@| assert(iview(cells@).take(0).len() == 0);
//@loop 1
//@| invariant *final(self.buf) == *final(old(self).buf), internal_wf(self.b()),
//@|     int_seps(self.b()) == firsts(iview(cells@).take(i as int)), int_children(self.b()) == seconds(iview(cells@).take(i as int)),
//@|     int_child(self.b(), 0) == leftmost_child.0,
//@|     pg_count(self.b()) == i, pg_begin(self.b()) == 8192 - (ents_sz(iview(cells@).take(i as int)) - 2 * i), ents_sz(iview(cells@)) <= 8160,
//@|     forall|k: int| 0 <= k < cells@.len() ==> cell_sz((#[trigger] iview(cells@)[k]).0.len() as int) <= ents_sz(iview(cells@)),
//@proof before 1 "self.internal_insert_at("
//@| lemma_ents_sz_step(iview(cells@), i as int);
//@| lemma_ents_sz_mono(iview(cells@), i + 1, cells@.len() as int);
//@| assert(iview(cells@).take(cells@.len() as int) =~= iview(cells@));
//@| assert(iview(cells@)[i as int] == (k@, child.0));
//@proof after 1 "self.internal_insert_at("
//@| assert(firsts(iview(cells@).take(i as int)).insert(i as int, k@) =~= firsts(iview(cells@).take(i + 1)));
//@| assert(seconds(iview(cells@).take(i as int)).insert(i as int, child.0) =~= seconds(iview(cells@).take(i + 1)));
//@proof before 1 "=Ok(())"
//@| assert(iview(cells@).take(cells@.len() as int) =~= iview(cells@));
//@end
}

/// right-sibling link of a page
pub open spec fn sib(b: Seq<u8>) -> u64 { from_le64(b.subrange(16, 24)) }
/// leaf `l` was full and has been split around the new entry: the entry went in front of all equal keys,
/// the run was cut in two, the left part stays in `l`, the right part went to page `r`, which is chained in
/// between `l` and l's old right sibling, `sep` is the first key of `r`, and no other page changed.
/// (r != l: that the allocator returns a page other than a live one is C18.)
pub open spec fn leaf_split_ok(o: &Pager, n: &Pager, l: u64, r: u64, i: int, key: Seq<u8>, payload: u64, sep: Seq<u8>) -> bool {
    leaf_wf(pg(o, l)) && 0 <= i <= pg_count(pg(o, l))
    && (forall|j: int| 0 <= j < i ==> lex_lt(#[trigger] leaf_cells(pg(o, l))[j].0, key))
    && (forall|j: int| i <= j < pg_count(pg(o, l)) ==> lex_le(key, #[trigger] leaf_cells(pg(o, l))[j].0))
    && (r != l ==> leaf_wf(pg(n, l)) && leaf_wf(pg(n, r))
        && leaf_cells(pg(n, l)) + leaf_cells(pg(n, r)) == leaf_cells(pg(o, l)).insert(i, (key, payload))
        && keys_sorted(leaf_cells(pg(n, l))) && keys_sorted(leaf_cells(pg(n, r)))
        && leaf_cells(pg(n, r)).len() >= 1 && sep == leaf_cells(pg(n, r))[0].0
        && sib(pg(n, l)) == r && sib(pg(n, r)) == sib(pg(o, l)))
    && (forall|x: u64| x != l && x != r ==> #[trigger] pg(n, x) == pg(o, x))
}
/// stands for what BTree::insert_into_parent does to the pages above the split leaf: NOT decided
pub uninterp spec fn parent_updated(n: &Pager) -> bool;
pub open spec fn at_most_two_changed(o: &Pager, n: &Pager) -> bool {
    forall|x: u64, y: u64, z: u64| pg(n, x) != pg(o, x) && pg(n, y) != pg(o, y) && pg(n, z) != pg(o, z) ==> x == y || y == z || x == z
}

pub proof fn lemma_leaf_cells_sz(b: Seq<u8>, i: int)
    requires leaf_wf(b), 0 <= i <= pg_count(b),
    ensures 0 <= ents_sz(leaf_cells(b).take(i)) <= i * 8207,
    decreases i
{
    if i == 0 { assert(leaf_cells(b).take(0).len() == 0); } else {
        lemma_leaf_cells_sz(b, i - 1);
        lemma_ents_sz_step(leaf_cells(b), i - 1);
        let off = pg_slot(b, i - 1);
        assert(lc_ok(b, off));
        axiom_vdec_bounds(b.skip(off));
    }
}
pub proof fn lemma_ents_sz_insert(s: Seq<(Seq<u8>, u64)>, pos: int, x: (Seq<u8>, u64))
    requires 0 <= pos <= s.len(),
    ensures ents_sz(s.insert(pos, x)) == ents_sz(s) + cell_sz(x.0.len() as int),
{
    let t = s.insert(pos, x);
    lemma_ents_sz_split(t, pos);
    lemma_ents_sz_split(s, pos);
    assert(t.take(pos) =~= s.take(pos));
    lemma_ents_sz_front(t.skip(pos));
    assert(t.skip(pos).skip(1) =~= s.skip(pos));
    assert(t.skip(pos)[0] == x);
}

//@trusted v_collect_leaf_entries: `(0..page.cell_count()).map(|i| { let (k, v) = page.leaf_cell_key_and_payload(i).unwrap(); (k.to_vec(), v) }).collect()` yields entry i of the page for i = 0..count in order (map/collect over a range: std; the closure body is Page::leaf_cell_key_and_payload, whose contract is proved in this unit and which cannot fail on a well-formed leaf: precondition)
#[verifier::external_body]
pub fn v_collect_leaf_entries<'a>(page: &Page<'a>) -> (r: Vec<(Vec<u8>, u64)>)
    requires leaf_wf(page.b()),
    ensures eview(r@) == leaf_cells(page.b()),
{ unimplemented!() }
//@trusted v_partition_point_lt: `entries.partition_point(|(k, _)| k.as_slice() < key)` on a run whose keys are in order (hence partitioned by `< key`: precondition) is the index of the first entry whose key is not below `key` (std)
#[verifier::external_body]
pub fn v_partition_point_lt(entries: &Vec<(Vec<u8>, u64)>, key: &[u8]) -> (r: usize)
    requires keys_sorted(eview(entries@)),
    ensures r <= entries@.len(),
        forall|j: int| 0 <= j < r ==> lex_lt(#[trigger] eview(entries@)[j].0, key@),
        forall|j: int| r <= j < entries@.len() ==> lex_le(key@, #[trigger] eview(entries@)[j].0),
{ unimplemented!() }
//@trusted v_entries_to_vec: `entries[a..b].to_vec()` clones the entries a..b in order (std; std panics unless a <= b <= len: precondition)
#[verifier::external_body]
pub fn v_entries_to_vec(entries: &Vec<(Vec<u8>, u64)>, a: usize, b: usize) -> (r: Vec<(Vec<u8>, u64)>)
    requires a <= b <= entries@.len(),
    ensures eview(r@) == eview(entries@).subrange(a as int, b as int),
{ unimplemented!() }
//@trusted v_bytes_clone: Vec<u8>::clone yields equal bytes (std)
#[verifier::external_body]
pub fn v_bytes_clone(v: &Vec<u8>) -> (r: Vec<u8>)
    ensures r@ == v@,
{ v.clone() }

impl BTree {
    //@trusted insert_into_parent: BTree::insert_into_parent (separator into the parent, internal split, new root) uses iterator adapters (zip/skip/collect) that Verus cannot ingest; it is replaced by this stub, which says nothing about what happens to the pages above the leaf - that part of a split is not decided
    #[verifier::external_body]
    pub fn insert_into_parent(&mut self, pager: &mut Pager, path: &mut Vec<PathEntry>, left_id: PageId, sep_key: Vec<u8>, right_id: PageId) -> (r: Result<()>)
        ensures parent_updated(final(pager))
    { unimplemented!() }

// C26.tree.insert.no_split / C26.tree.insert.split_leaf — tree-level contract of BTree::insert.  When the leaf
// reached by the descent has room: exactly one page changes, a leaf, by inserting exactly (key, payload) at the
// lower-bound position of the key in that leaf - in front of all equal keys there, so a lookup that reaches
// this leaf returns the new payload.  When it is full: at the moment insert_into_parent is called the store
// satisfies leaf_split_ok (in-body obligation) - the new entry is in front of all equal keys, the two halves
// hold exactly the old entries plus the new one in order, each half fits its page (rebuild_leaf's
// precondition, established from leaf_split_point's contract), the sibling chain runs l -> r -> old right
// sibling, and the separator handed to the parent is the first key of the right half.  What
// insert_into_parent then does is a stub: not decided.  Termination not proved.
//@extract nervusdb-storage/src/index/btree.rs BTree::insert ret r
//@attr #[verifier::exec_allows_no_decreases_clause]
//@| requires tree_pages_ok(old(pager)), key@.len() <= 0x7fff_ffff_ffff_ffff,
//@| ensures r is Ok ==> parent_updated(final(pager)) || exists|l: u64, i: int| #[trigger] inserted_at(old(pager), final(pager), l, i, key@, payload),
//@|     r is Err ==> parent_updated(final(pager)) || at_most_two_changed(old(pager), final(pager)),
//@preregex "(?s)\(0\.\.page\.cell_count\(\)\)\s*\.map\(\|i\| \{.*?\}\)\s*\.collect\(\);" => "v_collect_leaf_entries(&page);"
//@prewrite "entries.partition_point(|(k, _)| k.as_slice() < key)" => "v_partition_point_lt(&entries, key)"
//@prewrite "(key.to_vec(), payload)" => "(v_slice_to_vec(key), payload)"
//@prewrite "entries[..mid].to_vec()" => "v_entries_to_vec(&entries, 0, mid)"
//@prewrite "entries[mid..].to_vec()" => "v_entries_to_vec(&entries, mid, entries.len())"
//@preregex "(\w+)\[0\]\.0\.clone\(\)" => "v_bytes_clone(&\1[0].0)"
//@loop 1
//@| invariant tree_pages_ok(old(pager)), forall|o: u64| #[trigger] pg(pager, o) == pg(old(pager), o), *pager == *old(pager),
//@|     key@.len() <= 0x7fff_ffff_ffff_ffff,
//@proof before 1 "=return Ok(());"
//@| assert(inserted_at(old(pager), pager, cur.0, idx as int, key@, payload));
//@proof before 1 "let pos = " raw
//@| let ghost cells0 = leaf_cells(pg(old(pager), cur.0));
//@| proof { assert(page.b() == pg(old(pager), cur.0)); assert(eview(entries@) == cells0); }
//@proof after 1 "entries.insert(" raw
//@| let ghost cells1 = cells0.insert(pos as int, (key@, payload));
//@| proof {
//@|     assert(eview(entries@) =~= cells1);
//@|     lemma_leaf_cells_sz(pg(old(pager), cur.0), pg_count(pg(old(pager), cur.0)));
//@|     assert(cells0.take(cells0.len() as int) =~= cells0);
//@|     lemma_ents_sz_insert(cells0, pos as int, (key@, payload));
//@|     lemma_insert_at_lower_bound(cells0, pos as int, key@, payload);
//@| }
//@proof after 1 "let right_entries = "
//@| assert(eview(left_entries@) =~= cells1.take(mid as int));
//@| assert(eview(right_entries@) =~= cells1.skip(mid as int));
//@| assert(eview(right_entries@)[0] == (right_entries@[0].0@, right_entries@[0].1));
//@proof before 1 "self.insert_into_parent(" raw
//@| proof {
//@|     let o = old(pager); let l = cur.0; let rr = right_id.0;
//@|     if rr != l {
//@|         assert(pg(pager, l) == buf@ && pg(pager, rr) == right_buf@);
//@|         assert(leaf_cells(pg(pager, l)) + leaf_cells(pg(pager, rr)) =~= cells1);
//@|         assert(keys_sorted(leaf_cells(pg(pager, l)))) by {
//@|             assert forall|a: int, b: int| 0 <= a < b < mid implies lex_le(#[trigger] cells1.take(mid as int)[a].0, #[trigger] cells1.take(mid as int)[b].0) by { assert(lex_le(cells1[a].0, cells1[b].0)); }
//@|         }
//@|         assert(keys_sorted(leaf_cells(pg(pager, rr)))) by {
//@|             assert forall|a: int, b: int| 0 <= a < b < cells1.len() - mid implies lex_le(#[trigger] cells1.skip(mid as int)[a].0, #[trigger] cells1.skip(mid as int)[b].0) by { assert(lex_le(cells1[mid + a].0, cells1[mid + b].0)); }
//@|         }
//@|     }
//@|     assert(leaf_split_ok(o, pager, l, rr, pos as int, key@, payload, sep_key@));
//@| }
//@end
}

//@canary|pub proof fn canary_leaf_wf(b: Seq<u8>) requires leaf_wf(b), pg_count(b) == 3, keys_sorted(leaf_cells(b)), leaf_cells(b)[0].0 == leaf_cells(b)[1].0 ensures false {}
//@canary|pub proof fn canary_internal_wf(b: Seq<u8>) requires internal_wf(b), pg_count(b) == 2, seps_sorted(int_seps(b)) ensures false {}
//@canary|pub proof fn canary_insert_fits(b: Seq<u8>, k: Seq<u8>) requires leaf_wf(b), pg_count(b) == 1, k.len() == 300, 24 + 2 * pg_count(b) + 2 + vlen(k.len() as u32) + k.len() + 8 <= pg_begin(b) ensures false {}

} // verus!
// `Result::unwrap` (Page::rebuild_leaf) needs `Error: Debug` for its panic message; the derive is dropped by the
// extraction (R4), so a trivial impl stands in - the panic itself is proved unreachable.
impl core::fmt::Debug for Error { fn fmt(&self, f: &mut core::fmt::Formatter<'_>) -> core::fmt::Result { f.write_str("Error") } }
fn main() {}
