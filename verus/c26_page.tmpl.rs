// Verus unit c26_page — C26 (the on-disk B-tree as a sorted multimap), single-page scope.
// Slotted index page of nervusdb-storage/src/index/btree.rs: byte helpers, varints, Page::{kind, init_leaf,
// cell_count, cell_content_begin, slot_get/slot_set, free_space, shift_slots_*, leaf_cell_key_and_payload,
// internal_cell_key_and_right_child, leaf_lower_bound, internal_child_for_key, leaf_insert_at, delete_from_leaf}.
//@unit c26_page
//@rlimit 50
//@property C26
use vstd::prelude::*;
verus! {
//@include _prelude.rs

//@include _btree_page.rs

//@trusted v_bytes_ne: `!=` on byte slices is sequence inequality (std)
#[verifier::external_body]
pub fn v_bytes_ne(a: &[u8], b: &[u8]) -> (r: bool)
    ensures r == (a@ != b@)
{ a != b }

pub open spec fn only_changed(o: &Pager, n: &Pager, l: u64) -> bool { forall|x: u64| x != l ==> #[trigger] pg(n, x) == pg(o, x) }
pub open spec fn deleted_at(o: &Pager, n: &Pager, l: u64, i: int, key: Seq<u8>, payload: u64) -> bool {
    0 <= i < pg_count(pg(o, l)) && leaf_wf(pg(o, l)) && leaf_cells(pg(o, l))[i] == (key, payload)
    && leaf_wf(pg(n, l)) && leaf_cells(pg(n, l)) == leaf_cells(pg(o, l)).remove(i) && only_changed(o, n, l)
}
impl BTree {
// C26.tree.delete.exact — tree-level contract of BTree::delete over any page store whose index pages are
// well formed: Ok(false) changes nothing; Ok(true) changed exactly one leaf page, by removing exactly one
// entry, and that entry was (key, payload); no other page changes in any case.  (That a stored pair is
// always FOUND needs the cross-page tree invariant and is not decided here.)  Termination not proved.
//@extract nervusdb-storage/src/index/btree.rs BTree::delete ret r
//@attr #[verifier::exec_allows_no_decreases_clause]
//@| requires tree_pages_ok(old(pager)),
//@| ensures
//@|     (r is Ok && r->Ok_0 == false) ==> forall|o: u64| #[trigger] pg(final(pager), o) == pg(old(pager), o),
//@|     (r is Ok && r->Ok_0 == true) ==> exists|l: u64, i: int| #[trigger] deleted_at(old(pager), final(pager), l, i, key@, payload),
//@|     // a failed delete touched at most one page
//@|     r is Err ==> forall|x: u64, y: u64| pg(final(pager), x) != pg(old(pager), x) && pg(final(pager), y) != pg(old(pager), y) ==> x == y,
//@prewrite "if k != key {" => "if v_bytes_ne(k, key) {"
//@loop 1
//@| invariant tree_pages_ok(old(pager)), forall|o: u64| #[trigger] pg(pager, o) == pg(old(pager), o),
//@| ensures pg_kind_ok(pg(old(pager), cur.0)) && pg(old(pager), cur.0)[4] == 0,
//@loop 2
//@| invariant tree_pages_ok(old(pager)), forall|o: u64| #[trigger] pg(pager, o) == pg(old(pager), o),
//@|     buf@ == pg(old(pager), cur.0), leaf_wf(buf@), keys_sorted(leaf_cells(buf@)), idx <= 65535,
//@proof before 1 "=return Ok(true);"
//@| assert(deleted_at(old(pager), pager, cur.0, idx as int, key@, payload));
//@end
}

// ================================================================== tree level: the scan cursor over the leaf chain
//@item nervusdb-storage/src/index/btree.rs struct BTreeCursor
/// k-th leaf of the sibling chain that starts at leaf `l` (0 once the chain has ended)
pub open spec fn leaf_at(p: &Pager, l: u64, k: nat) -> u64
    decreases k
{
    if k == 0 { l } else {
        let prev = leaf_at(p, l, (k - 1) as nat);
        if prev == 0 { 0 } else { from_le64(pg(p, prev).subrange(16, 24)) }
    }
}
impl<'a> BTreeCursor<'a> {
    /// the cursor holds a faithful copy of a well-formed leaf of the store
    pub open spec fn ok(&self) -> bool {
        self.buf@ == pg(self.pager, self.leaf.0) && pg_kind_ok(self.buf@) && self.buf@[4] == 0 && leaf_wf(self.buf@)
            && self.slot <= pg_count(self.buf@) && self.leaf.0 != 0
    }
    /// moving from `o` the cursor skipped only empty leaves and stands on the first entry of leaf number n of the chain
    pub open spec fn skipped_to(o: &BTreeCursor<'a>, n_: &BTreeCursor<'a>, n: nat) -> bool {
        n >= 1 && n_.leaf.0 == leaf_at(o.pager, o.leaf.0, n) && n_.slot == 0 && n_.leaf.0 != 0
            && forall|j: nat| 1 <= j < n ==> leaf_at(o.pager, o.leaf.0, j) != 0 && pg_count(pg(o.pager, #[trigger] leaf_at(o.pager, o.leaf.0, j))) == 0
    }
    /// from `o` on there is no further entry: every later leaf of the chain is empty and the chain ends
    pub open spec fn exhausted(o: &BTreeCursor<'a>, n: nat) -> bool {
        leaf_at(o.pager, o.leaf.0, n + 1) == 0
            && forall|j: nat| 1 <= j <= n ==> leaf_at(o.pager, o.leaf.0, j) != 0 && pg_count(pg(o.pager, #[trigger] leaf_at(o.pager, o.leaf.0, j))) == 0
    }

//@extract nervusdb-storage/src/index/btree.rs BTreeCursor::is_valid ret r
//@| requires old(self).ok(),
//@| ensures *final(self) == *old(self), r is Ok, r->Ok_0 == (old(self).slot < pg_count(old(self).buf@)),
//@end
//@extract nervusdb-storage/src/index/btree.rs BTreeCursor::key ret r
//@| requires old(self).ok(), keys_sorted(leaf_cells(old(self).buf@)),
//@| ensures *final(self) == *old(self), r is Ok <==> old(self).slot < pg_count(old(self).buf@),
//@|     r is Ok ==> r->Ok_0@ == leaf_cells(old(self).buf@)[old(self).slot as int].0,
//@prewrite "Ok(k.to_vec())" => "Ok(v_slice_to_vec(k))"
//@end
//@extract nervusdb-storage/src/index/btree.rs BTreeCursor::payload ret r
//@| requires old(self).ok(),
//@| ensures *final(self) == *old(self), r is Ok <==> old(self).slot < pg_count(old(self).buf@),
//@|     r is Ok ==> r->Ok_0 == leaf_cells(old(self).buf@)[old(self).slot as int].1,
//@end

// C26.tree.cursor.advance — a scan step neither skips nor invents an entry: it moves to the next slot of
// the same leaf, or over EMPTY leaves only to the first entry of the next non-empty leaf of the chain;
// it reports the end only when every remaining leaf of the chain is empty.  Termination not proved.
//@extract nervusdb-storage/src/index/btree.rs BTreeCursor::advance ret r
//@attr #[verifier::exec_allows_no_decreases_clause]
//@| requires old(self).ok(), tree_pages_ok(old(self).pager),
//@| ensures final(self).pager == old(self).pager,
//@|     r is Ok ==> final(self).ok(),
//@|     (r is Ok && r->Ok_0) ==> final(self).slot < pg_count(final(self).buf@)
//@|         && ((final(self).leaf == old(self).leaf && final(self).slot == old(self).slot + 1 && final(self).buf@ == old(self).buf@)
//@|             || (old(self).slot + 1 >= pg_count(old(self).buf@) && exists|n: nat| #[trigger] BTreeCursor::skipped_to(old(self), final(self), n))),
//@|     (r is Ok && !r->Ok_0) ==> old(self).slot + 1 >= pg_count(old(self).buf@) && exists|n: nat| #[trigger] BTreeCursor::exhausted(old(self), n),
//@proof before 1 "=loop {" raw
//@| let ghost mut nn: nat = 0;
//@prewrite "self.slot = 0;" => "self.slot = 0; proof { nn = nn + 1; }"
//@loop "loop" 
//@| invariant self.pager == old(self).pager, tree_pages_ok(self.pager), self.ok(), old(self).ok(),
//@|     old(self).slot + 1 >= pg_count(old(self).buf@),
//@|     self.leaf.0 == leaf_at(old(self).pager, old(self).leaf.0, nn),
//@|     forall|j: nat| 1 <= j <= nn ==> leaf_at(old(self).pager, old(self).leaf.0, j) != 0 && pg_count(pg(old(self).pager, #[trigger] leaf_at(old(self).pager, old(self).leaf.0, j))) == 0,
//@proof before 1 "=return Ok(false);"
//@| assert(BTreeCursor::exhausted(old(self), nn));
//@proof before 2 "=return Ok(true);"
//@| assert(BTreeCursor::skipped_to(old(self), self, nn));
//@end
}

impl BTree {
// C26.tree.cursor_lower_bound — the cursor a lookup/scan starts from is a faithful copy of a well-formed
// leaf of the store, and it stands past the end of its leaf only when the leaf chain has ended (empty and
// exhausted leaves are stepped over).  (WHICH leaf and slot - that no entry >= target lies left of it and
// the entry under it is >= target - needs the cross-page ordering invariant and is not decided here.)
// Termination not proved.
//@extract nervusdb-storage/src/index/btree.rs BTree::cursor_lower_bound ret r
//@attr #[verifier::exec_allows_no_decreases_clause]
//@| requires tree_pages_ok(pager),
//@| ensures r is Ok ==> r->Ok_0.ok() && r->Ok_0.pager == pager
//@|     && (r->Ok_0.slot >= pg_count(r->Ok_0.buf@) ==> from_le64(r->Ok_0.buf@.subrange(16, 24)) == 0),
//@loop 1
//@| invariant tree_pages_ok(pager),
//@loop 2
//@| invariant tree_pages_ok(pager), leaf_buf@ == pg(pager, leaf_id.0), pg_kind_ok(leaf_buf@), leaf_buf@[4] == 0, leaf_wf(leaf_buf@), keys_sorted(leaf_cells(leaf_buf@)),
//@|     leaf_id.0 != 0, slot <= pg_count(leaf_buf@),
//@| ensures slot < pg_count(leaf_buf@) || from_le64(leaf_buf@.subrange(16, 24)) == 0,
//@end
}

//@item nervusdb-storage/src/index/btree.rs struct PathEntry keep-derive
/// an entry (key, payload) was put in front of all equal keys of leaf `l`, which had room; nothing else changed
pub open spec fn inserted_at(o: &Pager, n: &Pager, l: u64, i: int, key: Seq<u8>, payload: u64) -> bool {
    leaf_wf(pg(o, l)) && 0 <= i <= pg_count(pg(o, l))
    && (forall|j: int| 0 <= j < i ==> lex_lt(#[trigger] leaf_cells(pg(o, l))[j].0, key))
    && (forall|j: int| i <= j < pg_count(pg(o, l)) ==> lex_le(key, #[trigger] leaf_cells(pg(o, l))[j].0))
    && leaf_wf(pg(n, l)) && leaf_cells(pg(n, l)) == leaf_cells(pg(o, l)).insert(i, (key, payload)) && only_changed(o, n, l)
}
/// stands for the split branch of BTree::insert (leaf split, separator, insert_into_parent): NOT decided
pub uninterp spec fn split_happened(o: &Pager, n: &Pager) -> bool;
impl BTree {
    //@trusted v_split_branch: the `Err(_) => { .. }` arm of BTree::insert (collect the leaf's entries, split at the median, rebuild both leaves, insert the separator into the parent) uses iterator adapters (map/collect, partition_point, enumerate) that Verus cannot ingest; it is replaced by this stub, which says nothing about what the split does - cross-page behaviour is not decided
    #[verifier::external_body]
    pub fn v_split_branch(&mut self, pager: &mut Pager, path: &mut Vec<PathEntry>, cur: PageId, key: &[u8], payload: u64) -> (r: Result<()>)
        ensures split_happened(old(pager), final(pager))
    { unimplemented!() }

// C26.tree.insert.no_split — tree-level contract of BTree::insert for the case that the leaf reached by
// the descent has room: exactly one page changes, a leaf, by inserting exactly (key, payload) at the
// lower-bound position of the key in that leaf - in front of all equal keys there, so a lookup that
// reaches this leaf returns the new payload.  (The split case is a stub: not decided.)  Termination not proved.
//@extract nervusdb-storage/src/index/btree.rs BTree::insert ret r
//@attr #[verifier::exec_allows_no_decreases_clause]
//@| requires tree_pages_ok(old(pager)), key@.len() <= 0x7fff_ffff_ffff_ffff,
//@| ensures r is Ok ==> split_happened(old(pager), final(pager)) || exists|l: u64, i: int| #[trigger] inserted_at(old(pager), final(pager), l, i, key@, payload),
//@|     r is Err ==> split_happened(old(pager), final(pager)) || forall|x: u64, y: u64| pg(final(pager), x) != pg(old(pager), x) && pg(final(pager), y) != pg(old(pager), y) ==> x == y,
//@preregex "(?s)Err\(_\) => \{\s*// Split leaf\..*?self\.insert_into_parent\(pager, &mut path, cur, sep_key, right_id\)\?;\s*return Ok\(\(\)\);\s*\}" => "Err(_) => { return self.v_split_branch(pager, &mut path, cur, key, payload); }"
//@loop 1
//@| invariant tree_pages_ok(old(pager)), forall|o: u64| #[trigger] pg(pager, o) == pg(old(pager), o), *pager == *old(pager),
//@|     key@.len() <= 0x7fff_ffff_ffff_ffff,
//@proof before 1 "=return Ok(());"
//@| assert(inserted_at(old(pager), pager, cur.0, idx as int, key@, payload));
//@end
}

//@canary|pub proof fn canary_leaf_wf(b: Seq<u8>) requires leaf_wf(b), pg_count(b) == 3, keys_sorted(leaf_cells(b)), leaf_cells(b)[0].0 == leaf_cells(b)[1].0 ensures false {}
//@canary|pub proof fn canary_internal_wf(b: Seq<u8>) requires internal_wf(b), pg_count(b) == 2, seps_sorted(int_seps(b)) ensures false {}
//@canary|pub proof fn canary_insert_fits(b: Seq<u8>, k: Seq<u8>) requires leaf_wf(b), pg_count(b) == 1, k.len() == 300, 24 + 2 * pg_count(b) + 2 + vlen(k.len() as u32) + k.len() + 8 <= pg_begin(b) ensures false {}

} // verus!
fn main() {}
