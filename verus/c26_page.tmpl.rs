// Verus unit c26_page — C26 (the on-disk B-tree as a sorted multimap), single-page scope.
// Slotted index page of nervusdb-storage/src/index/btree.rs: byte helpers, varints, Page::{kind, init_leaf,
// cell_count, cell_content_begin, slot_get/slot_set, free_space, shift_slots_*, leaf_cell_key_and_payload,
// internal_cell_key_and_right_child, leaf_lower_bound, internal_child_for_key, leaf_insert_at, delete_from_leaf}.
//@unit c26_page
//@rlimit 50
//@property C26
use vstd::prelude::*;
verus! {
//@include _prelude.rs

//@include _btree_page.rs

//@trusted v_bytes_ne: `!=` on byte slices is sequence inequality (std)
#[verifier::external_body]
pub fn v_bytes_ne(a: &[u8], b: &[u8]) -> (r: bool)
    ensures r == (a@ != b@)
{ a != b }

pub open spec fn only_changed(o: &Pager, n: &Pager, l: u64) -> bool { forall|x: u64| x != l ==> #[trigger] pg(n, x) == pg(o, x) }
pub open spec fn deleted_at(o: &Pager, n: &Pager, l: u64, i: int, key: Seq<u8>, payload: u64) -> bool {
    0 <= i < pg_count(pg(o, l)) && leaf_wf(pg(o, l)) && leaf_cells(pg(o, l))[i] == (key, payload)
    && leaf_wf(pg(n, l)) && leaf_cells(pg(n, l)) == leaf_cells(pg(o, l)).remove(i) && only_changed(o, n, l)
}
impl BTree {
// C26.tree.delete.exact — tree-level contract of BTree::delete over any page store whose index pages are
// well formed: Ok(false) changes nothing; Ok(true) changed exactly one leaf page, by removing exactly one
// entry, and that entry was (key, payload); no other page changes in any case.  (That a stored pair is
// always FOUND needs the cross-page tree invariant and is not decided here.)  Termination not proved.
//@extract nervusdb-storage/src/index/btree.rs BTree::delete ret r
//@attr #[verifier::exec_allows_no_decreases_clause]
//@| requires tree_pages_ok(old(pager)),
//@| ensures
//@|     (r is Ok && r->Ok_0 == false) ==> forall|o: u64| #[trigger] pg(final(pager), o) == pg(old(pager), o),
//@|     (r is Ok && r->Ok_0 == true) ==> exists|l: u64, i: int| #[trigger] deleted_at(old(pager), final(pager), l, i, key@, payload),
//@|     // a failed delete touched at most one page
//@|     r is Err ==> forall|x: u64, y: u64| pg(final(pager), x) != pg(old(pager), x) && pg(final(pager), y) != pg(old(pager), y) ==> x == y,
//@|     final(self).root == old(self).root,
//@|     // WHERE it looks first: the leaf the descent by internal_child_for_key reaches, at the lower-bound slot of the key; when
//@|     // the entry there is the pair, that entry is the one removed
//@|     r is Ok ==> exists|l0: u64, h: nat| #[trigger] reaches(old(pager), old(self).root.0, key@, l0, h) && leaf_wf(pg(old(pager), l0))
//@|         && ({ let i0 = lb_pos(leaf_keys(pg(old(pager), l0)), key@);
//@|               i0 < pg_count(pg(old(pager), l0)) && leaf_cells(pg(old(pager), l0))[i0] == (key@, payload)
//@|                   ==> r->Ok_0 == true && deleted_at(old(pager), final(pager), l0, i0, key@, payload) }),
//@prewrite "if k != key {" => "if v_bytes_ne(k, key) {"
//@proof before 1 "let mut cur = self.root;" raw
//@| let ghost mut depth: nat = 0;
//@loop 1
//@| invariant tree_pages_ok(old(pager)), forall|o: u64| #[trigger] pg(pager, o) == pg(old(pager), o),
//@|     visits(old(pager), self.root.0, key@, cur.0, depth),
//@| ensures pg_kind_ok(pg(old(pager), cur.0)) && pg(old(pager), cur.0)[4] == 0,
//@|     visits(old(pager), self.root.0, key@, cur.0, depth),
//@proof after 1 "let (child, _) = page.internal_child_for_key(key)?;" raw
//@| proof {
//@|     let b = pg(old(pager), cur.0);
//@|     let pos = choose|pos: int| 0 <= pos <= pg_count(b) && child.0 == int_child(b, pos) && is_lb(int_seps(b), key@, pos);
//@|     lemma_visits_extend(old(pager), self.root.0, key@, cur.0, depth, pos);
//@|     depth = depth + 1;
//@| }
//@proof after 1 "let mut idx = " raw
//@| let ghost l0 = cur.0;
//@| let ghost idx0 = idx;
//@| let ghost mut moved: bool = false;
//@| proof {
//@|     lemma_visits_leaf(old(pager), self.root.0, key@, l0, depth);
//@|     assert(is_lb(leaf_keys(pg(old(pager), l0)), key@, idx as int));
//@|     lemma_lb_unique(leaf_keys(pg(old(pager), l0)), key@, idx as int, lb_pos(leaf_keys(pg(old(pager), l0)), key@));
//@| }
//@loop 2
//@| invariant tree_pages_ok(old(pager)), forall|o: u64| #[trigger] pg(pager, o) == pg(old(pager), o),
//@|     buf@ == pg(old(pager), cur.0), leaf_wf(buf@), keys_sorted(leaf_cells(buf@)), idx <= 65535,
//@|     !moved ==> cur.0 == l0 && idx == idx0,
//@|     moved ==> !(idx0 < pg_count(pg(old(pager), l0)) && leaf_cells(pg(old(pager), l0))[idx0 as int] == (key@, payload)),
//@|     idx0 as int == lb_pos(leaf_keys(pg(old(pager), l0)), key@), leaf_wf(pg(old(pager), l0)),
//@|     reaches(old(pager), self.root.0, key@, l0, depth),
//@proof before 1 "=return Ok(true);"
//@| assert(deleted_at(old(pager), pager, cur.0, idx as int, key@, payload));
//@proof? before 1 "=continue;" raw
//@| proof { moved = true; }
//@proof? before 1 "=idx += 1;" raw
//@| proof { moved = true; }
//@end
}

// ================================================================== tree level: the scan cursor over the leaf chain
//@item nervusdb-storage/src/index/btree.rs struct BTreeCursor
/// k-th leaf of the sibling chain that starts at leaf `l` (0 once the chain has ended)
pub open spec fn leaf_at(p: &Pager, l: u64, k: nat) -> u64
    decreases k
{
    if k == 0 { l } else {
        let prev = leaf_at(p, l, (k - 1) as nat);
        if prev == 0 { 0 } else { from_le64(pg(p, prev).subrange(16, 24)) }
    }
}
impl<'a> BTreeCursor<'a> {
    /// the cursor holds a faithful copy of a well-formed leaf of the store
    pub open spec fn ok(&self) -> bool {
        self.buf@ == pg(self.pager, self.leaf.0) && pg_kind_ok(self.buf@) && self.buf@[4] == 0 && leaf_wf(self.buf@)
            && self.slot <= pg_count(self.buf@) && self.leaf.0 != 0
    }
    /// moving from `o` the cursor skipped only empty leaves and stands on the first entry of leaf number n of the chain
    pub open spec fn skipped_to(o: &BTreeCursor<'a>, n_: &BTreeCursor<'a>, n: nat) -> bool {
        n >= 1 && n_.leaf.0 == leaf_at(o.pager, o.leaf.0, n) && n_.slot == 0 && n_.leaf.0 != 0
            && forall|j: nat| 1 <= j < n ==> leaf_at(o.pager, o.leaf.0, j) != 0 && pg_count(pg(o.pager, #[trigger] leaf_at(o.pager, o.leaf.0, j))) == 0
    }
    /// from `o` on there is no further entry: every later leaf of the chain is empty and the chain ends
    pub open spec fn exhausted(o: &BTreeCursor<'a>, n: nat) -> bool {
        leaf_at(o.pager, o.leaf.0, n + 1) == 0
            && forall|j: nat| 1 <= j <= n ==> leaf_at(o.pager, o.leaf.0, j) != 0 && pg_count(pg(o.pager, #[trigger] leaf_at(o.pager, o.leaf.0, j))) == 0
    }

//@extract nervusdb-storage/src/index/btree.rs BTreeCursor::is_valid ret r
//@| requires old(self).ok(),
//@| ensures *final(self) == *old(self), r is Ok, r->Ok_0 == (old(self).slot < pg_count(old(self).buf@)),
//@end
//@extract nervusdb-storage/src/index/btree.rs BTreeCursor::key ret r
//@| requires old(self).ok(), keys_sorted(leaf_cells(old(self).buf@)),
//@| ensures *final(self) == *old(self), r is Ok <==> old(self).slot < pg_count(old(self).buf@),
//@|     r is Ok ==> r->Ok_0@ == leaf_cells(old(self).buf@)[old(self).slot as int].0,
//@prewrite "Ok(k.to_vec())" => "Ok(v_slice_to_vec(k))"
//@end
//@extract nervusdb-storage/src/index/btree.rs BTreeCursor::payload ret r
//@| requires old(self).ok(),
//@| ensures *final(self) == *old(self), r is Ok <==> old(self).slot < pg_count(old(self).buf@),
//@|     r is Ok ==> r->Ok_0 == leaf_cells(old(self).buf@)[old(self).slot as int].1,
//@end

// C26.tree.cursor.advance — a scan step neither skips nor invents an entry: it moves to the next slot of
// the same leaf, or over EMPTY leaves only to the first entry of the next non-empty leaf of the chain;
// it reports the end only when every remaining leaf of the chain is empty.  Termination not proved.
//@extract nervusdb-storage/src/index/btree.rs BTreeCursor::advance ret r
//@attr #[verifier::exec_allows_no_decreases_clause]
//@| requires old(self).ok(), tree_pages_ok(old(self).pager),
//@| ensures final(self).pager == old(self).pager,
//@|     r is Ok ==> final(self).ok(),
//@|     (r is Ok && r->Ok_0) ==> final(self).slot < pg_count(final(self).buf@)
//@|         && ((final(self).leaf == old(self).leaf && final(self).slot == old(self).slot + 1 && final(self).buf@ == old(self).buf@)
//@|             || (old(self).slot + 1 >= pg_count(old(self).buf@) && exists|n: nat| #[trigger] BTreeCursor::skipped_to(old(self), final(self), n))),
//@|     (r is Ok && !r->Ok_0) ==> old(self).slot + 1 >= pg_count(old(self).buf@) && exists|n: nat| #[trigger] BTreeCursor::exhausted(old(self), n),
//@proof before 1 "=loop {" raw
//@| let ghost mut nn: nat = 0;
//@prewrite "self.slot = 0;" => "self.slot = 0; proof { nn = nn + 1; }"
//@loop "loop" 
//@| invariant self.pager == old(self).pager, tree_pages_ok(self.pager), self.ok(), old(self).ok(),
//@|     old(self).slot + 1 >= pg_count(old(self).buf@),
//@|     self.leaf.0 == leaf_at(old(self).pager, old(self).leaf.0, nn),
//@|     forall|j: nat| 1 <= j <= nn ==> leaf_at(old(self).pager, old(self).leaf.0, j) != 0 && pg_count(pg(old(self).pager, #[trigger] leaf_at(old(self).pager, old(self).leaf.0, j))) == 0,
//@proof before 1 "=return Ok(false);"
//@| assert(BTreeCursor::exhausted(old(self), nn));
//@proof before 2 "=return Ok(true);"
//@| assert(BTreeCursor::skipped_to(old(self), self, nn));
//@end
}

// ================================================================== the descent as a relation on the page store
/// `pos` is the position both searches return: everything before it is below the key, nothing from it on is
pub open spec fn is_lb(ks: Seq<Seq<u8>>, key: Seq<u8>, pos: int) -> bool {
    0 <= pos <= ks.len() && (forall|j: int| 0 <= j < pos ==> lex_lt(#[trigger] ks[j], key)) && (forall|j: int| pos <= j < ks.len() ==> lex_le(key, #[trigger] ks[j]))
}
pub proof fn lemma_lb_unique(ks: Seq<Seq<u8>>, key: Seq<u8>, p: int, q: int)
    requires is_lb(ks, key, p), is_lb(ks, key, q),
    ensures p == q,
{
    if p < q { assert(lex_le(key, ks[p])); assert(lex_lt(ks[p], key)); }
    if q < p { assert(lex_le(key, ks[q])); assert(lex_lt(ks[q], key)); }
}
pub open spec fn lb_pos(ks: Seq<Seq<u8>>, key: Seq<u8>) -> int { choose|pos: int| is_lb(ks, key, pos) }
pub open spec fn leaf_keys(b: Seq<u8>) -> Seq<Seq<u8>> { Seq::new(pg_count(b) as nat, |i: int| leaf_cells(b)[i].0) }
/// following internal_child_for_key from page `cur` for at most `h` levels ends in leaf `l`
pub open spec fn reaches(p: &Pager, cur: u64, key: Seq<u8>, l: u64, h: nat) -> bool
    decreases h
{
    if pg_kind_ok(pg(p, cur)) && pg(p, cur)[4] == 0 { cur == l }
    else if h == 0 { false }
    else { pg_kind_ok(pg(p, cur)) && pg(p, cur)[4] == 1 && (exists|pos: int| is_lb(int_seps(pg(p, cur)), key, pos))
           && reaches(p, int_child(pg(p, cur), lb_pos(int_seps(pg(p, cur)), key)), key, l, (h - 1) as nat) }
}
/// one step of the descent, in the direction the loops take it
pub proof fn lemma_reaches_step(p: &Pager, cur: u64, key: Seq<u8>, pos: int, l: u64, h: nat)
    requires pg_kind_ok(pg(p, cur)), pg(p, cur)[4] == 1, is_lb(int_seps(pg(p, cur)), key, pos), reaches(p, int_child(pg(p, cur), pos), key, l, h),
    ensures reaches(p, cur, key, l, h + 1),
{
    lemma_lb_unique(int_seps(pg(p, cur)), key, pos, lb_pos(int_seps(pg(p, cur)), key));
}
/// the descent is a function of the store and the key
pub proof fn lemma_reaches_unique(p: &Pager, cur: u64, key: Seq<u8>, l1: u64, h1: nat, l2: u64, h2: nat)
    requires reaches(p, cur, key, l1, h1), reaches(p, cur, key, l2, h2),
    ensures l1 == l2,
    decreases h1
{
    if pg_kind_ok(pg(p, cur)) && pg(p, cur)[4] == 0 { } else {
        lemma_reaches_unique(p, int_child(pg(p, cur), lb_pos(int_seps(pg(p, cur)), key)), key, l1, (h1 - 1) as nat, l2, (h2 - 1) as nat);
    }
}
/// a change confined to one leaf page (which stays a leaf) does not redirect any descent
pub proof fn lemma_reaches_frame(o: &Pager, n: &Pager, cur: u64, key: Seq<u8>, l: u64, h: nat, changed: u64)
    requires reaches(o, cur, key, l, h), only_changed(o, n, changed),
        pg_kind_ok(pg(o, changed)) && pg(o, changed)[4] == 0, pg_kind_ok(pg(n, changed)) && pg(n, changed)[4] == 0,
    ensures reaches(n, cur, key, l, h),
    decreases h
{
    if pg_kind_ok(pg(o, cur)) && pg(o, cur)[4] == 0 {
        if cur != changed { assert(pg(n, cur) == pg(o, cur)); }
    } else {
        assert(cur != changed);
        assert(pg(n, cur) == pg(o, cur));
        lemma_reaches_frame(o, n, int_child(pg(o, cur), lb_pos(int_seps(pg(o, cur)), key)), key, l, (h - 1) as nat, changed);
    }
}

/// the descent from `cur` for the key passes through page `x` within `h` levels
pub open spec fn visits(p: &Pager, cur: u64, key: Seq<u8>, x: u64, h: nat) -> bool
    decreases h
{
    cur == x || (h > 0 && pg_kind_ok(pg(p, cur)) && pg(p, cur)[4] == 1 && (exists|pos: int| is_lb(int_seps(pg(p, cur)), key, pos))
                 && visits(p, int_child(pg(p, cur), lb_pos(int_seps(pg(p, cur)), key)), key, x, (h - 1) as nat))
}
/// if the descent passes through internal page `cur`, it passes through the child it chooses there
pub proof fn lemma_visits_extend(p: &Pager, root: u64, key: Seq<u8>, cur: u64, h: nat, pos: int)
    requires visits(p, root, key, cur, h), pg_kind_ok(pg(p, cur)), pg(p, cur)[4] == 1, is_lb(int_seps(pg(p, cur)), key, pos),
    ensures visits(p, root, key, int_child(pg(p, cur), pos), h + 1),
    decreases h
{
    lemma_lb_unique(int_seps(pg(p, cur)), key, pos, lb_pos(int_seps(pg(p, cur)), key));
    let child = int_child(pg(p, cur), pos);
    if root == cur {
        assert(visits(p, child, key, child, 0nat));
        assert(visits(p, root, key, child, 1nat));
        if h > 0 { lemma_visits_mono(p, root, key, child, 1, h + 1); }
    } else {
        lemma_visits_extend(p, int_child(pg(p, root), lb_pos(int_seps(pg(p, root)), key)), key, cur, (h - 1) as nat, pos);
    }
}
pub proof fn lemma_visits_mono(p: &Pager, cur: u64, key: Seq<u8>, x: u64, h: nat, h2: nat)
    requires visits(p, cur, key, x, h), h <= h2,
    ensures visits(p, cur, key, x, h2),
    decreases h
{
    if cur != x { lemma_visits_mono(p, int_child(pg(p, cur), lb_pos(int_seps(pg(p, cur)), key)), key, x, (h - 1) as nat, (h2 - 1) as nat); }
}
/// a descent that passes through a leaf ends there
pub proof fn lemma_visits_leaf(p: &Pager, cur: u64, key: Seq<u8>, x: u64, h: nat)
    requires visits(p, cur, key, x, h), pg_kind_ok(pg(p, x)) && pg(p, x)[4] == 0,
    ensures reaches(p, cur, key, x, h),
    decreases h
{
    if cur != x { lemma_visits_leaf(p, int_child(pg(p, cur), lb_pos(int_seps(pg(p, cur)), key)), key, x, (h - 1) as nat); }
}
/// C18.btree.frame — every ALLOCATED page whose stored content differs between `o` and `n` is one of the pages of
/// the recorded descent (pages that were free in `o` may have been allocated and written)
pub open spec fn frame_path(o: &Pager, n: &Pager, path: Seq<PathEntry>) -> bool {
    forall|x: u64| live(o, x) && #[trigger] pg(n, x) != pg(o, x) ==> exists|k: int| 0 <= k < path.len() && path[k].page.0 == x
}
pub open spec fn live_kept(o: &Pager, n: &Pager) -> bool { forall|x: u64| live(o, x) ==> #[trigger] live(n, x) }
/// no allocated page changed
pub proof fn lemma_frame_none(o: &Pager, n: &Pager, path: Seq<PathEntry>)
    requires forall|x: u64| live(o, x) ==> #[trigger] pg(n, x) == pg(o, x),
    ensures frame_path(o, n, path),
{ }
/// only the last recorded page changed
pub proof fn lemma_frame_last(o: &Pager, n: &Pager, path: Seq<PathEntry>)
    requires path.len() > 0, forall|x: u64| live(o, x) && x != path.last().page.0 ==> #[trigger] pg(n, x) == pg(o, x),
    ensures frame_path(o, n, path),
{
    assert forall|x: u64| live(o, x) && #[trigger] pg(n, x) != pg(o, x) implies exists|k: int| 0 <= k < path.len() && path[k].page.0 == x by {
        assert(path[path.len() - 1].page.0 == x);
    }
}
/// the last recorded page changed first (o -> m), then pages of the rest of the record (m -> n)
pub proof fn lemma_frame_compose(o: &Pager, m: &Pager, n: &Pager, path: Seq<PathEntry>)
    requires path.len() > 0, live_kept(o, m), live_kept(m, n), frame_path(m, n, path.drop_last()),
        forall|x: u64| live(o, x) && x != path.last().page.0 ==> #[trigger] pg(m, x) == pg(o, x),
    ensures frame_path(o, n, path), live_kept(o, n),
{
    assert forall|x: u64| live(o, x) && #[trigger] pg(n, x) != pg(o, x) implies exists|k: int| 0 <= k < path.len() && path[k].page.0 == x by {
        if pg(m, x) != pg(o, x) { assert(path[path.len() - 1].page.0 == x); }
        else {
            assert(live(m, x) && pg(n, x) != pg(m, x));
            let k = choose|k: int| 0 <= k < path.drop_last().len() && path.drop_last()[k].page.0 == x;
            assert(path[k].page.0 == x);
        }
    }
}
/// what a frame says about one page
pub proof fn lemma_frame_elim(o: &Pager, n: &Pager, path: Seq<PathEntry>, x: u64)
    requires frame_path(o, n, path), live(o, x), pg(n, x) != pg(o, x),
    ensures exists|k: int| 0 <= k < path.len() && path[k].page.0 == x,
{ }

impl BTree {
// C26.tree.cursor_lower_bound — the cursor a lookup/scan starts from is a faithful copy of a well-formed
// leaf of the store, and it stands past the end of its leaf only when the leaf chain has ended (empty and
// exhausted leaves are stepped over).  WHICH leaf and slot: the leaf that the descent by
// internal_child_for_key ends in (relation `reaches`) and the lower-bound slot of the key there, whenever
// that slot holds an entry.  (That no entry >= target lies LEFT of that leaf needs the cross-page ordering
// invariant and is not decided here.)  Termination not proved.
//@extract nervusdb-storage/src/index/btree.rs BTree::cursor_lower_bound ret r
//@attr #[verifier::exec_allows_no_decreases_clause]
//@| requires tree_pages_ok(pager),
//@| ensures r is Ok ==> r->Ok_0.ok() && r->Ok_0.pager == pager
//@|     && (r->Ok_0.slot >= pg_count(r->Ok_0.buf@) ==> from_le64(r->Ok_0.buf@.subrange(16, 24)) == 0),
//@|     // WHICH leaf and slot: the leaf the descent by internal_child_for_key ends in and the lower-bound slot of
//@|     // the key there, whenever that slot holds an entry (otherwise the walk to the right above applies)
//@|     r is Ok ==> exists|l0: u64, h: nat| #[trigger] reaches(pager, self.root.0, key@, l0, h) && leaf_wf(pg(pager, l0))
//@|         && (lb_pos(leaf_keys(pg(pager, l0)), key@) < pg_count(pg(pager, l0)) ==> r->Ok_0.leaf.0 == l0 && r->Ok_0.slot == lb_pos(leaf_keys(pg(pager, l0)), key@))
//@|         // every key of that leaf is below the target: the cursor starts at the first entry of the right sibling when that one has entries
//@|         && (lb_pos(leaf_keys(pg(pager, l0)), key@) >= pg_count(pg(pager, l0)) && pg_count(pg(pager, l0)) > 0 && sib(pg(pager, l0)) != 0 && pg_count(pg(pager, sib(pg(pager, l0)))) > 0
//@|                 ==> r->Ok_0.leaf.0 == sib(pg(pager, l0)) && r->Ok_0.slot == 0),
//@proof before 1 "let mut cur = self.root;" raw
//@| let ghost mut depth: nat = 0;
//@loop 1
//@| invariant tree_pages_ok(pager),
//@|     visits(pager, self.root.0, key@, cur.0, depth),
//@proof after 1 "let (child, _) = page.internal_child_for_key(key)?;" raw
//@| proof {
//@|     let b = pg(pager, cur.0);
//@|     let pos = choose|pos: int| 0 <= pos <= pg_count(b) && child.0 == int_child(b, pos) && is_lb(int_seps(b), key@, pos);
//@|     lemma_visits_extend(pager, self.root.0, key@, cur.0, depth, pos);
//@|     depth = depth + 1;
//@| }
//@proof after 1 "let mut slot = page.leaf_lower_bound(key)? as u16;" raw
//@| let ghost l0 = cur.0;
//@| let ghost slot0 = slot;
//@| proof {
//@|     lemma_visits_leaf(pager, self.root.0, key@, l0, depth);
//@|     assert(is_lb(leaf_keys(pg(pager, l0)), key@, slot as int));
//@|     lemma_lb_unique(leaf_keys(pg(pager, l0)), key@, slot as int, lb_pos(leaf_keys(pg(pager, l0)), key@));
//@| }
//@loop? 2
//@| invariant tree_pages_ok(pager), leaf_buf@ == pg(pager, leaf_id.0), pg_kind_ok(leaf_buf@), leaf_buf@[4] == 0, leaf_wf(leaf_buf@), keys_sorted(leaf_cells(leaf_buf@)),
//@|     leaf_id.0 != 0, slot <= pg_count(leaf_buf@),
//@|     (leaf_id.0 == l0 && slot == slot0) || slot0 as int >= pg_count(pg(pager, l0)),
//@|     (leaf_id.0 == l0 && slot == slot0) || (pg_count(pg(pager, l0)) > 0 ==> leaf_id.0 == sib(pg(pager, l0)) && slot == 0) || (pg_count(pg(pager, l0)) > 0 && pg_count(pg(pager, sib(pg(pager, l0)))) == 0),
//@| ensures slot < pg_count(leaf_buf@) || from_le64(leaf_buf@.subrange(16, 24)) == 0,
//@|     (leaf_id.0 == l0 && slot == slot0) || slot0 as int >= pg_count(pg(pager, l0)),
//@|     (leaf_id.0 == l0 && slot == slot0) || (pg_count(pg(pager, l0)) > 0 ==> leaf_id.0 == sib(pg(pager, l0)) && slot == 0) || (pg_count(pg(pager, l0)) > 0 && pg_count(pg(pager, sib(pg(pager, l0)))) == 0),
//@end
}

//@item nervusdb-storage/src/index/btree.rs struct PathEntry keep-derive
/// an entry (key, payload) was put in front of all equal keys of leaf `l`, which had room; nothing else changed
pub open spec fn inserted_at(o: &Pager, n: &Pager, l: u64, i: int, key: Seq<u8>, payload: u64) -> bool {
    leaf_wf(pg(o, l)) && 0 <= i <= pg_count(pg(o, l))
    && (forall|j: int| 0 <= j < i ==> lex_lt(#[trigger] leaf_cells(pg(o, l))[j].0, key))
    && (forall|j: int| i <= j < pg_count(pg(o, l)) ==> lex_le(key, #[trigger] leaf_cells(pg(o, l))[j].0))
    && leaf_wf(pg(n, l)) && leaf_cells(pg(n, l)) == leaf_cells(pg(o, l)).insert(i, (key, payload)) && only_changed(o, n, l)
    && pg(n, l).subrange(16, 24) == pg(o, l).subrange(16, 24)
}
// ================================================================== leaf split: sizes, cut point, rebuild
/// bytes one cell with a key of `klen` bytes takes in a page: slot, key length varint, key, payload / child id
pub open spec fn cell_sz(klen: int) -> int { 2 + vlen(klen as u32) + klen + 8 }
/// bytes a run of entries takes in a page (without the page header)
pub open spec fn ents_sz(s: Seq<(Seq<u8>, u64)>) -> int
    decreases s.len()
{ if s.len() == 0 { 0 } else { ents_sz(s.drop_last()) + cell_sz(s.last().0.len() as int) } }
/// abstract view of an in-memory run of entries
pub open spec fn eview(v: Seq<(Vec<u8>, u64)>) -> Seq<(Seq<u8>, u64)> { Seq::new(v.len(), |i: int| (v[i].0@, v[i].1)) }

pub proof fn lemma_ents_sz_step(s: Seq<(Seq<u8>, u64)>, i: int)
    requires 0 <= i < s.len(),
    ensures ents_sz(s.take(i + 1)) == ents_sz(s.take(i)) + cell_sz(s[i].0.len() as int), ents_sz(s.take(i)) >= 0, cell_sz(s[i].0.len() as int) >= 11,
    decreases i
{
    assert(s.take(i + 1).drop_last() =~= s.take(i));
    assert(s.take(i + 1).last() == s[i]);
    if i > 0 { lemma_ents_sz_step(s, i - 1); } else { assert(s.take(0).len() == 0); }
}
pub proof fn lemma_ents_sz_mono(s: Seq<(Seq<u8>, u64)>, i: int, j: int)
    requires 0 <= i <= j <= s.len(),
    ensures 0 <= ents_sz(s.take(i)) <= ents_sz(s.take(j)),
    decreases j - i
{
    if i < j { lemma_ents_sz_step(s, j - 1); lemma_ents_sz_mono(s, i, j - 1); }
    else if i > 0 { lemma_ents_sz_step(s, i - 1); } else { assert(s.take(0).len() == 0); }
}
/// a run is as large as its two halves together
pub proof fn lemma_ents_sz_split(s: Seq<(Seq<u8>, u64)>, m: int)
    requires 0 <= m <= s.len(),
    ensures ents_sz(s) == ents_sz(s.take(m)) + ents_sz(s.skip(m)), ents_sz(s.skip(m)) >= 0,
    decreases s.len() - m
{
    if m == s.len() {
        assert(s.take(m) =~= s); assert(s.skip(m).len() == 0);
    } else {
        lemma_ents_sz_split(s, m + 1);
        lemma_ents_sz_step(s, m);
        // skip(m) = [s[m]] + skip(m + 1): peel the first element of skip(m) by induction on its own prefix sums
        lemma_ents_sz_front(s.skip(m));
        assert(s.skip(m).skip(1) =~= s.skip(m + 1));
    }
}
/// a run is its first entry plus the rest
pub proof fn lemma_ents_sz_front(s: Seq<(Seq<u8>, u64)>)
    requires s.len() >= 1,
    ensures ents_sz(s) == cell_sz(s[0].0.len() as int) + ents_sz(s.skip(1)), ents_sz(s.skip(1)) >= 0,
    decreases s.len()
{
    if s.len() == 1 {
        assert(s.drop_last().len() == 0); assert(s.skip(1).len() == 0);
        assert(ents_sz(s.drop_last()) == 0); assert(ents_sz(s.skip(1)) == 0); assert(s.last() == s[0]);
    } else {
        let t = s.skip(1);
        assert(t.len() >= 1);
        assert(ents_sz(t) == ents_sz(t.drop_last()) + cell_sz(t.last().0.len() as int));
        lemma_ents_sz_front(s.drop_last());
        assert(s.drop_last().skip(1) =~= s.skip(1).drop_last());
        assert(s.skip(1).last() == s.last());
        assert(s.drop_last()[0] == s[0]);
    }
}
pub proof fn lemma_ents_sz_all(s: Seq<(Seq<u8>, u64)>)
    ensures ents_sz(s) >= 0, forall|i: int| 0 <= i < s.len() ==> cell_sz((#[trigger] s[i]).0.len() as int) <= ents_sz(s),
{
    assert(s.take(s.len() as int) =~= s);
    assert forall|i: int| 0 <= i < s.len() implies cell_sz((#[trigger] s[i]).0.len() as int) <= ents_sz(s) by {
        lemma_ents_sz_step(s, i); lemma_ents_sz_mono(s, i + 1, s.len() as int);
    }
    lemma_ents_sz_mono(s, 0, s.len() as int);
}
/// both halves of a cut at `m` fit one leaf page
pub open spec fn cut_fits(s: Seq<(Seq<u8>, u64)>, m: int) -> bool { ents_sz(s.take(m)) <= 8168 && ents_sz(s.skip(m)) <= 8168 }

// C26.split.cell_space — the size the split code charges per cell is the size leaf_insert_at needs for it.
//@extract nervusdb-storage/src/index/btree.rs cell_space ret r
//@| requires cell_sz(key_len as int) <= usize::MAX,
//@| ensures r == cell_sz(key_len as int),
//@end

// C26.split.leaf_split_point — a cut returned by the split-point search leaves a non-empty right half and
// two halves that each fit a leaf page; the search fails only when no cut does.
//@extract nervusdb-storage/src/index/btree.rs leaf_split_point ret r
//@| requires entries@.len() >= 1, ents_sz(eview(entries@)) <= usize::MAX,
//@| ensures r is Ok ==> 0 <= r->Ok_0 < entries@.len() && cut_fits(eview(entries@), r->Ok_0 as int),
//@|     r is Err ==> forall|m: int| 0 <= m < entries@.len() ==> !#[trigger] cut_fits(eview(entries@), m),
//@proof before 1 "let mut total = 0usize;"
//@| lemma_ents_sz_all(eview(entries@));
//@| assert(eview(entries@).take(0).len() == 0);
//@loop "for i in 0..entries.len()"
//@| invariant total == ents_sz(eview(entries@).take(i as int)), ents_sz(eview(entries@)) <= usize::MAX,
//@|     forall|k: int| 0 <= k < entries@.len() ==> cell_sz((#[trigger] eview(entries@)[k]).0.len() as int) <= ents_sz(eview(entries@)),
//@proof before 1 "total += cell_space("
//@| lemma_ents_sz_step(eview(entries@), i as int);
//@| lemma_ents_sz_mono(eview(entries@), i + 1, entries@.len() as int);
//@| assert(eview(entries@).take(entries@.len() as int) =~= eview(entries@));
//@| assert(eview(entries@)[i as int].0 == entries@[i as int].0@);
//@proof before 1 "let mut best_mid = entries.len();"
//@| assert(eview(entries@).take(entries@.len() as int) =~= eview(entries@));
//@loop "for mid in 0..entries.len()"
//@| invariant left == ents_sz(eview(entries@).take(mid as int)), total == ents_sz(eview(entries@)), cap == 8168,
//@|     forall|k: int| 0 <= k < entries@.len() ==> cell_sz((#[trigger] eview(entries@)[k]).0.len() as int) <= ents_sz(eview(entries@)),
//@|     best_mid <= entries@.len(),
//@|     best_mid < entries@.len() ==> cut_fits(eview(entries@), best_mid as int),
//@|     best_mid == entries@.len() ==> forall|m: int| 0 <= m < mid ==> !#[trigger] cut_fits(eview(entries@), m),
//@proof before 1 "let right = total - left;"
//@| lemma_ents_sz_mono(eview(entries@), mid as int, entries@.len() as int);
//@| assert(eview(entries@).take(entries@.len() as int) =~= eview(entries@));
//@| lemma_ents_sz_split(eview(entries@), mid as int);
//@| lemma_ents_sz_step(eview(entries@), mid as int);
//@| lemma_ents_sz_mono(eview(entries@), mid + 1, entries@.len() as int);
//@| assert(eview(entries@)[mid as int].0 == entries@[mid as int].0@);
//@end

impl<'a> Page<'a> {
// C26.split.rebuild_leaf — rebuilding a page from a run of entries that fits yields a well-formed leaf whose
// view is exactly that run, in the same order, with the given right sibling; no insertion can fail (the
// `unwrap()` of the original is a proved obligation).
//@extract nervusdb-storage/src/index/btree.rs Page::rebuild_leaf
//@| requires ents_sz(eview(entries@)) <= 8168,
//@| ensures *final(final(self).buf) == *final(old(self).buf), leaf_wf(final(self).b()), leaf_cells(final(self).b()) == eview(entries@),
//@|     from_le64(final(self).b().subrange(16, 24)) == right_sibling.0,
//@proof before 1 "=self.set_right_sibling(right_sibling);" raw
//@| let ghost s0 = self.b();
//@proof after 1 "=self.set_right_sibling(right_sibling);"
//@| let b = self.b();
//@| lemma_le64_len(right_sibling.0);
//@| assert(b.subrange(0, 4) =~= s0.subrange(0, 4));
//@| assert(b.subrange(6, 8) =~= s0.subrange(6, 8));
//@| assert(b.subrange(8, 10) =~= s0.subrange(8, 10));
//@| assert(pg_count(b) == 0 && pg_begin(b) == 8192);
//@| assert(leaf_wf(b));
//@| assert(leaf_cells(b) =~= eview(entries@).take(0));
//@| lemma_ents_sz_all(eview(entries@));
//@| assert(eview(entries@).take(0).len() == 0);
//@loop 1
//@| invariant *final(self.buf) == *final(old(self).buf), leaf_wf(self.b()), leaf_cells(self.b()) == eview(entries@).take(i as int),
//@|     pg_count(self.b()) == i, pg_begin(self.b()) == 8192 - (ents_sz(eview(entries@).take(i as int)) - 2 * i),
//@|     from_le64(self.b().subrange(16, 24)) == right_sibling.0, ents_sz(eview(entries@)) <= 8168,
//@|     forall|k: int| 0 <= k < entries@.len() ==> cell_sz((#[trigger] eview(entries@)[k]).0.len() as int) <= ents_sz(eview(entries@)),
//@proof before 1 "self.leaf_insert_at("
//@| lemma_ents_sz_step(eview(entries@), i as int);
//@| lemma_ents_sz_mono(eview(entries@), i + 1, entries@.len() as int);
//@| assert(eview(entries@).take(entries@.len() as int) =~= eview(entries@));
//@| assert(eview(entries@)[i as int] == (k@, *v));
//@proof after 1 "self.leaf_insert_at("
//@| assert(eview(entries@).take(i as int).insert(i as int, (k@, *v)) =~= eview(entries@).take(i + 1));
//@proof before 1 "=}"
//@| assert(eview(entries@).take(entries@.len() as int) =~= eview(entries@));
//@end
}

// ================================================================== internal split: cut point, rebuild
pub open spec fn kview(v: Seq<Vec<u8>>) -> Seq<(Seq<u8>, u64)> { Seq::new(v.len(), |i: int| (v[i]@, 0u64)) }
pub open spec fn iview(v: Seq<(Vec<u8>, PageId)>) -> Seq<(Seq<u8>, u64)> { Seq::new(v.len(), |i: int| (v[i].0@, v[i].1.0)) }
pub open spec fn firsts(s: Seq<(Seq<u8>, u64)>) -> Seq<Seq<u8>> { Seq::new(s.len(), |i: int| s[i].0) }
pub open spec fn seconds(s: Seq<(Seq<u8>, u64)>) -> Seq<u64> { Seq::new(s.len(), |i: int| s[i].1) }
/// with separator `m` moved up, the separators on each side of it fit one internal page
pub open spec fn promote_fits(s: Seq<(Seq<u8>, u64)>, m: int) -> bool { ents_sz(s.take(m)) <= 8160 && ents_sz(s.skip(m + 1)) <= 8160 }

// C26.split.internal_split_point — the separator chosen to move up leaves two sides that each fit an internal
// page; the search fails only when no choice does.
//@extract nervusdb-storage/src/index/btree.rs internal_split_point ret r
//@| requires ents_sz(kview(keys@)) <= usize::MAX,
//@| ensures r is Ok ==> 0 <= r->Ok_0 < keys@.len() && promote_fits(kview(keys@), r->Ok_0 as int),
//@|     r is Err ==> forall|m: int| 0 <= m < keys@.len() ==> !#[trigger] promote_fits(kview(keys@), m),
//@proof before 1 "let mut total = 0usize;"
//@| lemma_ents_sz_all(kview(keys@));
//@| assert(kview(keys@).take(0).len() == 0);
//@loop "for i in 0..keys.len()"
//@| invariant total == ents_sz(kview(keys@).take(i as int)), ents_sz(kview(keys@)) <= usize::MAX,
//@|     forall|k: int| 0 <= k < keys@.len() ==> cell_sz((#[trigger] kview(keys@)[k]).0.len() as int) <= ents_sz(kview(keys@)),
//@proof before 1 "total += cell_space("
//@| lemma_ents_sz_step(kview(keys@), i as int);
//@| lemma_ents_sz_mono(kview(keys@), i + 1, keys@.len() as int);
//@| assert(kview(keys@).take(keys@.len() as int) =~= kview(keys@));
//@| assert(kview(keys@)[i as int].0 == keys@[i as int]@);
//@proof before 1 "let mut best_mid = keys.len();"
//@| assert(kview(keys@).take(keys@.len() as int) =~= kview(keys@));
//@loop "for mid in 0..keys.len()"
//@| invariant left == ents_sz(kview(keys@).take(mid as int)), total == ents_sz(kview(keys@)), cap == 8160,
//@|     forall|k: int| 0 <= k < keys@.len() ==> cell_sz((#[trigger] kview(keys@)[k]).0.len() as int) <= ents_sz(kview(keys@)),
//@|     best_mid <= keys@.len(),
//@|     best_mid < keys@.len() ==> promote_fits(kview(keys@), best_mid as int),
//@|     best_mid == keys@.len() ==> forall|m: int| 0 <= m < mid ==> !#[trigger] promote_fits(kview(keys@), m),
//@proof before 1 "let right = total - left - "
//@| lemma_ents_sz_mono(kview(keys@), mid + 1, keys@.len() as int);
//@| assert(kview(keys@).take(keys@.len() as int) =~= kview(keys@));
//@| lemma_ents_sz_split(kview(keys@), mid + 1);
//@| lemma_ents_sz_step(kview(keys@), mid as int);
//@| assert(kview(keys@)[mid as int].0 == keys@[mid as int]@);
//@end

impl<'a> Page<'a> {
// C26.split.rebuild_internal — rebuilding an internal page from separators and children that fit succeeds and
// yields a well-formed page with exactly those separators and children, in order.
//@extract nervusdb-storage/src/index/btree.rs Page::rebuild_internal ret r
//@| requires ents_sz(iview(cells@)) <= 8160,
//@| ensures *final(final(self).buf) == *final(old(self).buf), r is Ok, internal_wf(final(self).b()),
//@|     int_seps(final(self).b()) == firsts(iview(cells@)), int_children(final(self).b()) == seconds(iview(cells@)),
//@|     int_child(final(self).b(), 0) == leftmost_child.0,
//@proof after 1 "self.init_internal(leftmost_child);"
//@| let b = self.b();
//@| assert(int_seps(b) =~= firsts(iview(cells@).take(0)));
//@| assert(int_children(b) =~= seconds(iview(cells@).take(0)));
//@| lemma_ents_sz_all(iview(cells@));
//@| assert(iview(cells@).take(0).len() == 0);
//@loop 1
//@| invariant *final(self.buf) == *final(old(self).buf), internal_wf(self.b()),
//@|     int_seps(self.b()) == firsts(iview(cells@).take(i as int)), int_children(self.b()) == seconds(iview(cells@).take(i as int)),
//@|     int_child(self.b(), 0) == leftmost_child.0,
//@|     pg_count(self.b()) == i, pg_begin(self.b()) == 8192 - (ents_sz(iview(cells@).take(i as int)) - 2 * i), ents_sz(iview(cells@)) <= 8160,
//@|     forall|k: int| 0 <= k < cells@.len() ==> cell_sz((#[trigger] iview(cells@)[k]).0.len() as int) <= ents_sz(iview(cells@)),
//@proof before 1 "self.internal_insert_at("
//@| lemma_ents_sz_step(iview(cells@), i as int);
//@| lemma_ents_sz_mono(iview(cells@), i + 1, cells@.len() as int);
//@| assert(iview(cells@).take(cells@.len() as int) =~= iview(cells@));
//@| assert(iview(cells@)[i as int] == (k@, child.0));
//@proof after 1 "self.internal_insert_at("
//@| assert(firsts(iview(cells@).take(i as int)).insert(i as int, k@) =~= firsts(iview(cells@).take(i + 1)));
//@| assert(seconds(iview(cells@).take(i as int)).insert(i as int, child.0) =~= seconds(iview(cells@).take(i + 1)));
//@proof before 1 "=Ok(())"
//@| assert(iview(cells@).take(cells@.len() as int) =~= iview(cells@));
//@end
}

/// right-sibling link of a page
pub open spec fn sib(b: Seq<u8>) -> u64 { from_le64(b.subrange(16, 24)) }
/// leaf `l` was full and has been split around the new entry: the entry went in front of all equal keys,
/// the run was cut in two, the left part stays in `l`, the right part went to page `r`, which is chained in
/// between `l` and l's old right sibling, `sep` is the first key of `r`, which was a free page, and no other
/// allocated page changed.
pub open spec fn leaf_split_ok(o: &Pager, n: &Pager, l: u64, r: u64, i: int, key: Seq<u8>, payload: u64, sep: Seq<u8>) -> bool {
    leaf_wf(pg(o, l)) && 0 <= i <= pg_count(pg(o, l)) && live(o, l) && !live(o, r) && r != 0
    && (forall|j: int| 0 <= j < i ==> lex_lt(#[trigger] leaf_cells(pg(o, l))[j].0, key))
    && (forall|j: int| i <= j < pg_count(pg(o, l)) ==> lex_le(key, #[trigger] leaf_cells(pg(o, l))[j].0))
    && leaf_wf(pg(n, l)) && leaf_wf(pg(n, r))
    && leaf_cells(pg(n, l)) + leaf_cells(pg(n, r)) == leaf_cells(pg(o, l)).insert(i, (key, payload))
    && keys_sorted(leaf_cells(pg(n, l))) && keys_sorted(leaf_cells(pg(n, r)))
    && leaf_cells(pg(n, r)).len() >= 1 && sep == leaf_cells(pg(n, r))[0].0
    && sib(pg(n, l)) == r && sib(pg(n, r)) == sib(pg(o, l))
    && (forall|x: u64| live(o, x) && x != l ==> #[trigger] pg(n, x) == pg(o, x))
}
/// leaf `l` has no room for one more entry with this key
pub open spec fn leaf_full(o: &Pager, l: u64, key: Seq<u8>) -> bool {
    leaf_wf(pg(o, l)) && !(key.len() <= u32::MAX && 24 + 2 * pg_count(pg(o, l)) + 2 + vlen(key.len() as u32) + key.len() + 8 <= pg_begin(pg(o, l)))
}
pub open spec fn at_most_one_changed(o: &Pager, n: &Pager) -> bool {
    forall|x: u64, y: u64| live(o, x) && live(o, y) && pg(n, x) != pg(o, x) && pg(n, y) != pg(o, y) ==> x == y
}

pub proof fn lemma_leaf_cells_sz(b: Seq<u8>, i: int)
    requires leaf_wf(b), 0 <= i <= pg_count(b),
    ensures 0 <= ents_sz(leaf_cells(b).take(i)) <= i * 8207,
    decreases i
{
    if i == 0 { assert(leaf_cells(b).take(0).len() == 0); } else {
        lemma_leaf_cells_sz(b, i - 1);
        lemma_ents_sz_step(leaf_cells(b), i - 1);
        let off = pg_slot(b, i - 1);
        assert(lc_ok(b, off));
        axiom_vdec_bounds(b.skip(off));
    }
}
pub proof fn lemma_ents_sz_insert(s: Seq<(Seq<u8>, u64)>, pos: int, x: (Seq<u8>, u64))
    requires 0 <= pos <= s.len(),
    ensures ents_sz(s.insert(pos, x)) == ents_sz(s) + cell_sz(x.0.len() as int),
{
    let t = s.insert(pos, x);
    lemma_ents_sz_split(t, pos);
    lemma_ents_sz_split(s, pos);
    assert(t.take(pos) =~= s.take(pos));
    lemma_ents_sz_front(t.skip(pos));
    assert(t.skip(pos).skip(1) =~= s.skip(pos));
    assert(t.skip(pos)[0] == x);
}

//@trusted v_collect_leaf_entries: `(0..page.cell_count()).map(|i| { let (k, v) = page.leaf_cell_key_and_payload(i).unwrap(); (k.to_vec(), v) }).collect()` yields entry i of the page for i = 0..count in order (map/collect over a range: std; the closure body is Page::leaf_cell_key_and_payload, whose contract is proved in this unit and which cannot fail on a well-formed leaf: precondition)
#[verifier::external_body]
pub fn v_collect_leaf_entries<'a>(page: &Page<'a>) -> (r: Vec<(Vec<u8>, u64)>)
    requires leaf_wf(page.b()),
    ensures eview(r@) == leaf_cells(page.b()),
{ unimplemented!() }
//@trusted v_partition_point_lt: `entries.partition_point(|(k, _)| k.as_slice() < key)` on a run whose keys are in order (hence partitioned by `< key`: precondition) is the index of the first entry whose key is not below `key` (std)
#[verifier::external_body]
pub fn v_partition_point_lt(entries: &Vec<(Vec<u8>, u64)>, key: &[u8]) -> (r: usize)
    requires keys_sorted(eview(entries@)),
    ensures r <= entries@.len(),
        forall|j: int| 0 <= j < r ==> lex_lt(#[trigger] eview(entries@)[j].0, key@),
        forall|j: int| r <= j < entries@.len() ==> lex_le(key@, #[trigger] eview(entries@)[j].0),
{ unimplemented!() }
//@trusted v_entries_to_vec: `entries[a..b].to_vec()` clones the entries a..b in order (std; std panics unless a <= b <= len: precondition)
#[verifier::external_body]
pub fn v_entries_to_vec(entries: &Vec<(Vec<u8>, u64)>, a: usize, b: usize) -> (r: Vec<(Vec<u8>, u64)>)
    requires a <= b <= entries@.len(),
    ensures r@.len() == b - a, eview(r@) == eview(entries@).subrange(a as int, b as int),
{ unimplemented!() }
//@trusted v_bytes_clone: Vec<u8>::clone yields equal bytes (std)
#[verifier::external_body]
pub fn v_bytes_clone(v: &Vec<u8>) -> (r: Vec<u8>)
    ensures r@ == v@,
{ v.clone() }

/// leftmost child followed by the right child of every cell
pub open spec fn all_children(b: Seq<u8>) -> Seq<u64> { Seq::new((pg_count(b) + 1) as nat, |i: int| int_child(b, i)) }
pub open spec fn kseq(v: Seq<Vec<u8>>) -> Seq<Seq<u8>> { Seq::new(v.len(), |i: int| v[i]@) }
pub open spec fn cseq(v: Seq<PageId>) -> Seq<u64> { Seq::new(v.len(), |i: int| v[i].0) }
pub open spec fn ksv(s: Seq<Seq<u8>>) -> Seq<(Seq<u8>, u64)> { Seq::new(s.len(), |i: int| (s[i], 0u64)) }
pub open spec fn new_root_ok(o: &Pager, n: &Pager, root: u64, left: u64, sep: Seq<u8>, right: u64) -> bool {
    !live(o, root) && internal_wf(pg(n, root)) && int_seps(pg(n, root)) == seq![sep] && all_children(pg(n, root)) == seq![left, right]
    && (forall|x: u64| live(o, x) ==> #[trigger] pg(n, x) == pg(o, x))
}
pub open spec fn parent_insert_ok(o: &Pager, n: &Pager, p: u64, pos: int, sep: Seq<u8>, right: u64) -> bool {
    internal_wf(pg(o, p)) && 0 <= pos <= pg_count(pg(o, p)) && internal_wf(pg(n, p))
    && int_seps(pg(n, p)) == int_seps(pg(o, p)).insert(pos, sep)
    && all_children(pg(n, p)) == all_children(pg(o, p)).insert(pos + 1, right)
    && (forall|x: u64| x != p ==> #[trigger] pg(n, x) == pg(o, x))
}
/// the parent has no room for one more separator of this size
pub open spec fn internal_full(o: &Pager, p: u64, sep: Seq<u8>) -> bool {
    internal_wf(pg(o, p)) && !(sep.len() <= u32::MAX && 32 + 2 * pg_count(pg(o, p)) + 2 + 8 + vlen(sep.len() as u32) + sep.len() <= pg_begin(pg(o, p)))
}
/// internal page `p` was full and has been split around the new separator: see C26.tree.insert_into_parent
pub open spec fn internal_split_ok(o: &Pager, n: &Pager, p: u64, r2: u64, pos: int, sep: Seq<u8>, right: u64, promote: Seq<u8>) -> bool {
    internal_wf(pg(o, p)) && 0 <= pos <= pg_count(pg(o, p)) && live(o, p) && !live(o, r2) && live(n, r2)
    && internal_wf(pg(n, p)) && internal_wf(pg(n, r2))
    && int_seps(pg(n, p)).push(promote) + int_seps(pg(n, r2)) == int_seps(pg(o, p)).insert(pos, sep)
    && all_children(pg(n, p)) + all_children(pg(n, r2)) == all_children(pg(o, p)).insert(pos + 1, right)
    && (forall|x: u64| live(o, x) && x != p ==> #[trigger] pg(n, x) == pg(o, x))
}
/// the pages form a tree: some height function decreases along every child link of every internal page
pub open spec fn ranked(p: &Pager, rank: spec_fn(u64) -> nat) -> bool {
    forall|a: u64, i: int| pg_kind_ok(pg(p, a)) && pg(p, a)[4] == 1 && 0 <= i <= pg_count(pg(p, a)) ==> rank(#[trigger] int_child(pg(p, a), i)) < rank(a)
}
/// what insert_into_parent needs to know about the recorded descent: every entry names an allocated,
/// well-formed internal page and a child position inside it, and no page occurs twice
#[verifier::opaque]
pub open spec fn path_ok(p: &Pager, path: Seq<PathEntry>) -> bool {
    (forall|k: int| 0 <= k < path.len() ==> live(p, (#[trigger] path[k]).page.0) && internal_wf(pg(p, path[k].page.0)) && path[k].child_pos <= pg_count(pg(p, path[k].page.0)))
    && (forall|j: int, k: int| 0 <= j < k < path.len() ==> (#[trigger] path[j]).page.0 != (#[trigger] path[k]).page.0)
    // each entry is the child its predecessor recorded
    && (forall|k: int| 0 <= k < path.len() - 1 ==> int_child(pg(p, (#[trigger] path[k]).page.0), path[k].child_pos as int) == path[k + 1].page.0)
}
/// `left` is the page the recorded descent went to below its last entry (the root when nothing was recorded)
pub open spec fn path_leads_to(p: &Pager, path: Seq<PathEntry>, root: u64, left: u64) -> bool {
    if path.len() == 0 { left == root } else { path[0].page.0 == root && int_child(pg(p, path.last().page.0), path.last().child_pos as int) == left }
}
pub proof fn lemma_path_ok_empty(p: &Pager)
    ensures path_ok(p, Seq::<PathEntry>::empty()),
{ reveal(path_ok); }
/// what path_ok says about one entry
pub proof fn lemma_path_ok_at(p: &Pager, path: Seq<PathEntry>, k: int)
    requires path_ok(p, path), 0 <= k < path.len(),
    ensures live(p, path[k].page.0), internal_wf(pg(p, path[k].page.0)), path[k].child_pos <= pg_count(pg(p, path[k].page.0)),
        pg_kind_ok(pg(p, path[k].page.0)) && pg(p, path[k].page.0)[4] == 1,
        forall|j: int| 0 <= j < path.len() && j != k ==> (#[trigger] path[j]).page.0 != path[k].page.0,
        k < path.len() - 1 ==> int_child(pg(p, path[k].page.0), path[k].child_pos as int) == path[k + 1].page.0,
{ reveal(path_ok); }
pub proof fn lemma_path_ok_drop(p: &Pager, path: Seq<PathEntry>)
    requires path_ok(p, path), path.len() > 0,
    ensures path_ok(p, path.drop_last()),
{
    reveal(path_ok);
    let d = path.drop_last();
    assert forall|k: int| 0 <= k < d.len() implies live(p, (#[trigger] d[k]).page.0) && internal_wf(pg(p, d[k].page.0)) && d[k].child_pos <= pg_count(pg(p, d[k].page.0)) by { assert(d[k] == path[k]); }
    assert forall|j: int, k: int| 0 <= j < k < d.len() implies (#[trigger] d[j]).page.0 != (#[trigger] d[k]).page.0 by { assert(d[j] == path[j] && d[k] == path[k]); }
    assert forall|k: int| 0 <= k < d.len() - 1 implies int_child(pg(p, (#[trigger] d[k]).page.0), d[k].child_pos as int) == d[k + 1].page.0 by { assert(d[k] == path[k] && d[k + 1] == path[k + 1]); }
}
pub proof fn lemma_path_ok_push(p: &Pager, path: Seq<PathEntry>, e: PathEntry)
    requires path_ok(p, path), live(p, e.page.0), internal_wf(pg(p, e.page.0)), e.child_pos <= pg_count(pg(p, e.page.0)),
        forall|k: int| 0 <= k < path.len() ==> (#[trigger] path[k]).page.0 != e.page.0,
        path.len() > 0 ==> int_child(pg(p, path.last().page.0), path.last().child_pos as int) == e.page.0,
    ensures path_ok(p, path.push(e)),
{
    reveal(path_ok);
    let q = path.push(e);
    assert forall|k: int| 0 <= k < q.len() implies live(p, (#[trigger] q[k]).page.0) && internal_wf(pg(p, q[k].page.0)) && q[k].child_pos <= pg_count(pg(p, q[k].page.0)) by { if k < path.len() { assert(q[k] == path[k]); } }
    assert forall|j: int, k: int| 0 <= j < k < q.len() implies (#[trigger] q[j]).page.0 != (#[trigger] q[k]).page.0 by { assert(q[j] == path[j]); if k < path.len() { assert(q[k] == path[k]); } }
    assert forall|k: int| 0 <= k < q.len() - 1 implies int_child(pg(p, (#[trigger] q[k]).page.0), q[k].child_pos as int) == q[k + 1].page.0 by {
        assert(q[k] == path[k]);
        if k + 1 < path.len() { assert(q[k + 1] == path[k + 1]); } else { assert(path[k] == path.last()); }
    }
}
/// a recorded descent stays valid when none of its pages changes or is freed
pub proof fn lemma_path_frame(o: &Pager, n: &Pager, path: Seq<PathEntry>)
    requires path_ok(o, path), forall|k: int| 0 <= k < path.len() ==> pg(n, (#[trigger] path[k]).page.0) == pg(o, path[k].page.0) && live(n, path[k].page.0),
    ensures path_ok(n, path),
{
    reveal(path_ok);
    assert forall|k: int| 0 <= k < path.len() - 1 implies int_child(pg(n, (#[trigger] path[k]).page.0), path[k].child_pos as int) == path[k + 1].page.0 by {
        assert(pg(n, path[k].page.0) == pg(o, path[k].page.0));
    }
}
/// C26.tree.insert.split_leaf (the abstract argument): two well-formed leaves holding the two parts of the old run
/// with the new entry at its lower-bound position are a correct leaf split
pub proof fn lemma_leaf_split(o: &Pager, n: &Pager, l: u64, rr: u64, pos: int, key: Seq<u8>, payload: u64, sep: Seq<u8>, mid: int)
    requires leaf_wf(pg(o, l)), keys_sorted(leaf_cells(pg(o, l))), live(o, l), !live(o, rr), rr != 0, 0 <= pos <= pg_count(pg(o, l)), key.len() <= 0x7fff_ffff_ffff_ffff,
        forall|j: int| 0 <= j < pos ==> lex_lt(#[trigger] leaf_cells(pg(o, l))[j].0, key),
        forall|j: int| pos <= j < pg_count(pg(o, l)) ==> lex_le(key, #[trigger] leaf_cells(pg(o, l))[j].0),
        0 <= mid < pg_count(pg(o, l)) + 1, leaf_wf(pg(n, l)), leaf_wf(pg(n, rr)),
        leaf_cells(pg(n, l)) == leaf_cells(pg(o, l)).insert(pos, (key, payload)).take(mid),
        leaf_cells(pg(n, rr)) == leaf_cells(pg(o, l)).insert(pos, (key, payload)).skip(mid),
        sib(pg(n, l)) == rr, sib(pg(n, rr)) == sib(pg(o, l)), sep == leaf_cells(pg(o, l)).insert(pos, (key, payload))[mid].0,
        forall|x: u64| live(o, x) && x != l ==> #[trigger] pg(n, x) == pg(o, x),
    ensures leaf_split_ok(o, n, l, rr, pos, key, payload, sep), sep.len() <= 0x7fff_ffff_ffff_ffff,
{
    let cells0 = leaf_cells(pg(o, l));
    let cells1 = cells0.insert(pos, (key, payload));
    lemma_insert_at_lower_bound(cells0, pos, key, payload);
    assert(cells1.take(mid) + cells1.skip(mid) =~= cells1);
    assert(keys_sorted(cells1.take(mid))) by {
        assert forall|a: int, b: int| 0 <= a < b < mid implies lex_le(#[trigger] cells1.take(mid)[a].0, #[trigger] cells1.take(mid)[b].0) by { assert(lex_le(cells1[a].0, cells1[b].0)); }
    }
    assert(keys_sorted(cells1.skip(mid))) by {
        assert forall|a: int, b: int| 0 <= a < b < cells1.len() - mid implies lex_le(#[trigger] cells1.skip(mid)[a].0, #[trigger] cells1.skip(mid)[b].0) by { assert(lex_le(cells1[mid + a].0, cells1[mid + b].0)); }
    }
    assert(cells1.skip(mid)[0] == cells1[mid]);
    if mid != pos {
        let j: int = if mid < pos { mid } else { mid - 1 };
        assert(lc_ok(pg(o, l), pg_slot(pg(o, l), j)));
        axiom_vdec_bounds(pg(o, l).skip(pg_slot(pg(o, l), j)));
        assert(cells0[j].0 == lc_key(pg(o, l), pg_slot(pg(o, l), j)));
        assert(cells1[mid] == cells0[j]);
    }
}
/// C26.tree.insert_into_parent (the abstract argument): two well-formed internal pages holding the separators
/// and children on either side of the promoted separator are a correct internal split
pub proof fn lemma_internal_split(o: &Pager, n: &Pager, pp: u64, r2: u64, pos: int, sep: Seq<u8>, right: u64, promote: Seq<u8>, mid: int)
    requires internal_wf(pg(o, pp)), live(o, pp), !live(o, r2), live(n, r2), 0 <= pos <= pg_count(pg(o, pp)), sep.len() <= 0x7fff_ffff_ffff_ffff,
        0 <= mid < pg_count(pg(o, pp)) + 1, internal_wf(pg(n, pp)), internal_wf(pg(n, r2)),
        int_seps(pg(n, pp)) == int_seps(pg(o, pp)).insert(pos, sep).take(mid),
        int_seps(pg(n, r2)) == int_seps(pg(o, pp)).insert(pos, sep).skip(mid + 1),
        promote == int_seps(pg(o, pp)).insert(pos, sep)[mid],
        all_children(pg(n, pp)) == all_children(pg(o, pp)).insert(pos + 1, right).take(mid + 1),
        all_children(pg(n, r2)) == all_children(pg(o, pp)).insert(pos + 1, right).skip(mid + 1),
        forall|x: u64| live(o, x) && x != pp ==> #[trigger] pg(n, x) == pg(o, x),
    ensures internal_split_ok(o, n, pp, r2, pos, sep, right, promote), promote.len() <= 0x7fff_ffff_ffff_ffff,
{
    let b0 = pg(o, pp);
    let ks1 = int_seps(b0).insert(pos, sep);
    let cs1 = all_children(b0).insert(pos + 1, right);
    assert(ks1.take(mid).push(promote) + ks1.skip(mid + 1) =~= ks1);
    assert(cs1.take(mid + 1) + cs1.skip(mid + 1) =~= cs1);
    if mid != pos {
        let j: int = if mid < pos { mid } else { mid - 1 };
        assert(ic_ok(b0, pg_slot(b0, j)));
        assert(ks1[mid] == int_seps(b0)[j]);
        axiom_vdec_bounds(b0.skip(pg_slot(b0, j) + 8));
        assert(int_seps(b0)[j] == ic_key(b0, pg_slot(b0, j)));
    }
}
pub proof fn lemma_all_children(b: Seq<u8>)
    ensures all_children(b) =~= seq![int_child(b, 0)] + int_children(b),
{
    assert forall|i: int| 0 <= i < pg_count(b) + 1 implies all_children(b)[i] == (seq![int_child(b, 0)] + int_children(b))[i] by {
        if i > 0 { assert(int_children(b)[i - 1] == int_child(b, i)); }
    }
}
pub proof fn lemma_int_cells_sz(b: Seq<u8>, i: int)
    requires internal_wf(b), 0 <= i <= pg_count(b),
    ensures 0 <= ents_sz(ksv(int_seps(b)).take(i)) <= i * 8207,
    decreases i
{
    if i == 0 { assert(ksv(int_seps(b)).take(0).len() == 0); } else {
        lemma_int_cells_sz(b, i - 1);
        lemma_ents_sz_step(ksv(int_seps(b)), i - 1);
        let off = pg_slot(b, i - 1);
        assert(ic_ok(b, off));
        axiom_vdec_bounds(b.skip(off + 8));
    }
}
/// the size of a run depends only on the key lengths
pub proof fn lemma_same_key_lens(s: Seq<(Seq<u8>, u64)>, t: Seq<(Seq<u8>, u64)>)
    requires s.len() == t.len(), forall|i: int| 0 <= i < s.len() ==> (#[trigger] s[i]).0.len() == t[i].0.len(),
    ensures ents_sz(s) == ents_sz(t),
    decreases s.len()
{
    if s.len() > 0 {
        lemma_same_key_lens(s.drop_last(), t.drop_last());
        assert(s.last().0.len() == t.last().0.len()) by { assert(s[s.len() - 1].0.len() == t[s.len() - 1].0.len()); }
    }
}
/// at every recorded page the recorded child position is the one internal_child_for_key chooses for `key`
#[verifier::opaque]
pub open spec fn path_for_key(p: &Pager, path: Seq<PathEntry>, key: Seq<u8>) -> bool {
    forall|k: int| 0 <= k < path.len() ==> is_lb(int_seps(pg(p, (#[trigger] path[k]).page.0)), key, path[k].child_pos as int)
}
pub proof fn lemma_path_for_key_empty(p: &Pager, key: Seq<u8>)
    ensures path_for_key(p, Seq::<PathEntry>::empty(), key),
{ reveal(path_for_key); }
pub proof fn lemma_path_for_key_push(p: &Pager, path: Seq<PathEntry>, key: Seq<u8>, e: PathEntry)
    requires path_for_key(p, path, key), is_lb(int_seps(pg(p, e.page.0)), key, e.child_pos as int),
    ensures path_for_key(p, path.push(e), key),
{
    reveal(path_for_key);
    assert forall|k: int| 0 <= k < path.push(e).len() implies is_lb(int_seps(pg(p, (#[trigger] path.push(e)[k]).page.0)), key, path.push(e)[k].child_pos as int) by {
        if k < path.len() { assert(path.push(e)[k] == path[k]); }
    }
}
/// C26.tree.insert_into_parent.propagated — what BTree::insert_into_parent did, level by level: a new root above the
/// top of the recorded descent, or the separator and the new page added to a parent with room, or an internal split
/// (internal_split_ok towards an intermediate store) followed by the same one level up with the promoted separator
pub open spec fn propagated_ok(o: &Pager, n: &Pager, path: Seq<PathEntry>, root_o: u64, root_n: u64, left: u64, sep: Seq<u8>, right: u64) -> bool
    decreases path.len()
{
    if path.len() == 0 { new_root_ok(o, n, root_n, left, sep, right) }
    else {
        (parent_insert_ok(o, n, path.last().page.0, path.last().child_pos as int, sep, right) && root_n == root_o)
        || exists|m: Pager, r2: u64, promote: Seq<u8>| #[trigger] internal_split_ok(o, &m, path.last().page.0, r2, path.last().child_pos as int, sep, right, promote)
              && live_kept(o, &m) && frame_path(&m, n, path.drop_last()) && live_kept(&m, n) && promote.len() <= 0x7fff_ffff_ffff_ffff
              && propagated_ok(&m, n, path.drop_last(), root_o, root_n, path.last().page.0, promote, r2)
    }
}
/// the descent for the key passes through every recorded page
pub proof fn lemma_path_visits(p: &Pager, path: Seq<PathEntry>, root: u64, key: Seq<u8>, k: int)
    requires path_ok(p, path), path_for_key(p, path, key), 0 <= k < path.len(), path[0].page.0 == root,
    ensures visits(p, root, key, path[k].page.0, k as nat),
    decreases k
{
    if k > 0 {
        lemma_path_visits(p, path, root, key, k - 1);
        lemma_path_ok_at(p, path, k - 1);
        assert(is_lb(int_seps(pg(p, path[k - 1].page.0)), key, path[k - 1].child_pos as int)) by { reveal(path_for_key); }
        lemma_visits_extend(p, root, key, path[k - 1].page.0, (k - 1) as nat, path[k - 1].child_pos as int);
    }
}
/// C18.btree.frame for BTree::insert with a split: the leaf changed first (o -> m), then pages of the recorded descent (m -> n)
pub proof fn lemma_insert_frame(o: &Pager, m: &Pager, n: &Pager, path: Seq<PathEntry>, root: u64, key: Seq<u8>, l: u64, d: nat)
    requires path_ok(o, path), path_for_key(o, path, key), path_leads_to(o, path, root, l), visits(o, root, key, l, d),
        live_kept(o, m), live_kept(m, n), frame_path(m, n, path),
        forall|x: u64| live(o, x) && x != l ==> #[trigger] pg(m, x) == pg(o, x),
    ensures live_kept(o, n),
        forall|x: u64| live(o, x) && #[trigger] pg(n, x) != pg(o, x) ==> exists|h: nat| visits(o, root, key, x, h),
{
    assert forall|x: u64| live(o, x) && #[trigger] pg(n, x) != pg(o, x) implies exists|h: nat| visits(o, root, key, x, h) by {
        if pg(m, x) != pg(o, x) { assert(x == l); }
        else {
            lemma_frame_elim(m, n, path, x);
            let k = choose|k: int| 0 <= k < path.len() && path[k].page.0 == x;
            lemma_path_visits(o, path, root, key, k);
        }
    }
}
/// C26.tree.insert.split_parent_room — what an insert that split leaf `l` (new right leaf `r`) did when the parent, the
/// last page of the recorded descent `path`, had room for the separator: `l` and `r` hold the two parts of the old
/// run with the new entry at its lower-bound position, `r` is chained in behind `l`, the parent got exactly the
/// separator (first key of `r`) and `r` as the child right of `l`, and no other allocated page changed
pub open spec fn split_insert_ok(o: &Pager, n: &Pager, path: Seq<PathEntry>, root: u64, l: u64, r: u64, pos: int, key: Seq<u8>, payload: u64) -> bool {
    path.len() > 0 && path_ok(o, path) && path_for_key(o, path, key) && path_leads_to(o, path, root, l)
    && leaf_wf(pg(o, l)) && keys_sorted(leaf_cells(pg(o, l))) && 0 <= pos <= pg_count(pg(o, l)) && live(o, l) && !live(o, r) && r != 0
    && (forall|j: int| 0 <= j < pos ==> lex_lt(#[trigger] leaf_cells(pg(o, l))[j].0, key))
    && (forall|j: int| pos <= j < pg_count(pg(o, l)) ==> lex_le(key, #[trigger] leaf_cells(pg(o, l))[j].0))
    && leaf_wf(pg(n, l)) && leaf_wf(pg(n, r))
    && leaf_cells(pg(n, l)) + leaf_cells(pg(n, r)) == leaf_cells(pg(o, l)).insert(pos, (key, payload))
    && leaf_cells(pg(n, r)).len() >= 1 && sib(pg(n, l)) == r
    && ({ let p = path.last().page.0; let cp = path.last().child_pos as int; let sep = leaf_cells(pg(n, r))[0].0;
          internal_wf(pg(n, p)) && int_seps(pg(n, p)) == int_seps(pg(o, p)).insert(cp, sep)
          && all_children(pg(n, p)) == all_children(pg(o, p)).insert(cp + 1, r)
          && (forall|x: u64| live(o, x) && x != l && x != p ==> #[trigger] pg(n, x) == pg(o, x)) })
}
/// from the in-body obligation at the call (leaf_split_ok on the intermediate store `m`) and the callee's
/// postcondition for a parent with room (parent_insert_ok from `m` to `n`) to the statement about `o` and `n`
pub proof fn lemma_split_insert(o: &Pager, m: &Pager, n: &Pager, path: Seq<PathEntry>, root: u64, l: u64, r: u64, pos: int, key: Seq<u8>, payload: u64, sep: Seq<u8>)
    requires path.len() > 0, path_ok(o, path), path_for_key(o, path, key), path_leads_to(o, path, root, l), keys_sorted(leaf_cells(pg(o, l))),
        leaf_split_ok(o, m, l, r, pos, key, payload, sep),
        parent_insert_ok(m, n, path.last().page.0, path.last().child_pos as int, sep, r),
        pg_kind_ok(pg(o, l)) && pg(o, l)[4] == 0,
    ensures split_insert_ok(o, n, path, root, l, r, pos, key, payload),
{
    let pe = path.last();
    let p = pe.page.0;
    assert(path[path.len() - 1] == pe);
    lemma_path_ok_at(o, path, path.len() - 1);
    assert(live(o, p) && internal_wf(pg(o, p)));
    assert(p != l) by { assert(pg(o, p)[4] == 1); }
    assert(p != r);
    assert(pg(m, p) == pg(o, p));
    assert(pg(n, l) == pg(m, l) && pg(n, r) == pg(m, r));
}

//@trusted v_keys_to_vec: `keys[a..b].to_vec()` clones the keys a..b in order (std; std panics unless a <= b <= len: precondition)
#[verifier::external_body]
pub fn v_keys_to_vec(keys: &Vec<Vec<u8>>, a: usize, b: usize) -> (r: Vec<Vec<u8>>)
    requires a <= b <= keys@.len(),
    ensures r@.len() == b - a, kseq(r@) == kseq(keys@).subrange(a as int, b as int),
{ unimplemented!() }
//@trusted v_children_to_vec: `children[a..b].to_vec()` copies the page ids a..b in order (std; std panics unless a <= b <= len: precondition)
#[verifier::external_body]
pub fn v_children_to_vec(children: &Vec<PageId>, a: usize, b: usize) -> (r: Vec<PageId>)
    requires a <= b <= children@.len(),
    ensures r@.len() == b - a, cseq(r@) == cseq(children@).subrange(a as int, b as int),
{ unimplemented!() }
//@trusted v_zip_cells: `keys.into_iter().zip(children.iter().skip(1).copied()).collect()` pairs key i with child i + 1, for as many pairs as both sides have (zip/skip/copied/collect: std)
#[verifier::external_body]
pub fn v_zip_cells(keys: Vec<Vec<u8>>, children: &Vec<PageId>) -> (r: Vec<(Vec<u8>, PageId)>)
    requires children@.len() >= 1,
    ensures r@.len() == (if keys@.len() <= children@.len() - 1 { keys@.len() as int } else { children@.len() - 1 }),
        forall|i: int| 0 <= i < r@.len() ==> (#[trigger] iview(r@)[i]) == (keys@[i]@, children@[i + 1].0),
{ unimplemented!() }

impl BTree {
// C26.tree.insert_into_parent — linking a new right page into the level above.  Empty path: a new root is
// written whose only separator is `sep_key` between `left_id` and `right_id`, and nothing else changes.
// Parent with room: exactly the parent changes, by inserting exactly (sep_key, right_id) at the position the
// descent recorded - the new page becomes the child right of the one that was split.  Full parent: at the
// recursive call the store satisfies internal_split_ok (in-body obligation): the separators of the two halves
// around the promoted one are exactly the old separators plus the new one, in order, the children of the two
// halves are exactly the old children plus the new page right of the split child, both halves fit
// (rebuild_internal's precondition, from internal_split_point's contract) and no other page changed.
//@extract nervusdb-storage/src/index/btree.rs BTree::insert_into_parent ret r
//@attr #[verifier::rlimit(200)]
//@| requires path_ok(old(pager), old(path)@), sep_key@.len() <= 0x7fff_ffff_ffff_ffff,
//@|     // the page that was split is where the recorded descent went
//@|     path_leads_to(old(pager), old(path)@, old(self).root.0, left_id.0),
//@| ensures r is Ok && old(path)@.len() == 0 ==> new_root_ok(old(pager), final(pager), final(self).root.0, left_id.0, sep_key@, right_id.0),
//@|     r is Ok && old(path)@.len() > 0 ==> (parent_insert_ok(old(pager), final(pager), old(path)@.last().page.0, old(path)@.last().child_pos as int, sep_key@, right_id.0) && final(self).root == old(self).root && final(path)@ == old(path)@.drop_last())
//@|         || internal_full(old(pager), old(path)@.last().page.0, sep_key@),
//@|     // C18.btree.frame (whatever the outcome): only pages of the recorded descent, or pages that were free, were written
//@|     frame_path(old(pager), final(pager), old(path)@), live_kept(old(pager), final(pager)),
//@|     r is Ok ==> propagated_ok(old(pager), final(pager), old(path)@, old(self).root.0, final(self).root.0, left_id.0, sep_key@, right_id.0),
//@| decreases old(path)@.len(),
//@prewrite "keys.push(k.to_vec());" => "keys.push(v_slice_to_vec(k));"
//@preregex "(\w+)\[(\w+)\]\.clone\(\)" => "v_bytes_clone(&\1[\2])"
//@prewrite "keys[..mid].to_vec()" => "v_keys_to_vec(&keys, 0, mid)"
//@prewrite "keys[mid + 1..].to_vec()" => "v_keys_to_vec(&keys, mid + 1, keys.len())"
//@prewrite "children[..mid + 1].to_vec()" => "v_children_to_vec(&children, 0, mid + 1)"
//@prewrite "children[mid + 1..].to_vec()" => "v_children_to_vec(&children, mid + 1, children.len())"
//@preregex "(?m)^(\s*)self\.insert_into_parent\(pager, path, ([^()]*)\)\s*$" => "\1let ghost pager1 = *pager; let ghost promote0 = promote@; let ghost path1 = path@;\n\1let rec_r = self.insert_into_parent(pager, path, \2);\n\1proof { lemma_frame_compose(old(pager), &pager1, pager, old(path)@);\n\1  if rec_r is Ok { assert(path1 == old(path)@.drop_last()); assert(internal_split_ok(old(pager), &pager1, parent_id.0, right_page_id.0, child_pos as int, sep_key@, right_id.0, promote0));\n\1    assert(propagated_ok(&pager1, pager, old(path)@.drop_last(), old(self).root.0, self.root.0, parent_id.0, promote0, right_page_id.0)); } }\n\1rec_r"
//@preregex "(?s)(\w+)\s*\.into_iter\(\)\s*\.zip\((\w+)\.iter\(\)\.skip\(1\)\.copied\(\)\)\s*\.collect\(\)" => "v_zip_cells(\1, &\2)"
//@proof before 1 "let parent_id = parent.page;"
//@| let m0 = old(path)@.len() - 1;
//@| assert(old(path)@[m0] == parent && path@ == old(path)@.drop_last());
//@| lemma_path_ok_at(old(pager), old(path)@, m0);
//@| lemma_path_ok_drop(old(pager), old(path)@);
//@proof before 1 "pager.write_page(new_root, &buf)?;"
//@| assert(int_seps(buf@) =~= seq![sep_key@]);
//@| lemma_all_children(buf@);
//@| assert(int_children(buf@) =~= seq![right_id.0]);
//@| assert(all_children(buf@) =~= seq![left_id.0, right_id.0]);
//@proof before 1 "=Ok(())"
//@| lemma_all_children(buf@); lemma_all_children(pg(old(pager), parent_id.0));
//@| assert(all_children(buf@) =~= all_children(pg(old(pager), parent_id.0)).insert(child_pos + 1, right_id.0));
//@proof before 1 "let leftmost = page.leftmost_child()?;" raw
//@| let ghost b0 = pg(old(pager), parent_id.0);
//@| proof { assert(page.b() == b0); }
//@loop "for i in 0..page.cell_count()"
//@| invariant page.b() == b0, internal_wf(b0), keys@.len() == i, children@.len() == i + 1, i <= pg_count(b0),
//@|     kseq(keys@) == int_seps(b0).take(i as int), cseq(children@) == all_children(b0).take(i + 1),
//@proof after 1 "children.push(right);"
//@| assert(kseq(keys@) =~= int_seps(b0).take(i + 1));
//@| assert(cseq(children@) =~= all_children(b0).take(i + 2));
//@proof before 1 "keys.insert(child_pos, sep_key);" raw
//@| proof {
//@|     assert(int_seps(b0).take(pg_count(b0)) =~= int_seps(b0));
//@|     assert(all_children(b0).take(pg_count(b0) + 1) =~= all_children(b0));
//@| }
//@| let ghost ks1 = int_seps(b0).insert(child_pos as int, sep_key@);
//@| let ghost cs1 = all_children(b0).insert(child_pos + 1, right_id.0);
//@proof before 1 "let mid = internal_split_point(&keys)?;"
//@| assert(kseq(keys@) =~= ks1);
//@| assert(cseq(children@) =~= cs1);
//@| lemma_int_cells_sz(b0, pg_count(b0));
//@| lemma_same_key_lens(kview(keys@), ksv(int_seps(b0)).insert(child_pos as int, (sep_key@, 0u64)));
//@| assert(ksv(int_seps(b0)).take(pg_count(b0)) =~= ksv(int_seps(b0)));
//@| lemma_ents_sz_insert(ksv(int_seps(b0)), child_pos as int, (sep_key@, 0u64));
//@proof before 1 "page.rebuild_internal(left_children[0], &left_cells)?;"
//@| assert(left_cells@.len() == mid);
//@| assert forall|i: int| 0 <= i < mid implies (#[trigger] iview(left_cells@)[i]).0 == keys@[i]@ by {
//@|     assert(kseq(left_keys@)[i] == kseq(keys@).subrange(0, mid as int)[i]);
//@| }
//@| lemma_same_key_lens(iview(left_cells@), kview(keys@).take(mid as int));
//@proof before 1 "Page::new(&mut right_buf).rebuild_internal("
//@| assert(right_cells@.len() == keys@.len() - mid - 1);
//@| assert forall|i: int| 0 <= i < right_cells@.len() implies (#[trigger] iview(right_cells@)[i]).0 == keys@[mid + 1 + i]@ by {
//@|     assert(kseq(right_keys@)[i] == kseq(keys@).subrange(mid + 1, keys@.len() as int)[i]);
//@| }
//@| lemma_same_key_lens(iview(right_cells@), kview(keys@).skip(mid + 1));
//@proof before 1 "self.insert_into_parent(" raw
//@| proof {
//@|     let o = old(pager); let pp = parent_id.0; let r2 = right_page_id.0;
//@|     assert(pg(pager, pp) == buf@ && pg(pager, r2) == right_buf@);
//@|     assert(int_seps(buf@) =~= ks1.take(mid as int));
//@|     assert forall|i: int| 0 <= i < right_cells@.len() implies #[trigger] int_seps(right_buf@)[i] == ks1.skip(mid + 1)[i] by {
//@|         assert(firsts(iview(right_cells@))[i] == iview(right_cells@)[i].0);
//@|         assert(kseq(keys@)[mid + 1 + i] == keys@[mid + 1 + i]@);
//@|     }
//@|     assert(int_seps(right_buf@) =~= ks1.skip(mid + 1));
//@|     lemma_all_children(buf@); lemma_all_children(right_buf@);
//@|     assert forall|i: int| 0 <= i < mid implies #[trigger] int_children(buf@)[i] == cseq(left_children@)[i + 1] by {
//@|         assert(seconds(iview(left_cells@))[i] == iview(left_cells@)[i].1);
//@|     }
//@|     assert(all_children(buf@) =~= cseq(left_children@));
//@|     assert forall|i: int| 0 <= i < right_cells@.len() implies #[trigger] int_children(right_buf@)[i] == cseq(right_children@)[i + 1] by {
//@|         assert(seconds(iview(right_cells@))[i] == iview(right_cells@)[i].1);
//@|     }
//@|     assert(all_children(right_buf@) =~= cseq(right_children@));
//@|     assert(all_children(buf@) =~= cs1.take(mid + 1));
//@|     assert(all_children(right_buf@) =~= cs1.skip(mid + 1));
//@|     assert(promote@ == ks1[mid as int]);
//@|     lemma_internal_split(o, pager, pp, r2, child_pos as int, sep_key@, right_id.0, promote@, mid as int);
//@|     assert(internal_split_ok(o, pager, pp, r2, child_pos as int, sep_key@, right_id.0, promote@));
//@|     // the rest of the recorded descent is untouched by this split, and it went to the page just split
//@|     assert forall|k: int| 0 <= k < path@.len() implies pg(pager, (#[trigger] path@[k]).page.0) == pg(o, path@[k].page.0) && live(pager, path@[k].page.0) by {
//@|         assert(path@[k] == old(path)@[k]);
//@|         lemma_path_ok_at(o, old(path)@, k);
//@|     }
//@|     lemma_path_frame(o, pager, path@);
//@|     assert(live_kept(o, pager));
//@|     assert(forall|x: u64| live(o, x) && x != pp ==> #[trigger] pg(pager, x) == pg(o, x));
//@|     assert(path_leads_to(pager, path@, self.root.0, pp)) by {
//@|         let m = path@.len() as int;
//@|         assert(old(path)@[m] == parent);
//@|         if m > 0 {
//@|             assert(old(path)@[m - 1] == path@[m - 1]); assert(old(path)@[0] == path@[0]);
//@|             lemma_path_ok_at(o, old(path)@, m - 1);
//@|             assert(pg(pager, path@[m - 1].page.0) == pg(o, path@[m - 1].page.0));
//@|             assert(path@.last() == path@[m - 1]);
//@|         }
//@|     }
//@| }
//@end

// C26.tree.insert.no_split / C26.tree.insert.split_leaf — tree-level contract of BTree::insert over any page store
// whose index pages are well formed and form a tree (some height function decreases along child links).  The
// descent terminates (decreases: the height of the current page) and records a path that satisfies path_ok.
// When the leaf reached has room: exactly one page changes, a leaf, by inserting exactly (key, payload) at the
// lower-bound position of the key in that leaf - in front of all equal keys there, so a lookup that reaches
// this leaf returns the new payload.  When it is full: at the moment insert_into_parent is called the store
// satisfies leaf_split_ok (in-body obligation) - the new entry is in front of all equal keys, the two halves
// hold exactly the old entries plus the new one in order, each half fits its page (rebuild_leaf's
// precondition, established from leaf_split_point's contract), the sibling chain runs l -> r -> old right
// sibling, r was a free page, and the separator handed to the parent is the first key of the right half - and
// insert_into_parent's precondition holds: the recorded path is intact and leads to the leaf that was split.
//@extract nervusdb-storage/src/index/btree.rs BTree::insert ret r
//@attr #[verifier::rlimit(200)]
//@| requires tree_pages_ok(old(pager)), key@.len() <= 0x7fff_ffff_ffff_ffff,
//@|     // the pages reachable from the root form a tree (no page is its own descendant)
//@|     exists|rank: spec_fn(u64) -> nat| ranked(old(pager), rank),
//@| ensures r is Ok ==>
//@|            // no split: one leaf changed, the one the descent reaches
//@|            (final(self).root == old(self).root && exists|l: u64, i: int, h: nat| #[trigger] inserted_at(old(pager), final(pager), l, i, key@, payload) && #[trigger] reaches(old(pager), old(self).root.0, key@, l, h))
//@|            // leaf split, the parent had room
//@|         || (final(self).root == old(self).root && exists|path: Seq<PathEntry>, l: u64, rr: u64, pos: int| #[trigger] split_insert_ok(old(pager), final(pager), path, old(self).root.0, l, rr, pos, key@, payload))
//@|            // leaf split, however far it propagated (parent with room, internal splits, new root)
//@|         || (exists|m: Pager, path: Seq<PathEntry>, l: u64, rr: u64, pos: int, sep: Seq<u8>| #[trigger] any_split_ok(old(pager), &m, final(pager), path, old(self).root.0, final(self).root.0, l, rr, pos, key@, payload, sep))
//@|            // the root was a full leaf: first split of the tree
//@|         || (exists|rr: u64, pos: int| #[trigger] root_split_ok(old(pager), final(pager), old(self).root.0, final(self).root.0, rr, pos, key@, payload)),
//@|     r is Err ==> (exists|l: u64| #[trigger] leaf_full(old(pager), l, key@)) || at_most_one_changed(old(pager), final(pager)),
//@|     // C18.btree.frame (whatever the outcome): every allocated page whose content changed lies on the descent from this
//@|     // tree's root for the key; everything else that was written had been free; nothing was freed
//@|     forall|x: u64| live(old(pager), x) && #[trigger] pg(final(pager), x) != pg(old(pager), x) ==> exists|h: nat| visits(old(pager), old(self).root.0, key@, x, h),
//@|     live_kept(old(pager), final(pager)),
//@preregex "self\.insert_into_parent\(pager, &mut path, ([^;]*)\)\?;" => "let ip_r = self.insert_into_parent(pager, &mut path, \1); proof { lemma_insert_frame(old(pager), &mid_store, pager, path0, old(self).root.0, key@, cur.0, depth); } ip_r?;"
//@preregex "(?s)\(0\.\.page\.cell_count\(\)\)\s*\.map\(\|i\| \{.*?\}\)\s*\.collect\(\);" => "v_collect_leaf_entries(&page);"
//@prewrite "entries.partition_point(|(k, _)| k.as_slice() < key)" => "v_partition_point_lt(&entries, key)"
//@prewrite "(key.to_vec(), payload)" => "(v_slice_to_vec(key), payload)"
//@prewrite "entries[..mid].to_vec()" => "v_entries_to_vec(&entries, 0, mid)"
//@prewrite "entries[mid..].to_vec()" => "v_entries_to_vec(&entries, mid, entries.len())"
//@preregex "(\w+)\[0\]\.0\.clone\(\)" => "v_bytes_clone(&\1[0].0)"
//@proof before 1 "let mut cur = self.root;" raw
//@| let ghost rank = choose|rank: spec_fn(u64) -> nat| ranked(old(pager), rank);
//@| let ghost mut depth: nat = 0;
//@| proof { lemma_path_for_key_empty(old(pager), key@); lemma_path_ok_empty(old(pager)); assert(path@ =~= Seq::<PathEntry>::empty()); }
//@loop 1
//@| invariant tree_pages_ok(old(pager)), forall|o: u64| #[trigger] pg(pager, o) == pg(old(pager), o), *pager == *old(pager),
//@|     key@.len() <= 0x7fff_ffff_ffff_ffff, ranked(old(pager), rank), path_ok(old(pager), path@),
//@|     forall|k: int| 0 <= k < path@.len() ==> rank((#[trigger] path@[k]).page.0) > rank(cur.0),
//@|     path_leads_to(old(pager), path@, self.root.0, cur.0), *self == *old(self), path_for_key(old(pager), path@, key@),
//@|     visits(old(pager), self.root.0, key@, cur.0, depth),
//@| decreases rank(cur.0),
//@proof before 1 "=return Ok(());"
//@| assert(inserted_at(old(pager), pager, cur.0, idx as int, key@, payload));
//@| lemma_visits_leaf(old(pager), old(self).root.0, key@, cur.0, depth);
//@proof after 1 "let (child, child_pos) = page.internal_child_for_key(key)?;"
//@| assert(child.0 == int_child(pg(old(pager), cur.0), child_pos as int));
//@| assert(rank(child.0) < rank(cur.0));
//@proof before 1 "path.push(PathEntry {" raw
//@| proof {
//@|     assert(is_lb(int_seps(pg(old(pager), cur.0)), key@, child_pos as int));
//@|     lemma_path_for_key_push(old(pager), path@, key@, PathEntry { page: cur, child_pos });
//@|     assert forall|k: int| 0 <= k < path@.len() implies (#[trigger] path@[k]).page.0 != cur.0 by { assert(rank(path@[k].page.0) > rank(cur.0)); }
//@|     lemma_path_ok_push(old(pager), path@, PathEntry { page: cur, child_pos });
//@|     lemma_visits_extend(old(pager), self.root.0, key@, cur.0, depth, child_pos as int);
//@|     depth = depth + 1;
//@| }
//@proof before 1 "let pos = " raw
//@| let ghost cells0 = leaf_cells(pg(old(pager), cur.0));
//@| proof { assert(page.b() == pg(old(pager), cur.0)); assert(eview(entries@) == cells0); assert(leaf_full(old(pager), cur.0, key@)); }
//@proof after 1 "entries.insert(" raw
//@| let ghost cells1 = cells0.insert(pos as int, (key@, payload));
//@| proof {
//@|     assert(eview(entries@) =~= cells1);
//@|     lemma_leaf_cells_sz(pg(old(pager), cur.0), pg_count(pg(old(pager), cur.0)));
//@|     assert(cells0.take(cells0.len() as int) =~= cells0);
//@|     lemma_ents_sz_insert(cells0, pos as int, (key@, payload));
//@|     lemma_insert_at_lower_bound(cells0, pos as int, key@, payload);
//@| }
//@proof after 1 "let right_entries = "
//@| assert(eview(left_entries@) =~= cells1.take(mid as int));
//@| assert(eview(right_entries@) =~= cells1.skip(mid as int));
//@| assert(eview(right_entries@)[0] == (right_entries@[0].0@, right_entries@[0].1));
//@proof before 1 "self.insert_into_parent(" raw
//@| let ghost mid_store = *pager;
//@| let ghost path0 = path@;
//@| let ghost sep0 = sep_key@;
//@| proof {
//@|     let o = old(pager); let l = cur.0; let rr = right_id.0;
//@|     assert(pg(pager, l) == buf@ && pg(pager, rr) == right_buf@);
//@|     assert(sep_key@ == cells1[mid as int].0);
//@|     lemma_leaf_split(o, pager, l, rr, pos as int, key@, payload, sep_key@, mid as int);
//@|     assert(leaf_split_ok(o, pager, l, rr, pos as int, key@, payload, sep_key@));
//@|     // the recorded descent is untouched by the leaf split: its pages are internal, allocated pages other than l
//@|     assert forall|k: int| 0 <= k < path@.len() implies pg(pager, (#[trigger] path@[k]).page.0) == pg(o, path@[k].page.0) && live(pager, path@[k].page.0) by {
//@|         lemma_path_ok_at(o, path@, k);
//@|         assert(pg(o, path@[k].page.0)[4] == 1 && pg(o, l)[4] == 0);
//@|     }
//@|     lemma_path_frame(o, pager, path@);
//@|     lemma_path_for_key_frame(o, pager, path@, key@);
//@|     if path@.len() > 0 { lemma_path_ok_at(o, path@, path@.len() - 1); }
//@|     assert(path_leads_to(pager, path@, self.root.0, l));
//@|     assert(live(pager, l) && live(pager, rr));
//@| }
//@proof before 2 "=return Ok(());"
//@| let o = old(pager); let l = cur.0; let rr = right_id.0;
//@| if path0.len() == 0 {
//@|     assert(l == old(self).root.0);
//@|     assert(new_root_ok(&mid_store, pager, self.root.0, l, sep0, rr));
//@|     lemma_root_split(o, &mid_store, pager, l, self.root.0, rr, pos as int, key@, payload, sep0);
//@|     assert(root_split_ok(o, pager, old(self).root.0, self.root.0, rr, pos as int, key@, payload));
//@| }
//@| assert(any_split_ok(o, &mid_store, pager, path0, old(self).root.0, self.root.0, l, rr, pos as int, key@, payload, sep0));
//@| if path0.len() == 0 {
//@| } else if internal_full(&mid_store, path0.last().page.0, sep0) {
//@| } else {
//@|     assert(parent_insert_ok(&mid_store, pager, path0.last().page.0, path0.last().child_pos as int, sep0, rr));
//@|     assert(self.root == old(self).root);
//@|     lemma_split_insert(o, &mid_store, pager, path0, old(self).root.0, l, rr, pos as int, key@, payload, sep0);
//@|     assert(split_insert_ok(o, pager, path0, old(self).root.0, l, rr, pos as int, key@, payload));
//@| }
//@end
}

/// C26.tree.delete_after_insert — the property's third sentence for the pair just inserted (insert without split), as
/// a lemma whose hypotheses are the postconditions of BTree::insert on store `o` -> `n` and of BTree::delete on store
/// `n` -> `n2`: deleting the pair succeeds (when no I/O error occurs), removes exactly that entry from the leaf it went
/// to, leaves every other page alone, and the leaf holds exactly the entries it held before the insert.
pub proof fn lemma_delete_after_insert(o: &Pager, n: &Pager, n2: &Pager, root: u64, key: Seq<u8>, payload: u64, l: u64, i: int, h: nat, l0: u64, h0: nat, deleted: bool)
    requires
        // postcondition of insert (no-split case)
        inserted_at(o, n, l, i, key, payload), reaches(o, root, key, l, h), keys_sorted(leaf_cells(pg(o, l))),
        // postcondition of delete(key, payload) on the new store, result Ok(deleted)
        reaches(n, root, key, l0, h0), leaf_wf(pg(n, l0)),
        ({ let i0 = lb_pos(leaf_keys(pg(n, l0)), key);
           i0 < pg_count(pg(n, l0)) && leaf_cells(pg(n, l0))[i0] == (key, payload) ==> deleted == true && deleted_at(n, n2, l0, i0, key, payload) }),
    ensures deleted, l0 == l, leaf_cells(pg(n2, l)) == leaf_cells(pg(o, l)), forall|x: u64| x != l ==> #[trigger] pg(n2, x) == pg(o, x),
{
    lemma_reaches_frame(o, n, root, key, l, h, l);
    lemma_reaches_unique(n, root, key, l, h, l0, h0);
    let cells0 = leaf_cells(pg(o, l));
    lemma_insert_at_lower_bound(cells0, i, key, payload);
    let ks = leaf_keys(pg(n, l));
    let c1 = leaf_cells(pg(n, l));
    assert(c1 == cells0.insert(i, (key, payload)));
    assert(ks.len() == c1.len() && c1.len() == cells0.len() + 1);
    assert(is_lb(ks, key, i)) by {
        assert forall|j: int| 0 <= j < i implies lex_lt(#[trigger] ks[j], key) by { assert(ks[j] == c1[j].0); assert(lex_lt(cells0.insert(i, (key, payload))[j].0, key)); }
        assert forall|j: int| i <= j < ks.len() implies lex_le(key, #[trigger] ks[j]) by { assert(ks[j] == c1[j].0); assert(lex_le(key, cells0.insert(i, (key, payload))[j].0)); }
    }
    lemma_lb_unique(ks, key, i, lb_pos(ks, key));
    assert(c1[i] == (key, payload));
    assert(cells0.insert(i, (key, payload)).remove(i) =~= cells0);
}

/// inserting a separator at the recorded position moves the lower bound of the key by at most one
pub proof fn lemma_lb_insert(ks: Seq<Seq<u8>>, key: Seq<u8>, cp: int, sep: Seq<u8>)
    requires is_lb(ks, key, cp),
    ensures !lex_lt(sep, key) ==> is_lb(ks.insert(cp, sep), key, cp),
            lex_lt(sep, key) ==> is_lb(ks.insert(cp, sep), key, cp + 1),
{
    let k2 = ks.insert(cp, sep);
    if !lex_lt(sep, key) {
        assert forall|j: int| 0 <= j < cp implies lex_lt(#[trigger] k2[j], key) by { assert(k2[j] == ks[j]); }
        assert forall|j: int| cp <= j < k2.len() implies lex_le(key, #[trigger] k2[j]) by { if j > cp { assert(k2[j] == ks[j - 1]); } }
    } else {
        assert forall|j: int| 0 <= j < cp + 1 implies lex_lt(#[trigger] k2[j], key) by { if j < cp { assert(k2[j] == ks[j]); } }
        assert forall|j: int| cp + 1 <= j < k2.len() implies lex_le(key, #[trigger] k2[j]) by { assert(k2[j] == ks[j - 1]); }
    }
}
/// if every recorded page above index `k` still chooses the recorded child for the key, the descent from the
/// k-th recorded page follows the rest of the record and continues from its last page `p`
pub proof fn lemma_reaches_along_path(n: &Pager, path: Seq<PathEntry>, key: Seq<u8>, target: u64, k: int)
    requires 0 <= k < path.len(),
        forall|j: int| k <= j < path.len() - 1 ==> pg_kind_ok(pg(n, (#[trigger] path[j]).page.0)) && pg(n, path[j].page.0)[4] == 1
            && is_lb(int_seps(pg(n, path[j].page.0)), key, path[j].child_pos as int) && int_child(pg(n, path[j].page.0), path[j].child_pos as int) == path[j + 1].page.0,
        reaches(n, path.last().page.0, key, target, 1),
    ensures reaches(n, path[k].page.0, key, target, (path.len() - k) as nat),
    decreases path.len() - k
{
    if k == path.len() - 1 { assert(path[k] == path.last()); } else {
        lemma_reaches_along_path(n, path, key, target, k + 1);
        lemma_reaches_step(n, path[k].page.0, key, path[k].child_pos as int, target, (path.len() - k - 1) as nat);
    }
}
/// the leaf-level half of the lookup-after-split argument: given which of the two leaves the new descent ends in
/// (right exactly when the separator, the first key of the right leaf, is below the key), the cursor stands on the new entry
pub proof fn lemma_cursor_after_leaf_split(n: &Pager, l: u64, r: u64, cells0: Seq<(Seq<u8>, u64)>, pos: int, key: Seq<u8>, payload: u64, c_leaf: u64, c_slot: int, l0: u64)
    requires keys_sorted(cells0), 0 <= pos <= cells0.len(),
        forall|j: int| 0 <= j < pos ==> lex_lt(#[trigger] cells0[j].0, key),
        forall|j: int| pos <= j < cells0.len() ==> lex_le(key, #[trigger] cells0[j].0),
        leaf_wf(pg(n, l)), leaf_wf(pg(n, r)), leaf_cells(pg(n, l)) + leaf_cells(pg(n, r)) == cells0.insert(pos, (key, payload)),
        leaf_cells(pg(n, r)).len() >= 1, sib(pg(n, l)) == r, r != 0, pg_count(pg(n, l)) > 0,
        l0 == (if lex_lt(leaf_cells(pg(n, r))[0].0, key) { r } else { l }),
        lb_pos(leaf_keys(pg(n, l0)), key) < pg_count(pg(n, l0)) ==> c_leaf == l0 && c_slot == lb_pos(leaf_keys(pg(n, l0)), key),
        lb_pos(leaf_keys(pg(n, l0)), key) >= pg_count(pg(n, l0)) && pg_count(pg(n, l0)) > 0 && sib(pg(n, l0)) != 0 && pg_count(pg(n, sib(pg(n, l0)))) > 0
            ==> c_leaf == sib(pg(n, l0)) && c_slot == 0,
    ensures (c_leaf == l || c_leaf == r), 0 <= c_slot < pg_count(pg(n, c_leaf)), leaf_cells(pg(n, c_leaf))[c_slot] == (key, payload),
{
    let cells1 = cells0.insert(pos, (key, payload));
    let cl = leaf_cells(pg(n, l)); let cr = leaf_cells(pg(n, r));
    let mid = cl.len() as int;
    lemma_insert_at_lower_bound(cells0, pos, key, payload);
    assert(cl =~= cells1.take(mid)) by { assert forall|j: int| 0 <= j < mid implies cl[j] == cells1.take(mid)[j] by { assert((cl + cr)[j] == cl[j]); } }
    assert(cr =~= cells1.skip(mid)) by { assert forall|j: int| 0 <= j < cr.len() implies cr[j] == cells1.skip(mid)[j] by { assert((cl + cr)[mid + j] == cr[j]); } }
    assert(cr[0].0 == cells1[mid].0);
    let ks = leaf_keys(pg(n, l0));
    if pos < mid {
        assert(lex_le(key, cells1[mid].0)) by { assert(lex_le(cells1[pos].0, cells1[mid].0)); }
        assert(is_lb(ks, key, pos)) by {
            assert forall|j: int| 0 <= j < pos implies lex_lt(#[trigger] ks[j], key) by { assert(ks[j] == cl[j].0); assert(lex_lt(cells1[j].0, key)); }
            assert forall|j: int| pos <= j < ks.len() implies lex_le(key, #[trigger] ks[j]) by { assert(ks[j] == cl[j].0); assert(lex_le(key, cells1[j].0)); }
        }
        lemma_lb_unique(ks, key, pos, lb_pos(ks, key));
    } else if pos == mid {
        lemma_lex_irrefl(key);
        assert(is_lb(ks, key, mid)) by {
            assert forall|j: int| 0 <= j < mid implies lex_lt(#[trigger] ks[j], key) by { assert(ks[j] == cl[j].0); assert(lex_lt(cells1[j].0, key)); }
        }
        lemma_lb_unique(ks, key, mid, lb_pos(ks, key));
        assert(cr[0] == cells1[mid]);
    } else {
        assert(lex_lt(cells1[mid].0, key));
        assert(is_lb(ks, key, pos - mid)) by {
            assert forall|j: int| 0 <= j < pos - mid implies lex_lt(#[trigger] ks[j], key) by { assert(ks[j] == cr[j].0); assert(lex_lt(cells1[mid + j].0, key)); }
            assert forall|j: int| pos - mid <= j < ks.len() implies lex_le(key, #[trigger] ks[j]) by { assert(ks[j] == cr[j].0); assert(lex_le(key, cells1[mid + j].0)); }
        }
        lemma_lb_unique(ks, key, pos - mid, lb_pos(ks, key));
        assert(cr[pos - mid] == cells1[pos]);
    }
}
/// C26.tree.lookup_after_split — the property's second sentence for an insert that split a leaf whose parent had room,
/// as a lemma whose hypotheses are the postconditions of BTree::insert (split_insert_ok) and of BTree::cursor_lower_bound
/// on the new store: the cursor a lookup of the same key starts from stands on the entry just inserted, whether it went
/// to the left half, to the first slot of the new right leaf (reached through the sibling link) or further into it.
/// (Left half not empty.)
pub proof fn lemma_lookup_after_split(o: &Pager, n: &Pager, path: Seq<PathEntry>, root: u64, l: u64, r: u64, pos: int, key: Seq<u8>, payload: u64,
                                      c_leaf: u64, c_slot: int, l0: u64, h0: nat)
    requires
        split_insert_ok(o, n, path, root, l, r, pos, key, payload), pg_count(pg(n, l)) > 0,
        // postcondition of cursor_lower_bound on the new store
        reaches(n, root, key, l0, h0), leaf_wf(pg(n, l0)),
        lb_pos(leaf_keys(pg(n, l0)), key) < pg_count(pg(n, l0)) ==> c_leaf == l0 && c_slot == lb_pos(leaf_keys(pg(n, l0)), key),
        lb_pos(leaf_keys(pg(n, l0)), key) >= pg_count(pg(n, l0)) && pg_count(pg(n, l0)) > 0 && sib(pg(n, l0)) != 0 && pg_count(pg(n, sib(pg(n, l0)))) > 0
            ==> c_leaf == sib(pg(n, l0)) && c_slot == 0,
    ensures (c_leaf == l || c_leaf == r), 0 <= c_slot < pg_count(pg(n, c_leaf)), leaf_cells(pg(n, c_leaf))[c_slot] == (key, payload),
{
    lemma_descent_after_split(o, n, path, root, l, r, pos, key, payload);
    let big_l = if lex_lt(leaf_cells(pg(n, r))[0].0, key) { r } else { l };
    lemma_reaches_unique(n, root, key, big_l, path.len() as nat, l0, h0);
    lemma_cursor_after_leaf_split(n, l, r, leaf_cells(pg(o, l)), pos, key, payload, c_leaf, c_slot, l0);
}
/// on the store after the split the descent for the key follows the recorded pages down to the parent and goes to the
/// right leaf exactly when the new separator is below the key
pub proof fn lemma_descent_after_split(o: &Pager, n: &Pager, path: Seq<PathEntry>, root: u64, l: u64, r: u64, pos: int, key: Seq<u8>, payload: u64)
    requires split_insert_ok(o, n, path, root, l, r, pos, key, payload),
    ensures reaches(n, root, key, if lex_lt(leaf_cells(pg(n, r))[0].0, key) { r } else { l }, path.len() as nat),
{
    let pe = path.last(); let p = pe.page.0; let cp = pe.child_pos as int;
    assert(path[path.len() - 1] == pe);
    lemma_path_ok_at(o, path, path.len() - 1);
    assert(is_lb(int_seps(pg(o, p)), key, cp)) by { reveal(path_for_key); }
    let sep = leaf_cells(pg(n, r))[0].0;
    let go_right = lex_lt(sep, key);
    let big_l = if go_right { r } else { l };
    let cpn = if go_right { cp + 1 } else { cp };
    lemma_lb_insert(int_seps(pg(o, p)), key, cp, sep);
    assert(int_child(pg(n, p), cpn) == big_l) by {
        assert(all_children(pg(n, p))[cpn] == int_child(pg(n, p), cpn));
        assert(all_children(pg(o, p))[cp] == int_child(pg(o, p), cp));
    }
    assert(reaches(n, big_l, key, big_l, 0nat));
    lemma_reaches_step(n, p, key, cpn, big_l, 0nat);
    assert forall|j: int| 0 <= j < path.len() - 1 implies pg_kind_ok(pg(n, (#[trigger] path[j]).page.0)) && pg(n, path[j].page.0)[4] == 1
            && is_lb(int_seps(pg(n, path[j].page.0)), key, path[j].child_pos as int) && int_child(pg(n, path[j].page.0), path[j].child_pos as int) == path[j + 1].page.0 by {
        let y = path[j].page.0;
        lemma_path_ok_at(o, path, j);
        assert(y != p);
        assert(y != l) by { assert(pg(o, y)[4] == 1 && pg(o, l)[4] == 0); }
        assert(pg(n, y) == pg(o, y));
        assert(is_lb(int_seps(pg(o, y)), key, path[j].child_pos as int)) by { reveal(path_for_key); }
    }
    lemma_reaches_along_path(n, path, key, big_l, 0);
}
/// the lower bound of a key among a prefix / a suffix of the separators
pub proof fn lemma_lb_take(ks: Seq<Seq<u8>>, key: Seq<u8>, c: int, m: int)
    requires is_lb(ks, key, c), 0 <= c <= m <= ks.len(),
    ensures is_lb(ks.take(m), key, c),
{
    assert forall|j: int| 0 <= j < c implies lex_lt(#[trigger] ks.take(m)[j], key) by { assert(ks.take(m)[j] == ks[j]); }
    assert forall|j: int| c <= j < ks.take(m).len() implies lex_le(key, #[trigger] ks.take(m)[j]) by { assert(ks.take(m)[j] == ks[j]); }
}
pub proof fn lemma_lb_skip(ks: Seq<Seq<u8>>, key: Seq<u8>, c: int, m: int)
    requires is_lb(ks, key, c), 0 <= m <= c <= ks.len(),
    ensures is_lb(ks.skip(m), key, c - m),
{
    assert forall|j: int| 0 <= j < c - m implies lex_lt(#[trigger] ks.skip(m)[j], key) by { assert(ks.skip(m)[j] == ks[m + j]); }
    assert forall|j: int| c - m <= j < ks.skip(m).len() implies lex_le(key, #[trigger] ks.skip(m)[j]) by { assert(ks.skip(m)[j] == ks[m + j]); }
}
pub proof fn lemma_path_for_key_frame(o: &Pager, n: &Pager, path: Seq<PathEntry>, key: Seq<u8>)
    requires path_for_key(o, path, key), forall|k: int| 0 <= k < path.len() ==> pg(n, (#[trigger] path[k]).page.0) == pg(o, path[k].page.0),
    ensures path_for_key(n, path, key),
{ reveal(path_for_key); }
pub proof fn lemma_path_for_key_drop(p: &Pager, path: Seq<PathEntry>, key: Seq<u8>)
    requires path_for_key(p, path, key), path.len() > 0,
    ensures path_for_key(p, path.drop_last(), key), is_lb(int_seps(pg(p, path.last().page.0)), key, path.last().child_pos as int),
{
    reveal(path_for_key);
    assert(path[path.len() - 1] == path.last());
    assert forall|k: int| 0 <= k < path.drop_last().len() implies is_lb(int_seps(pg(p, (#[trigger] path.drop_last()[k]).page.0)), key, path.drop_last()[k].child_pos as int) by { assert(path.drop_last()[k] == path[k]); }
}
/// the descent from the k-th recorded page follows the record and continues below its last page as that page does
pub proof fn lemma_reaches_up_path(n: &Pager, path: Seq<PathEntry>, key: Seq<u8>, target: u64, h0: nat, k: int)
    requires 0 <= k < path.len(),
        forall|j: int| k <= j < path.len() - 1 ==> pg_kind_ok(pg(n, (#[trigger] path[j]).page.0)) && pg(n, path[j].page.0)[4] == 1
            && is_lb(int_seps(pg(n, path[j].page.0)), key, path[j].child_pos as int) && int_child(pg(n, path[j].page.0), path[j].child_pos as int) == path[j + 1].page.0,
        reaches(n, path.last().page.0, key, target, h0),
    ensures reaches(n, path[k].page.0, key, target, (h0 + path.len() - 1 - k) as nat),
    decreases path.len() - k
{
    if k == path.len() - 1 { assert(path[k] == path.last()); } else {
        lemma_reaches_up_path(n, path, key, target, h0, k + 1);
        lemma_reaches_step(n, path[k].page.0, key, path[k].child_pos as int, target, (h0 + path.len() - 2 - k) as nat);
    }
}
/// C26.tree.descent_redirect — after insert_into_parent has linked `right` (separator `sep`) next to `left`, however
/// far the split propagated: the descent for ANY key that used to go down the recorded path into `left` now reaches
/// whatever the descent from `left` reaches if the key is not above the separator, and whatever the descent from
/// `right` reaches otherwise.  (Induction over the levels of propagated_ok.)
#[verifier::rlimit(200)]
pub proof fn lemma_redirect(o: &Pager, n: &Pager, path: Seq<PathEntry>, root_o: u64, root_n: u64, left: u64, sep: Seq<u8>, right: u64, key: Seq<u8>, target: u64, h: nat)
    requires propagated_ok(o, n, path, root_o, root_n, left, sep, right),
        path_ok(o, path), path_for_key(o, path, key), path_leads_to(o, path, root_o, left),
        reaches(n, if lex_lt(sep, key) { right } else { left }, key, target, h),
    ensures exists|hh: nat| reaches(n, root_n, key, target, hh),
    decreases path.len()
{
    let go_right = lex_lt(sep, key);
    let x = if go_right { right } else { left };
    if path.len() == 0 {
        let cpn: int = if go_right { 1 } else { 0 };
        assert(is_lb(int_seps(pg(n, root_n)), key, cpn));
        assert(int_child(pg(n, root_n), cpn) == x) by { assert(all_children(pg(n, root_n))[cpn] == int_child(pg(n, root_n), cpn)); }
        lemma_reaches_step(n, root_n, key, cpn, target, h);
    } else {
        let pe = path.last(); let p = pe.page.0; let cp = pe.child_pos as int;
        let m1 = path.len() - 1;
        assert(path[m1] == pe);
        lemma_path_ok_at(o, path, m1);
        lemma_path_for_key_drop(o, path, key);
        let ks0 = int_seps(pg(o, p));
        let ks1 = ks0.insert(cp, sep);
        let cs1 = all_children(pg(o, p)).insert(cp + 1, right);
        let cpn = if go_right { cp + 1 } else { cp };
        lemma_lb_insert(ks0, key, cp, sep);
        assert(cs1[cpn] == x) by { assert(all_children(pg(o, p))[cp] == int_child(pg(o, p), cp)); }
        if parent_insert_ok(o, n, p, cp, sep, right) && root_n == root_o {
            assert(int_child(pg(n, p), cpn) == x) by { assert(all_children(pg(n, p))[cpn] == int_child(pg(n, p), cpn)); }
            lemma_reaches_step(n, p, key, cpn, target, h);
            assert forall|j: int| 0 <= j < path.len() - 1 implies pg_kind_ok(pg(n, (#[trigger] path[j]).page.0)) && pg(n, path[j].page.0)[4] == 1
                    && is_lb(int_seps(pg(n, path[j].page.0)), key, path[j].child_pos as int) && int_child(pg(n, path[j].page.0), path[j].child_pos as int) == path[j + 1].page.0 by {
                lemma_path_ok_at(o, path, j);
                assert(pg(n, path[j].page.0) == pg(o, path[j].page.0));
                assert(is_lb(int_seps(pg(o, path[j].page.0)), key, path[j].child_pos as int)) by { reveal(path_for_key); }
            }
            lemma_reaches_up_path(n, path, key, target, h + 1, 0);
            assert(path[0].page.0 == root_n);
        } else {
            let (m, r2, promote) = choose|m: Pager, r2: u64, promote: Seq<u8>| #[trigger] internal_split_ok(o, &m, p, r2, cp, sep, right, promote)
                  && live_kept(o, &m) && frame_path(&m, n, path.drop_last()) && live_kept(&m, n) && promote.len() <= 0x7fff_ffff_ffff_ffff
                  && propagated_ok(&m, n, path.drop_last(), root_o, root_n, p, promote, r2);
            let d = path.drop_last();
            let sp = int_seps(pg(&m, p)); let sr = int_seps(pg(&m, r2));
            let midk = sp.len() as int;
            assert(sp.push(promote) + sr == ks1);
            assert(sp =~= ks1.take(midk)) by { assert forall|j: int| 0 <= j < midk implies sp[j] == ks1.take(midk)[j] by { assert((sp.push(promote) + sr)[j] == sp[j]); } }
            assert(ks1[midk] == promote) by { assert((sp.push(promote) + sr)[midk] == promote); }
            assert(sr =~= ks1.skip(midk + 1)) by { assert forall|j: int| 0 <= j < sr.len() implies sr[j] == ks1.skip(midk + 1)[j] by { assert((sp.push(promote) + sr)[midk + 1 + j] == sr[j]); } }
            let cp_ = all_children(pg(&m, p)); let cr_ = all_children(pg(&m, r2));
            assert(cp_ + cr_ == cs1);
            assert(cp_.len() == midk + 1);
            assert forall|j: int| 0 <= j <= midk implies cp_[j] == cs1[j] by { assert((cp_ + cr_)[j] == cp_[j]); }
            assert forall|j: int| 0 <= j < cr_.len() implies cr_[j] == cs1[midk + 1 + j] by { assert((cp_ + cr_)[midk + 1 + j] == cr_[j]); }
            // p and r2 are the same pages in n as in m: they are allocated in m and not on the rest of the record
            assert(pg(n, p) == pg(&m, p)) by {
                if pg(n, p) != pg(&m, p) { lemma_frame_elim(&m, n, d, p); let k = choose|k: int| 0 <= k < d.len() && d[k].page.0 == p; assert(d[k] == path[k]); }
            }
            assert(pg(n, r2) == pg(&m, r2)) by {
                if pg(n, r2) != pg(&m, r2) { lemma_frame_elim(&m, n, d, r2); let k = choose|k: int| 0 <= k < d.len() && d[k].page.0 == r2; assert(d[k] == path[k]); lemma_path_ok_at(o, path, k); }
            }
            // one more step of the descent, in n, from the half that now holds the key's position
            let y = if lex_lt(promote, key) { r2 } else { p };
            if cpn <= midk {
                assert(lex_le(key, ks1[midk]));
                lemma_lb_take(ks1, key, cpn, midk);
                assert(int_child(pg(n, p), cpn) == x) by { assert(all_children(pg(n, p))[cpn] == int_child(pg(n, p), cpn)); }
                lemma_reaches_step(n, p, key, cpn, target, h);
            } else {
                assert(lex_lt(ks1[midk], key));
                lemma_lb_skip(ks1, key, cpn, midk + 1);
                assert(int_child(pg(n, r2), cpn - midk - 1) == x) by { assert(all_children(pg(n, r2))[cpn - midk - 1] == int_child(pg(n, r2), cpn - midk - 1)); }
                lemma_reaches_step(n, r2, key, cpn - midk - 1, target, h);
            }
            assert(reaches(n, y, key, target, h + 1));
            // the rest of the record is intact in m and leads to p
            lemma_path_ok_drop(o, path);
            assert forall|k: int| 0 <= k < d.len() implies pg(&m, (#[trigger] d[k]).page.0) == pg(o, d[k].page.0) && live(&m, d[k].page.0) by {
                assert(d[k] == path[k]); lemma_path_ok_at(o, path, k);
            }
            lemma_path_frame(o, &m, d);
            lemma_path_for_key_frame(o, &m, d, key);
            assert(path_leads_to(&m, d, root_o, p)) by {
                if d.len() > 0 { assert(d[0] == path[0]); assert(d.last() == path[m1 - 1]); lemma_path_ok_at(o, path, m1 - 1); }
            }
            lemma_redirect(&m, n, d, root_o, root_n, p, promote, r2, key, target, h + 1);
        }
    }
}
/// C26.tree.insert.split_any — what an insert that split a leaf did, however far the split propagated: the leaf split on
/// an intermediate store `m` (leaf_split_ok), then insert_into_parent level by level (propagated_ok), along the recorded
/// descent for the key
pub open spec fn any_split_ok(o: &Pager, m: &Pager, n: &Pager, path: Seq<PathEntry>, root_o: u64, root_n: u64, l: u64, r: u64, pos: int, key: Seq<u8>, payload: u64, sep: Seq<u8>) -> bool {
    leaf_split_ok(o, m, l, r, pos, key, payload, sep) && keys_sorted(leaf_cells(pg(o, l)))
    && propagated_ok(m, n, path, root_o, root_n, l, sep, r)
    && path_ok(m, path) && path_for_key(m, path, key) && path_leads_to(m, path, root_o, l)
    && frame_path(m, n, path) && live_kept(m, n) && live(m, l) && live(m, r)
}
/// C26.tree.lookup_after_any_split — the property's second sentence for EVERY insert that split a leaf (parent with room,
/// internal splits on any number of levels, new root): on the store after the insert the cursor a lookup of the same key
/// starts from stands on the entry just inserted.  Hypotheses: the postcondition of BTree::insert (any_split_ok) and of
/// BTree::cursor_lower_bound on the new store; left half not empty.
pub proof fn lemma_lookup_after_any_split(o: &Pager, m: &Pager, n: &Pager, path: Seq<PathEntry>, root_o: u64, root_n: u64, l: u64, r: u64, pos: int, key: Seq<u8>, payload: u64, sep: Seq<u8>,
                                          c_leaf: u64, c_slot: int, l0: u64, h0: nat)
    requires any_split_ok(o, m, n, path, root_o, root_n, l, r, pos, key, payload, sep), pg_count(pg(m, l)) > 0,
        reaches(n, root_n, key, l0, h0), leaf_wf(pg(n, l0)),
        lb_pos(leaf_keys(pg(n, l0)), key) < pg_count(pg(n, l0)) ==> c_leaf == l0 && c_slot == lb_pos(leaf_keys(pg(n, l0)), key),
        lb_pos(leaf_keys(pg(n, l0)), key) >= pg_count(pg(n, l0)) && pg_count(pg(n, l0)) > 0 && sib(pg(n, l0)) != 0 && pg_count(pg(n, sib(pg(n, l0)))) > 0
            ==> c_leaf == sib(pg(n, l0)) && c_slot == 0,
    ensures (c_leaf == l || c_leaf == r), 0 <= c_slot < pg_count(pg(n, c_leaf)), leaf_cells(pg(n, c_leaf))[c_slot] == (key, payload),
{
    // the two leaves are the same pages in n as in m: allocated in m, and not on the record (its pages are internal)
    assert(pg(n, l) == pg(m, l)) by {
        if pg(n, l) != pg(m, l) { lemma_frame_elim(m, n, path, l); let k = choose|k: int| 0 <= k < path.len() && path[k].page.0 == l; lemma_path_ok_at(m, path, k); }
    }
    assert(pg(n, r) == pg(m, r)) by {
        if pg(n, r) != pg(m, r) { lemma_frame_elim(m, n, path, r); let k = choose|k: int| 0 <= k < path.len() && path[k].page.0 == r; lemma_path_ok_at(m, path, k); }
    }
    let x = if lex_lt(sep, key) { r } else { l };
    assert(reaches(n, x, key, x, 0nat));
    lemma_redirect(m, n, path, root_o, root_n, l, sep, r, key, x, 0nat);
    let hh = choose|hh: nat| reaches(n, root_n, key, x, hh);
    lemma_reaches_unique(n, root_n, key, x, hh, l0, h0);
    lemma_cursor_after_leaf_split(n, l, r, leaf_cells(pg(o, l)), pos, key, payload, c_leaf, c_slot, l0);
}
/// C26.tree.insert.root_split — what an insert did that split the root while it was a leaf: the two halves as in a
/// leaf split, and a new root (a page that was free) whose only separator is the first key of the right half
pub open spec fn root_split_ok(o: &Pager, n: &Pager, l: u64, new_root: u64, r: u64, pos: int, key: Seq<u8>, payload: u64) -> bool {
    leaf_wf(pg(o, l)) && keys_sorted(leaf_cells(pg(o, l))) && 0 <= pos <= pg_count(pg(o, l)) && live(o, l) && !live(o, r) && !live(o, new_root) && r != 0
    && (forall|j: int| 0 <= j < pos ==> lex_lt(#[trigger] leaf_cells(pg(o, l))[j].0, key))
    && (forall|j: int| pos <= j < pg_count(pg(o, l)) ==> lex_le(key, #[trigger] leaf_cells(pg(o, l))[j].0))
    && leaf_wf(pg(n, l)) && leaf_wf(pg(n, r))
    && leaf_cells(pg(n, l)) + leaf_cells(pg(n, r)) == leaf_cells(pg(o, l)).insert(pos, (key, payload))
    && leaf_cells(pg(n, r)).len() >= 1 && sib(pg(n, l)) == r
    && internal_wf(pg(n, new_root)) && int_seps(pg(n, new_root)) == seq![leaf_cells(pg(n, r))[0].0] && all_children(pg(n, new_root)) == seq![l, r]
    && (forall|x: u64| live(o, x) && x != l ==> #[trigger] pg(n, x) == pg(o, x))
}
pub proof fn lemma_root_split(o: &Pager, m: &Pager, n: &Pager, l: u64, new_root: u64, r: u64, pos: int, key: Seq<u8>, payload: u64, sep: Seq<u8>)
    requires leaf_split_ok(o, m, l, r, pos, key, payload, sep), keys_sorted(leaf_cells(pg(o, l))), new_root_ok(m, n, new_root, l, sep, r), live(m, l), live(m, r),
        forall|x: u64| live(o, x) ==> live(m, x),
    ensures root_split_ok(o, n, l, new_root, r, pos, key, payload),
{
    assert(pg(n, l) == pg(m, l) && pg(n, r) == pg(m, r));
}
/// C26.tree.lookup_after_root_split — the same statement for the first split of a tree: the root was a full leaf
pub proof fn lemma_lookup_after_root_split(o: &Pager, n: &Pager, l: u64, new_root: u64, r: u64, pos: int, key: Seq<u8>, payload: u64,
                                           c_leaf: u64, c_slot: int, l0: u64, h0: nat)
    requires
        root_split_ok(o, n, l, new_root, r, pos, key, payload), pg_count(pg(n, l)) > 0,
        reaches(n, new_root, key, l0, h0), leaf_wf(pg(n, l0)),
        lb_pos(leaf_keys(pg(n, l0)), key) < pg_count(pg(n, l0)) ==> c_leaf == l0 && c_slot == lb_pos(leaf_keys(pg(n, l0)), key),
        lb_pos(leaf_keys(pg(n, l0)), key) >= pg_count(pg(n, l0)) && pg_count(pg(n, l0)) > 0 && sib(pg(n, l0)) != 0 && pg_count(pg(n, sib(pg(n, l0)))) > 0
            ==> c_leaf == sib(pg(n, l0)) && c_slot == 0,
    ensures (c_leaf == l || c_leaf == r), 0 <= c_slot < pg_count(pg(n, c_leaf)), leaf_cells(pg(n, c_leaf))[c_slot] == (key, payload),
{
    let sep = leaf_cells(pg(n, r))[0].0;
    let go_right = lex_lt(sep, key);
    let big_l = if go_right { r } else { l };
    let cpn: int = if go_right { 1 } else { 0 };
    let ks = int_seps(pg(n, new_root));
    assert(is_lb(ks, key, cpn));
    assert(int_child(pg(n, new_root), cpn) == big_l) by { assert(all_children(pg(n, new_root))[cpn] == int_child(pg(n, new_root), cpn)); }
    assert(reaches(n, big_l, key, big_l, 0nat));
    lemma_reaches_step(n, new_root, key, cpn, big_l, 0nat);
    lemma_reaches_unique(n, new_root, key, big_l, 1nat, l0, h0);
    lemma_cursor_after_leaf_split(n, l, r, leaf_cells(pg(o, l)), pos, key, payload, c_leaf, c_slot, l0);
}

/// C26.tree.insert.keeps_page_invariant — an insert that did not split leaves every index page well formed and in
/// key order, so the store satisfies the precondition of the next operation
pub proof fn lemma_insert_keeps_pages_ok(o: &Pager, n: &Pager, l: u64, i: int, key: Seq<u8>, payload: u64)
    requires tree_pages_ok(o), inserted_at(o, n, l, i, key, payload),
    ensures tree_pages_ok(n),
{
    lemma_insert_at_lower_bound(leaf_cells(pg(o, l)), i, key, payload);
    assert forall|id: u64| pg_kind_ok(#[trigger] pg(n, id)) implies
        (pg(n, id)[4] == 0 ==> leaf_wf(pg(n, id)) && keys_sorted(leaf_cells(pg(n, id)))
            && (from_le64(pg(n, id).subrange(16, 24)) != 0 ==> pg_kind_ok(pg(n, from_le64(pg(n, id).subrange(16, 24)))) && pg(n, from_le64(pg(n, id).subrange(16, 24)))[4] == 0))
        && (pg(n, id)[4] == 1 ==> internal_wf(pg(n, id)) && seps_sorted(int_seps(pg(n, id)))) by {
        let sid = from_le64(pg(n, id).subrange(16, 24));
        if id != l { assert(pg(n, id) == pg(o, id)); }
        assert(pg_kind_ok(pg(o, id)));
        if sid != l { assert(pg(n, sid) == pg(o, sid)); }
    }
}

/// the height function of the tree is still one after an insert that did not split (no internal page changed)
pub proof fn lemma_insert_keeps_ranked(o: &Pager, n: &Pager, rank: spec_fn(u64) -> nat, l: u64, i: int, key: Seq<u8>, payload: u64)
    requires ranked(o, rank), inserted_at(o, n, l, i, key, payload),
    ensures ranked(n, rank),
{
    assert forall|a: u64, c: int| pg_kind_ok(pg(n, a)) && pg(n, a)[4] == 1 && 0 <= c <= pg_count(pg(n, a)) implies rank(#[trigger] int_child(pg(n, a), c)) < rank(a) by {
        assert(a != l);
        assert(pg(n, a) == pg(o, a));
        assert(rank(int_child(pg(o, a), c)) < rank(a));
    }
}
/// C26.tree.delete.keeps_page_invariant — a delete leaves every index page well formed and in key order
pub proof fn lemma_delete_keeps_pages_ok(o: &Pager, n: &Pager, l: u64, i: int, key: Seq<u8>, payload: u64)
    requires tree_pages_ok(o), deleted_at(o, n, l, i, key, payload), pg(n, l).subrange(16, 24) == pg(o, l).subrange(16, 24), pg_kind_ok(pg(n, l)) && pg(n, l)[4] == 0,
    ensures tree_pages_ok(n),
{
    lemma_remove_keeps_sorted(leaf_cells(pg(o, l)), i);
    assert forall|id: u64| pg_kind_ok(#[trigger] pg(n, id)) implies
        (pg(n, id)[4] == 0 ==> leaf_wf(pg(n, id)) && keys_sorted(leaf_cells(pg(n, id)))
            && (from_le64(pg(n, id).subrange(16, 24)) != 0 ==> pg_kind_ok(pg(n, from_le64(pg(n, id).subrange(16, 24)))) && pg(n, from_le64(pg(n, id).subrange(16, 24)))[4] == 0))
        && (pg(n, id)[4] == 1 ==> internal_wf(pg(n, id)) && seps_sorted(int_seps(pg(n, id)))) by {
        let sid = from_le64(pg(n, id).subrange(16, 24));
        if id != l { assert(pg(n, id) == pg(o, id)); }
        assert(pg_kind_ok(pg(o, id)));
        if sid != l { assert(pg(n, sid) == pg(o, sid)); }
    }
}

/// C26.tree.lookup_after_insert — the property's second sentence for an insert that did not split, as a lemma over
/// the contracts of BTree::insert and BTree::cursor_lower_bound: on the store after the insert, the cursor that a
/// lookup of the same key starts from stands on the entry just inserted - the most recently inserted entry for the
/// key - whatever else the tree holds.  (`o`, `n`: store before / after; the hypotheses are the two postconditions.)
pub proof fn lemma_lookup_after_insert(o: &Pager, n: &Pager, root: u64, key: Seq<u8>, payload: u64, l: u64, i: int, h: nat, c_leaf: u64, c_slot: int, l0: u64, h0: nat)
    requires
        // postcondition of insert (no-split case)
        inserted_at(o, n, l, i, key, payload), reaches(o, root, key, l, h), pg_kind_ok(pg(o, l)) && pg(o, l)[4] == 0, pg_kind_ok(pg(n, l)) && pg(n, l)[4] == 0,
        keys_sorted(leaf_cells(pg(o, l))),
        // postcondition of cursor_lower_bound on the new store
        reaches(n, root, key, l0, h0), leaf_wf(pg(n, l0)),
        lb_pos(leaf_keys(pg(n, l0)), key) < pg_count(pg(n, l0)) ==> c_leaf == l0 && c_slot == lb_pos(leaf_keys(pg(n, l0)), key),
    ensures c_leaf == l, c_slot == i, 0 <= i < pg_count(pg(n, l)), leaf_cells(pg(n, l))[i] == (key, payload),
{
    lemma_reaches_frame(o, n, root, key, l, h, l);
    lemma_reaches_unique(n, root, key, l, h, l0, h0);
    let cells0 = leaf_cells(pg(o, l));
    lemma_insert_at_lower_bound(cells0, i, key, payload);
    let ks = leaf_keys(pg(n, l));
    let c1 = leaf_cells(pg(n, l));
    assert(c1 == cells0.insert(i, (key, payload)));
    assert(ks.len() == c1.len() && c1.len() == cells0.len() + 1);
    assert(is_lb(ks, key, i)) by {
        assert forall|j: int| 0 <= j < i implies lex_lt(#[trigger] ks[j], key) by { assert(ks[j] == c1[j].0); assert(lex_lt(cells0.insert(i, (key, payload))[j].0, key)); }
        assert forall|j: int| i <= j < ks.len() implies lex_le(key, #[trigger] ks[j]) by { assert(ks[j] == c1[j].0); assert(lex_le(key, cells0.insert(i, (key, payload))[j].0)); }
    }
    lemma_lb_unique(ks, key, i, lb_pos(ks, key));
}

//@canary|pub proof fn canary_split_insert_ok(o: &Pager, n: &Pager, path: Seq<PathEntry>, root: u64, l: u64, r: u64, k: Seq<u8>) requires split_insert_ok(o, n, path, root, l, r, 1, k, 7), r != 0, pg_count(pg(n, l)) == 2, pg_count(pg(o, l)) == 3, path.len() == 2 ensures false {}
//@canary|pub proof fn canary_lookup_after_split_concl(o: &Pager, n: &Pager, path: Seq<PathEntry>, root: u64, l: u64, r: u64, k: Seq<u8>, l0: u64, h0: nat) requires split_insert_ok(o, n, path, root, l, r, 2, k, 7), r != 0, pg_count(pg(n, l)) == 2, reaches(n, root, k, l0, h0), leaf_wf(pg(n, l0)) ensures l0 == r {}
//@canary|pub proof fn canary_any_split_propagated(o: &Pager, m: &Pager, n: &Pager, path: Seq<PathEntry>, ro: u64, rn: u64, l: u64, r: u64, k: Seq<u8>, s: Seq<u8>) requires any_split_ok(o, m, n, path, ro, rn, l, r, 1, k, 7, s), path.len() == 2, !parent_insert_ok(m, n, path.last().page.0, path.last().child_pos as int, s, r), pg_count(pg(m, l)) == 2 ensures false { reveal(path_ok); }
//@canary|pub proof fn canary_redirect_concl(o: &Pager, n: &Pager, path: Seq<PathEntry>, ro: u64, rn: u64, l: u64, s: Seq<u8>, r: u64, k: Seq<u8>, t: u64) requires propagated_ok(o, n, path, ro, rn, l, s, r), path_ok(o, path), path_for_key(o, path, k), path_leads_to(o, path, ro, l), path.len() == 1, reaches(n, l, k, t, 0) ensures exists|hh: nat| reaches(n, rn, k, t, hh) {}
//@canary|pub proof fn canary_reaches(p: &Pager, root: u64, k: Seq<u8>, l: u64) requires tree_pages_ok(p), reaches(p, root, k, l, 2), root != l, pg_kind_ok(pg(p, root)), pg(p, root)[4] == 1, pg_count(pg(p, root)) == 3 ensures false {}
//@canary|pub proof fn canary_lookup_hyp(o: &Pager, n: &Pager, root: u64, k: Seq<u8>, l: u64) requires tree_pages_ok(o), inserted_at(o, n, l, 1, k, 5), reaches(o, root, k, l, 1), root != l, pg_count(pg(o, l)) == 2 ensures false {}
//@canary|pub proof fn canary_ranked(p: &Pager, rank: spec_fn(u64) -> nat, a: u64) requires tree_pages_ok(p), ranked(p, rank), pg_kind_ok(pg(p, a)), pg(p, a)[4] == 1, pg_count(pg(p, a)) == 2, int_child(pg(p, a), 1) != int_child(pg(p, a), 2) ensures false {}
//@canary|pub proof fn canary_path_ok(p: &Pager, path: Seq<PathEntry>) requires path_ok(p, path), path.len() == 2, path[0].child_pos == 1, path[1].child_pos == 0 ensures false { reveal(path_ok); }
//@canary|pub proof fn canary_split_point_pre(e: Seq<(Seq<u8>, u64)>) requires e.len() == 3, ents_sz(e) <= usize::MAX, cut_fits(e, 1), !cut_fits(e, 2) ensures false {}
//@canary|pub proof fn canary_leaf_split_ok(o: &Pager, n: &Pager, l: u64, r: u64, k: Seq<u8>, s: Seq<u8>) requires leaf_split_ok(o, n, l, r, 1, k, 7, s), pg_count(pg(o, l)) == 3, leaf_cells(pg(n, l)).len() == 2 ensures false {}
//@canary|pub proof fn canary_internal_split_ok(o: &Pager, n: &Pager, p: u64, r2: u64, s: Seq<u8>, pr: Seq<u8>) requires internal_split_ok(o, n, p, r2, 1, s, 9, pr), pg_count(pg(o, p)) == 4, pg_count(pg(n, p)) == 2 ensures false {}
//@canary|pub proof fn canary_leaf_wf(b: Seq<u8>) requires leaf_wf(b), pg_count(b) == 3, keys_sorted(leaf_cells(b)), leaf_cells(b)[0].0 == leaf_cells(b)[1].0 ensures false {}
//@canary|pub proof fn canary_internal_wf(b: Seq<u8>) requires internal_wf(b), pg_count(b) == 2, seps_sorted(int_seps(b)) ensures false {}
//@canary|pub proof fn canary_insert_fits(b: Seq<u8>, k: Seq<u8>) requires leaf_wf(b), pg_count(b) == 1, k.len() == 300, 24 + 2 * pg_count(b) + 2 + vlen(k.len() as u32) + k.len() + 8 <= pg_begin(b) ensures false {}

} // verus!
// `Result::unwrap` (Page::rebuild_leaf) needs `Error: Debug` for its panic message; the derive is dropped by the
// extraction (R4), so a trivial impl stands in - the panic itself is proved unreachable.
impl core::fmt::Debug for Error { fn fmt(&self, f: &mut core::fmt::Formatter<'_>) -> core::fmt::Result { f.write_str("Error") } }
fn main() {}
