// ---- shared: the log as a byte sequence: frames, valid prefix, records ----
pub uninterp spec fn crc32_spec(b: Seq<u8>) -> u32;
/// `body_ok(b)` / `body_val(b)`: the verdict and value of WalRecord::decode_body on `b` (decode_body is
/// a pure function of its argument; its relation to the record format is proved in unit c25_wal).
pub uninterp spec fn body_ok(b: Seq<u8>) -> bool;
pub uninterp spec fn body_val(b: Seq<u8>) -> SR;

pub open spec fn max_record_len() -> int { 1048576 }

pub open spec fn hdr_len(b: Seq<u8>, p: int) -> int { from_le32(b.subrange(p, p + 4)) as int }
pub open spec fn hdr_crc(b: Seq<u8>, p: int) -> u32 { from_le32(b.subrange(p + 4, p + 8)) }
pub open spec fn frame_body(b: Seq<u8>, p: int) -> Seq<u8> { b.subrange(p + 8, p + 8 + hdr_len(b, p)) }

/// A complete frame starts at `p`: 8-byte header, length within the limit and within the file,
/// checksum matches, body decodes.  Returns the frame's total length.
pub open spec fn frame_at(b: Seq<u8>, p: int) -> Option<int> {
    if p < 0 || p + 8 > b.len() { None }
    else if hdr_len(b, p) > max_record_len() || p + 8 + hdr_len(b, p) > b.len() { None }
    else if crc32_spec(frame_body(b, p)) != hdr_crc(b, p) || !body_ok(frame_body(b, p)) { None }
    else { Some(8 + hdr_len(b, p)) }
}

/// End of the longest run of complete frames starting at `p`.
pub open spec fn valid_end(b: Seq<u8>, p: int) -> int
    decreases b.len() - p
{
    match frame_at(b, p) {
        Some(n) => valid_end(b, p + n),
        None => p,
    }
}
/// The records of that run.
pub open spec fn records(b: Seq<u8>, p: int) -> Seq<SR>
    decreases b.len() - p
{
    match frame_at(b, p) {
        Some(n) => seq![body_val(frame_body(b, p))] + records(b, p + n),
        None => Seq::<SR>::empty(),
    }
}
