// Verus unit c28_vacuum — C28 (vacuum preserves the database), reachability scope.
// Writer/marker layout agreement for compacted relationship segments (csr::encode_meta vs
// vacuum::mark_csr_segment_pages through one format spec), blob-chain marker vs reader
// (vacuum::mark_blob_chain vs BlobStore::read_direct through one chain spec).
// Bodies extracted from nervusdb-storage/src/{csr,vacuum,blob_store}.rs.
//@unit c28_vacuum
//@rlimit 60
//@property C28
use vstd::prelude::*;
use std::fs::File;
use std::path::{Path, PathBuf};
use std::collections::BTreeSet;
verus! {
//@include _prelude.rs
//@include _file_model.rs

//@item nervusdb-storage/src/lib.rs const PAGE_SIZE
//@item nervusdb-storage/src/error.rs enum Error
//@rewrite "    Serialization(serde_json::Error)," => ""
//@item nervusdb-storage/src/error.rs type Result
//@item nervusdb-storage/src/pager.rs struct PageId keep-derive
//@item nervusdb-storage/src/pager.rs struct Meta keep-derive
//@item nervusdb-storage/src/pager.rs struct Bitmap
//@item nervusdb-storage/src/pager.rs struct Pager
//@item nervusdb-storage/src/csr.rs struct SegmentId keep-derive
//@item nervusdb-storage/src/idmap.rs type InternalNodeId
//@item nervusdb-storage/src/csr.rs const META_MAGIC

//@include _file_ops.rs
//@include _pager_model.rs

impl PageId {
//@extract nervusdb-storage/src/pager.rs PageId::new ret r
//@| ensures r.0 == id
//@end
//@extract nervusdb-storage/src/pager.rs PageId::as_u64 ret r
//@| ensures r == self.0
//@end
}

impl Pager {
    /// stored content of page `p`
    pub open spec fn page(&self, p: int) -> Seq<u8> { self.bytes().subrange(p * 8192, p * 8192 + 8192) }
    //@trusted read_page: contract of Pager::read_page, proved from the real body in unit c18_pager
    #[verifier::external_body]
    pub fn read_page(&self, page_id: PageId) -> (r: Result<[u8; PAGE_SIZE]>)
        ensures r is Ok ==> 2 <= page_id.0 < 65536 && self.alloc(page_id.0 as int) && (page_id.0 + 1) * 8192 <= self.bytes().len()
            && r->Ok_0@ == self.page(page_id.0 as int),
            r is Err ==> r->Err_0 is Io || r->Err_0 is PageIdOutOfRange || r->Err_0 is PageNotAllocated,
    { unimplemented!() }
}

// ---- the set of reachable pages (std BTreeSet<PageId>, viewed as a set of page numbers) ----
pub uninterp spec fn reach(s: &BTreeSet<PageId>) -> Set<u64>;
//@trusted v_reach_insert: BTreeSet::insert adds the element and reports whether it was new (std)
#[verifier::external_body]
pub fn v_reach_insert(s: &mut BTreeSet<PageId>, p: PageId) -> (r: bool)
    ensures reach(final(s)) == reach(old(s)).insert(p.0), r == !reach(old(s)).contains(p.0)
{ unimplemented!() }

// ---- sequential writer over a page buffer (std::io::Cursor<&mut [u8]>) ----
//@trusted v_cursor_write: Cursor<&mut [u8]>::write_all(data) at position pos copies data to buf[pos..pos+len] and advances pos when it fits; otherwise it fails with WriteZero (std)
#[verifier::external_body]
pub fn v_cursor_write(buf: &mut [u8; PAGE_SIZE], pos: &mut usize, data: &[u8]) -> (r: Result<()>)
    requires *old(pos) <= 8192
    ensures
        r is Ok <==> *old(pos) + data@.len() <= 8192,
        r is Ok ==> *final(pos) == *old(pos) + data@.len()
            && final(buf)@ == old(buf)@.take(*old(pos) as int) + data@ + old(buf)@.skip(*old(pos) + data@.len()),
        r is Err ==> r->Err_0 is Io,
{ unimplemented!() }

//@trusted v_page_range: `page[a..b]` on a page array is the sub-slice (std panics unless a <= b <= 8192: precondition)
#[verifier::external_body]
pub fn v_page_range(page: &[u8; PAGE_SIZE], a: usize, b: usize) -> (r: &[u8])
    requires a <= b <= 8192
    ensures r@ == page@.subrange(a as int, b as int)
{ &page[a..b] }
//@trusted v_slice_ne_array8: `slice != array` on bytes is sequence inequality (std)
#[verifier::external_body]
pub fn v_slice_ne_array8(s: &[u8], a: &[u8; 8]) -> (r: bool)
    ensures r == (s@ != a@)
{ s != a }

// ================================================================== format spec of a CSR segment meta page
pub open spec fn csr_magic() -> Seq<u8> { seq![0x4Eu8, 0x44u8, 0x42u8, 0x43u8, 0x53u8, 0x52u8, 0x76u8, 0x32u8] } // "NDBCSRv2"

pub open spec fn le64s(s: Seq<u64>) -> Seq<u8>
    decreases s.len()
{ if s.len() == 0 { Seq::<u8>::empty() } else { le64s(s.drop_last()) + le64(s.last()) } }

pub struct CsrMeta {
    pub id: u64, pub min_src: u32, pub max_src: u32, pub min_dst: u32, pub max_dst: u32,
    pub offsets_len: u64, pub edges_len: u64, pub in_offsets_len: u64, pub in_edges_len: u64,
    pub o: Seq<u64>, pub e: Seq<u64>, pub io: Seq<u64>, pub ie: Seq<u64>,
}

impl CsrMeta {
    pub open spec fn header(self) -> Seq<u8> {
        csr_magic() + le64(self.id) + le32(self.min_src) + le32(self.max_src) + le32(self.min_dst) + le32(self.max_dst)
            + le64(self.offsets_len) + le64(self.edges_len) + le64(self.in_offsets_len) + le64(self.in_edges_len)
            + le32(self.o.len() as u32) + le32(self.e.len() as u32) + le32(self.io.len() as u32) + le32(self.ie.len() as u32)
    }
    pub open spec fn lists(self) -> Seq<u64> { self.o + self.e + self.io + self.ie }
    /// the bytes `encode_meta` must produce (then the rest of the page is left as it was)
    pub open spec fn layout(self) -> Seq<u8> { self.header() + le64s(self.o) + le64s(self.e) + le64s(self.io) + le64s(self.ie) }
    pub open spec fn fits(self) -> bool { 80 + 8 * self.lists().len() <= 8192 }
}

// what a reader of the format sees in a page
pub open spec fn csr_count(page: Seq<u8>, k: int) -> int { from_le32(page.subrange(64 + 4 * k, 68 + 4 * k)) as int }
pub open spec fn csr_total(page: Seq<u8>) -> int { csr_count(page, 0) + csr_count(page, 1) + csr_count(page, 2) + csr_count(page, 3) }
pub open spec fn csr_valid(page: Seq<u8>) -> bool { page.len() == 8192 && page.subrange(0, 8) == csr_magic() && 80 + 8 * csr_total(page) <= 8192 }
pub open spec fn csr_page_at(page: Seq<u8>, k: int) -> u64 { from_le64(page.subrange(80 + 8 * k, 88 + 8 * k)) }

pub proof fn lemma_le64s_len(s: Seq<u64>)
    ensures le64s(s).len() == 8 * s.len()
    decreases s.len()
{
    if s.len() > 0 { lemma_le64s_len(s.drop_last()); lemma_le64_roundtrip(s.last()); }
}
pub proof fn lemma_le64s_push(s: Seq<u64>, k: int)
    requires 0 <= k < s.len()
    ensures le64s(s.take(k + 1)) == le64s(s.take(k)) + le64(s[k]), le64s(s.take(k)).len() == 8 * k, le64(s[k]).len() == 8
{
    assert(s.take(k + 1).drop_last() =~= s.take(k));
    assert(s.take(k + 1).last() == s[k]);
    lemma_le64s_len(s.take(k));
    lemma_le64_roundtrip(s[k]);
}

//@extract nervusdb-storage/src/csr.rs encode_meta ret r
//@| requires old(out)@.len() == 8192,
//@|     // page lists hold page ids of a 65536-page file; the bound only keeps `needed` from overflowing usize
//@|     offsets_pages@.len() <= 0x1000_0000, edges_pages@.len() <= 0x1000_0000, in_offsets_pages@.len() <= 0x1000_0000, in_edges_pages@.len() <= 0x1000_0000,
//@| ensures
//@|     r is Ok <==> 80 + 8 * (offsets_pages@.len() + edges_pages@.len() + in_offsets_pages@.len() + in_edges_pages@.len()) <= 8192,
//@|     r is Ok ==> ({ let m = CsrMeta { id: id.0, min_src, max_src, min_dst, max_dst, offsets_len, edges_len, in_offsets_len, in_edges_len,
//@|                                    o: offsets_pages@, e: edges_pages@, io: in_offsets_pages@, ie: in_edges_pages@ };
//@|                    final(out)@ == m.layout() + old(out)@.skip(m.layout().len() as int) }),
//@prewrite "let mut cur = Cursor::new(out.as_mut_slice());" => "let mut cur: usize = 0;"
//@preregex "cur\.write_all\((&[^;]*?)\)\s*\.map_err\(Error::Io\)\?;" => "v_cursor_write(out, &mut cur, \1)?;"
//@lebytes id.0:u64 min_src:u32 max_src:u32 min_dst:u32 max_dst:u32 offsets_len:u64 edges_len:u64 in_offsets_len:u64 in_edges_len:u64 offsets_page_count:u32 edges_page_count:u32 in_offsets_page_count:u32 in_edges_page_count:u32 p:*u64
//@proof after 1 "let mut cur = Cursor::new(out.as_mut_slice());" raw
//@| let ghost m = CsrMeta { id: id.0, min_src, max_src, min_dst, max_dst, offsets_len, edges_len, in_offsets_len, in_edges_len,
//@|                         o: offsets_pages@, e: edges_pages@, io: in_offsets_pages@, ie: in_edges_pages@ };
//@| let ghost out0 = out@;
//@proof before 1 "=for p in offsets_pages {"
//@| assert(cur == 80);
//@| assert(out@ =~= m.header() + out0.skip(80));
//@| assert(m.o.take(0) =~= Seq::<u64>::empty());
//@loop 1 iter it1
//@| invariant needed <= 8192, needed == 80 + 8 * (m.o.len() + m.e.len() + m.io.len() + m.ie.len()), out@.len() == 8192, out0.len() == 8192,
//@|     m.o == offsets_pages@, m.e == edges_pages@, m.io == in_offsets_pages@, m.ie == in_edges_pages@, m.header().len() == 80,
//@|     cur == 80 + 8 * it1.index@,
//@|     out@ =~= m.header() + le64s(m.o.take(it1.index@ as int)) + out0.skip(80 + 8 * it1.index@),
//@proof before 1 "cur.write_all(&p.to_le_bytes()).map_err(Error::Io)?;"
//@| lemma_le64s_push(m.o, it1.index@ as int);
//@proof before 1 "=for p in edges_pages {"
//@| assert(m.o.take(m.o.len() as int) =~= m.o);
//@| assert(m.e.take(0) =~= Seq::<u64>::empty());
//@| lemma_le64s_len(m.o);
//@loop 2 iter it2
//@| invariant needed <= 8192, needed == 80 + 8 * (m.o.len() + m.e.len() + m.io.len() + m.ie.len()), out@.len() == 8192, out0.len() == 8192,
//@|     m.o == offsets_pages@, m.e == edges_pages@, m.io == in_offsets_pages@, m.ie == in_edges_pages@, m.header().len() == 80,
//@|     le64s(m.o).len() == 8 * m.o.len(),
//@|     cur == 80 + 8 * (m.o.len() + it2.index@),
//@|     out@ =~= m.header() + le64s(m.o) + le64s(m.e.take(it2.index@ as int)) + out0.skip(80 + 8 * (m.o.len() + it2.index@)),
//@proof before 2 "cur.write_all(&p.to_le_bytes()).map_err(Error::Io)?;"
//@| lemma_le64s_push(m.e, it2.index@ as int);
//@proof before 1 "=for p in in_offsets_pages {"
//@| assert(m.e.take(m.e.len() as int) =~= m.e);
//@| assert(m.io.take(0) =~= Seq::<u64>::empty());
//@| lemma_le64s_len(m.e);
//@loop 3 iter it3
//@| invariant needed <= 8192, needed == 80 + 8 * (m.o.len() + m.e.len() + m.io.len() + m.ie.len()), out@.len() == 8192, out0.len() == 8192,
//@|     m.o == offsets_pages@, m.e == edges_pages@, m.io == in_offsets_pages@, m.ie == in_edges_pages@, m.header().len() == 80,
//@|     le64s(m.o).len() == 8 * m.o.len(), le64s(m.e).len() == 8 * m.e.len(),
//@|     cur == 80 + 8 * (m.o.len() + m.e.len() + it3.index@),
//@|     out@ =~= m.header() + le64s(m.o) + le64s(m.e) + le64s(m.io.take(it3.index@ as int)) + out0.skip(80 + 8 * (m.o.len() + m.e.len() + it3.index@)),
//@proof before 3 "cur.write_all(&p.to_le_bytes()).map_err(Error::Io)?;"
//@| lemma_le64s_push(m.io, it3.index@ as int);
//@proof before 1 "=for p in in_edges_pages {"
//@| assert(m.io.take(m.io.len() as int) =~= m.io);
//@| assert(m.ie.take(0) =~= Seq::<u64>::empty());
//@| lemma_le64s_len(m.io);
//@loop 4 iter it4
//@| invariant needed <= 8192, needed == 80 + 8 * (m.o.len() + m.e.len() + m.io.len() + m.ie.len()), out@.len() == 8192, out0.len() == 8192,
//@|     m.o == offsets_pages@, m.e == edges_pages@, m.io == in_offsets_pages@, m.ie == in_edges_pages@, m.header().len() == 80,
//@|     le64s(m.o).len() == 8 * m.o.len(), le64s(m.e).len() == 8 * m.e.len(), le64s(m.io).len() == 8 * m.io.len(),
//@|     cur == 80 + 8 * (m.o.len() + m.e.len() + m.io.len() + it4.index@),
//@|     out@ =~= m.header() + le64s(m.o) + le64s(m.e) + le64s(m.io) + le64s(m.ie.take(it4.index@ as int)) + out0.skip(80 + 8 * (m.o.len() + m.e.len() + m.io.len() + it4.index@)),
//@proof before 4 "cur.write_all(&p.to_le_bytes()).map_err(Error::Io)?;"
//@| lemma_le64s_push(m.ie, it4.index@ as int);
//@proof before 1 "=Ok(())"
//@| assert(m.ie.take(m.ie.len() as int) =~= m.ie);
//@| lemma_le64s_len(m.ie);
//@| assert(out@ =~= m.layout() + out0.skip(m.layout().len() as int));
//@end

// ================================================================== the marker
// C28.csr.meta.marker — on a page that holds a valid segment meta layout the marker does not fail
// (other than on I/O) and puts every non-zero page id of all FOUR lists into `reachable`; it never
// removes anything.
//@extract nervusdb-storage/src/vacuum.rs mark_csr_segment_pages ret r
//@| ensures reach(old(reachable)).subset_of(reach(final(reachable))),
//@|     r is Ok ==> csr_valid(pager.page(meta_page_id.0 as int))
//@|         && forall|k: int| 0 <= k < csr_total(pager.page(meta_page_id.0 as int)) && csr_page_at(pager.page(meta_page_id.0 as int), k) != 0
//@|                ==> reach(final(reachable)).contains(#[trigger] csr_page_at(pager.page(meta_page_id.0 as int), k)),
//@|     // the only reasons to fail: the page cannot be read, or it does not hold the layout
//@|     r is Err ==> r->Err_0 is Io || r->Err_0 is PageIdOutOfRange || r->Err_0 is PageNotAllocated || !csr_valid(pager.page(meta_page_id.0 as int)),
//@prewrite "meta[0..8] != META_MAGIC" => "v_slice_ne_array8(&meta[0..8], &META_MAGIC)"
//@prewrite "reachable.insert(PageId::new(id));" => "v_reach_insert(reachable, PageId::new(id));"
//@proof before 1 "let needed = "
//@| assert(META_MAGIC@ =~= csr_magic());
//@loop? "while off < HEADER_SIZE"
//@| invariant 64 <= off <= 80, (off - 64) % 4 == 0, meta@ == pager.page(meta_page_id.0 as int), meta@.len() == 8192,
//@|     page_count == (if off >= 68 { csr_count(meta@, 0) } else { 0 }) + (if off >= 72 { csr_count(meta@, 1) } else { 0 })
//@|                 + (if off >= 76 { csr_count(meta@, 2) } else { 0 }) + (if off >= 80 { csr_count(meta@, 3) } else { 0 }),
//@| decreases 80 - off
//@loop "for _ in 0..page_count" iter it2
//@| invariant meta@ == pager.page(meta_page_id.0 as int), meta@.len() == 8192, page_count == csr_total(meta@), 80 + 8 * page_count <= 8192,
//@|     off == 80 + 8 * it2.index@, it2.index@ <= page_count,
//@|     reach(old(reachable)).subset_of(reach(reachable)),
//@|     forall|k: int| 0 <= k < it2.index@ && csr_page_at(meta@, k) != 0 ==> reach(reachable).contains(#[trigger] csr_page_at(meta@, k)),
//@end

// ================================================================== writer / marker agreement
pub proof fn lemma_le64s_concat(a: Seq<u64>, b: Seq<u64>)
    ensures le64s(a + b) == le64s(a) + le64s(b)
    decreases b.len()
{
    if b.len() == 0 {
        assert(a + b =~= a);
        assert(le64s(a) + le64s(b) =~= le64s(a));
    } else {
        lemma_le64s_concat(a, b.drop_last());
        assert((a + b).drop_last() =~= a + b.drop_last());
        assert((a + b).last() == b.last());
        assert(le64s(a) + le64s(b) =~= (le64s(a) + le64s(b.drop_last())) + le64(b.last()));
    }
}
pub proof fn lemma_le64s_index(s: Seq<u64>, k: int)
    requires 0 <= k < s.len()
    ensures le64s(s).len() == 8 * s.len(), le64s(s).subrange(8 * k, 8 * k + 8) == le64(s[k])
    decreases s.len()
{
    lemma_le64s_len(s);
    lemma_le64s_len(s.drop_last());
    lemma_le64_roundtrip(s.last());
    if k == s.len() - 1 {
        assert(le64s(s).subrange(8 * k, 8 * k + 8) =~= le64(s.last()));
    } else {
        lemma_le64s_index(s.drop_last(), k);
        assert(le64s(s).subrange(8 * k, 8 * k + 8) =~= le64s(s.drop_last()).subrange(8 * k, 8 * k + 8));
    }
}

/// C28.csr.meta.marker_covers_writer — on any page whose first bytes are the layout `encode_meta`
/// produces, a reader of the format (the marker, `decode_segment`) sees a valid meta page whose page
/// list is exactly the writer's four lists, in order.  With the two contracts above: every page the
/// writer recorded is marked reachable.
pub proof fn lemma_csr_marker_covers_writer(m: CsrMeta, page: Seq<u8>)
    requires m.fits(), page.len() == 8192, page.take(m.layout().len() as int) == m.layout(),
    ensures csr_valid(page), csr_total(page) == m.lists().len(),
        forall|k: int| 0 <= k < m.lists().len() ==> #[trigger] csr_page_at(page, k) == m.lists()[k],
{
    let h = m.header();
    let l = m.lists();
    lemma_le64s_concat(m.o, m.e);
    lemma_le64s_concat(m.o + m.e, m.io);
    lemma_le64s_concat(m.o + m.e + m.io, m.ie);
    lemma_le64s_len(l);
    lemma_le64_roundtrip(m.id); lemma_le64_roundtrip(m.offsets_len); lemma_le64_roundtrip(m.edges_len);
    lemma_le64_roundtrip(m.in_offsets_len); lemma_le64_roundtrip(m.in_edges_len);
    lemma_le32_roundtrip(m.min_src); lemma_le32_roundtrip(m.max_src); lemma_le32_roundtrip(m.min_dst); lemma_le32_roundtrip(m.max_dst);
    lemma_le32_roundtrip(m.o.len() as u32); lemma_le32_roundtrip(m.e.len() as u32);
    lemma_le32_roundtrip(m.io.len() as u32); lemma_le32_roundtrip(m.ie.len() as u32);
    assert(h.len() == 80);
    assert(m.layout() =~= h + le64s(l));
    let n = m.layout().len() as int;
    assert(n == 80 + 8 * l.len());
    let t = page.take(n);
    assert(page.subrange(0, 8) =~= t.subrange(0, 8));
    assert(t.subrange(0, 8) =~= csr_magic());
    assert(page.subrange(64, 68) =~= t.subrange(64, 68));
    assert(t.subrange(64, 68) =~= le32(m.o.len() as u32));
    assert(page.subrange(68, 72) =~= t.subrange(68, 72));
    assert(t.subrange(68, 72) =~= le32(m.e.len() as u32));
    assert(page.subrange(72, 76) =~= t.subrange(72, 76));
    assert(t.subrange(72, 76) =~= le32(m.io.len() as u32));
    assert(page.subrange(76, 80) =~= t.subrange(76, 80));
    assert(t.subrange(76, 80) =~= le32(m.ie.len() as u32));
    assert(csr_count(page, 0) == m.o.len() && csr_count(page, 1) == m.e.len() && csr_count(page, 2) == m.io.len() && csr_count(page, 3) == m.ie.len());
    assert forall|k: int| 0 <= k < l.len() implies #[trigger] csr_page_at(page, k) == l[k] by {
        lemma_le64s_index(l, k);
        lemma_le64_roundtrip(l[k]);
        assert(page.subrange(80 + 8 * k, 88 + 8 * k) =~= t.subrange(80 + 8 * k, 88 + 8 * k));
        assert(t.subrange(80 + 8 * k, 88 + 8 * k) =~= le64s(l).subrange(8 * k, 8 * k + 8));
    }
}

// ================================================================== blob chains: marker and reader over one chain spec
pub open spec fn blob_next(pager: &Pager, p: u64) -> u64 { from_le64(pager.page(p as int).subrange(0, 8)) }
pub open spec fn blob_len(pager: &Pager, p: u64) -> int { from_le16(pager.page(p as int).subrange(8, 10)) as int }
/// k-th page of the chain that starts at `start` (0 once the chain has ended)
pub open spec fn chain_at(pager: &Pager, start: u64, k: nat) -> u64
    decreases k
{
    if k == 0 { start } else {
        let prev = chain_at(pager, start, (k - 1) as nat);
        if prev == 0 { 0 } else { blob_next(pager, prev) }
    }
}
/// the bytes a reader must return for the first `n` pages of the chain
pub open spec fn blob_data(pager: &Pager, start: u64, n: nat) -> Seq<u8>
    decreases n
{
    if n == 0 { Seq::<u8>::empty() } else {
        let p = chain_at(pager, start, (n - 1) as nat);
        blob_data(pager, start, (n - 1) as nat) + pager.page(p as int).subrange(10, 10 + blob_len(pager, p))
    }
}

// C28.blob.chain.marker — the marker puts every page of the chain (up to its terminator) into
// `reachable`.  Termination is not proved here (a cycle is detected at run time via the set).
//@extract nervusdb-storage/src/vacuum.rs mark_blob_chain ret r
//@attr #[verifier::exec_allows_no_decreases_clause]
//@| ensures reach(old(reachable)).subset_of(reach(final(reachable))),
//@|     r is Ok ==> exists|n: nat| chain_at(pager, page_id0, n) == 0
//@|         && forall|k: nat| k < n ==> reach(final(reachable)).contains(#[trigger] chain_at(pager, page_id0, k)),
//@prewrite "mut page_id: u64," => "page_id0: u64,"
//@prewrite "    while page_id != 0" => "    let mut page_id = page_id0; let ghost mut kk: nat = 0;\n    while page_id != 0"
//@prewrite "if !reachable.insert(pid) {" => "if !v_reach_insert(reachable, pid) {"
//@prewrite "        page_id = next_page_id;" => "        page_id = next_page_id; proof { kk = kk + 1; }"
//@loop 1
//@| invariant reach(old(reachable)).subset_of(reach(reachable)), page_id == chain_at(pager, page_id0, kk),
//@|     forall|k: nat| k < kk ==> chain_at(pager, page_id0, k) != 0 && reach(reachable).contains(#[trigger] chain_at(pager, page_id0, k)),
//@end

//@item nervusdb-storage/src/blob_store.rs struct BlobStore
//@item nervusdb-storage/src/blob_store.rs const HEADER_SIZE
//@item nervusdb-storage/src/blob_store.rs const MAX_DATA_PER_PAGE
impl BlobStore {
// C28.blob.chain.reader — what a blob read returns is a function of the pages of its chain only (the
// pages the marker marks): the concatenation of their data areas.
//@extract nervusdb-storage/src/blob_store.rs BlobStore::read_direct ret r
//@attr #[verifier::exec_allows_no_decreases_clause]
//@| ensures r is Ok ==> exists|n: nat| chain_at(pager, page_id0, n) == 0
//@|         && (forall|k: nat| k < n ==> #[trigger] chain_at(pager, page_id0, k) != 0)
//@|         && r->Ok_0@ == blob_data(pager, page_id0, n),
//@prewrite "mut page_id: u64" => "page_id0: u64"
//@prewrite "        while page_id != 0" => "        let mut page_id = page_id0; let ghost mut kk: nat = 0;\n        while page_id != 0"
//@prewrite "            page_id = next_page_id;" => "            page_id = next_page_id; proof { kk = kk + 1; }"
//@loop 1
//@| invariant page_id == chain_at(pager, page_id0, kk), out@ == blob_data(pager, page_id0, kk),
//@|     forall|k: nat| k < kk ==> #[trigger] chain_at(pager, page_id0, k) != 0,
//@end
}

/// C28.blob.chain.copy_preserves — if a second page store holds the same content in every page of
/// the chain (what the vacuum copy guarantees for pages in `reachable`), the chain and the bytes a
/// reader returns are the same there.
pub proof fn lemma_blob_copy_preserves(p1: &Pager, p2: &Pager, start: u64, n: nat)
    requires forall|k: nat| k < n ==> p2.page(#[trigger] chain_at(p1, start, k) as int) == p1.page(chain_at(p1, start, k) as int),
    ensures forall|k: nat| k <= n ==> #[trigger] chain_at(p2, start, k) == chain_at(p1, start, k),
        blob_data(p2, start, n) == blob_data(p1, start, n),
    decreases n
{
    if n > 0 {
        lemma_blob_copy_preserves(p1, p2, start, (n - 1) as nat);
        let prev = chain_at(p1, start, (n - 1) as nat);
        assert(chain_at(p2, start, (n - 1) as nat) == prev);
        assert(p2.page(prev as int) == p1.page(prev as int));
        assert(chain_at(p2, start, n) == chain_at(p1, start, n));
        assert forall|k: nat| k <= n implies #[trigger] chain_at(p2, start, k) == chain_at(p1, start, k) by {
            if k < n { } else { }
        }
    }
}

// ================================================================== the reachability scan
//@item nervusdb-storage/src/wal.rs struct SegmentPointer
//@item nervusdb-storage/src/vacuum.rs struct WalRoots
impl Pager {
//@extract nervusdb-storage/src/pager.rs Pager::i2e_start_page ret r
//@| ensures r == (if self.meta.i2e_start_page_id == 0 { None } else { Some(PageId(self.meta.i2e_start_page_id)) })
//@end
//@extract nervusdb-storage/src/pager.rs Pager::i2e_len ret r
//@| ensures r == self.meta.i2e_len
//@end
//@extract nervusdb-storage/src/pager.rs Pager::index_catalog_root ret r
//@| ensures r == (if self.meta.index_catalog_root == 0 { None } else { Some(PageId(self.meta.index_catalog_root)) })
//@end
}
//@trusted u64_div_ceil: u64::div_ceil(a, b) for b > 0 is the least q with q * b >= a, i.e. (a + b - 1) / b computed without overflow (std)
pub assume_specification [u64::div_ceil] (a: u64, b: u64) -> (r: u64)
    requires b > 0
    ensures r == (a as int + b as int - 1) / (b as int);
//@trusted v_reach_new: BTreeSet::new() is the empty set (std)
#[verifier::external_body]
pub fn v_reach_new() -> (r: BTreeSet<PageId>)
    ensures reach(&r) == Set::<u64>::empty()
{ unimplemented!() }
//@trusted v_mark_index_trees: stands for the catalog loop of mark_reachable_pages (IndexCatalog::open_existing, BTree::mark_reachable_pages over every index tree, blob chains of the HNSW payloads): B-tree page marking is NOT decided by this unit; the stub only says the set never shrinks
#[verifier::external_body]
pub fn v_mark_index_trees(pager: &Pager, reachable: &mut BTreeSet<PageId>) -> (r: Result<()>)
    ensures reach(old(reachable)).subset_of(reach(final(reachable)))
{ unimplemented!() }
//@trusted v_mark_property_tree: stands for the property-store block of mark_reachable_pages (BTree::mark_reachable_pages on properties_root, then mark_blob_chain per payload): B-tree page marking is NOT decided by this unit; the stub only says the set never shrinks
#[verifier::external_body]
pub fn v_mark_property_tree(pager: &Pager, root: u64, reachable: &mut BTreeSet<PageId>) -> (r: Result<()>)
    ensures reach(old(reachable)).subset_of(reach(final(reachable)))
{ unimplemented!() }

pub open spec fn seg_marked(pager: &Pager, meta: u64, s: Set<u64>) -> bool {
    meta != 0 ==> s.contains(meta) && csr_valid(pager.page(meta as int))
        && forall|k: int| 0 <= k < csr_total(pager.page(meta as int)) && csr_page_at(pager.page(meta as int), k) != 0
               ==> s.contains(#[trigger] csr_page_at(pager.page(meta as int), k))
}

// C28.reach.scan — what `mark_reachable_pages` keeps: the two header pages, EVERY page of the node
// table (page of record id, for all id < len — ties to i2e_location of C18), the catalog page, the
// statistics blob chain, and for every segment of the manifest its meta page and all four page lists.
//@extract nervusdb-storage/src/vacuum.rs mark_reachable_pages ret r
//@| requires pager.meta.i2e_start_page_id < 65536,
//@| ensures r is Ok ==> ({ let s = reach(&r->Ok_0);
//@|        s.contains(0) && s.contains(1)
//@|     && (pager.meta.i2e_start_page_id != 0 ==> forall|id: int| 0 <= id < pager.meta.i2e_len ==> s.contains(#[trigger] ((pager.meta.i2e_start_page_id + id / 512) as u64)))
//@|     && (pager.meta.index_catalog_root != 0 ==> s.contains(pager.meta.index_catalog_root))
//@|     && (roots.stats_root != 0 ==> exists|n: nat| chain_at(pager, roots.stats_root, n) == 0 && forall|k: nat| k < n ==> s.contains(#[trigger] chain_at(pager, roots.stats_root, k)))
//@|     && (forall|j: int| 0 <= j < roots.segments@.len() ==> seg_marked(pager, #[trigger] roots.segments@[j].meta_page_id, s)) }),
//@prewrite "let mut reachable: BTreeSet<PageId> = BTreeSet::new();" => "let mut reachable: BTreeSet<PageId> = v_reach_new();"
//@preregex "reachable\.insert\(([^;]*)\);" => "v_reach_insert(&mut reachable, \1);"
//@preregex "(?s)    if let Some\(catalog\) = IndexCatalog::open_existing\(pager\)\? \{.*?\n    \}\n" => "    v_mark_index_trees(pager, &mut reachable)?;\n"
//@preregex "(?s)    if roots\.properties_root != 0 \{.*?\n    \}\n" => "    if roots.properties_root != 0 { v_mark_property_tree(pager, roots.properties_root, &mut reachable)?; }\n"
//@preregex "(?s)if seg\.meta_page_id == 0 \{\s*continue;\s*\}(.*?)\n    \}\n\n    Ok\(reachable\)" => "if !(seg.meta_page_id == 0) {\1\n    }\n    }\n\n    Ok(reachable)"
//@proof before 1 "=for i in 0..page_count {"
//@| assert(records_per_page == 512);
//@| assert(page_count == (len as int + 512 - 1) / 512);
//@| assert(page_count * 512 >= len && page_count <= len / 512 + 1) by (nonlinear_arith) requires page_count == (len as int + 512 - 1) / 512, len >= 0;
//@| assert((page_count - 1) * 512 < len) by (nonlinear_arith) requires page_count == (len as int + 512 - 1) / 512, len > 0;
//@loop 1 iter it1
//@| invariant records_per_page == 512, page_count * 512 >= len, page_count <= len / 512 + 1, (page_count - 1) * 512 < len, len == pager.meta.i2e_len, start.0 == pager.meta.i2e_start_page_id, start.0 < 65536,
//@|     reach(&reachable).contains(0) && reach(&reachable).contains(1),
//@|     forall|i: int| 0 <= i < it1.index@ ==> reach(&reachable).contains(#[trigger] ((start.0 + i) as u64)),
// C28.reach.node_table_exact — only pages that hold at least one record of the node table are marked for it
// (a page past the table is not allocated, and the copy would refuse it)
//@proof before 1 "reachable.insert(PageId::new(start.as_u64() + i));"
//@| assert(i * 512 < len) by (nonlinear_arith) requires i <= page_count - 1, (page_count - 1) * 512 < len, i >= 0;
//@loop 5 iter it2
//@| invariant
//@|     forall|j: int| 0 <= j < it2.index@ ==> seg_marked(pager, #[trigger] roots.segments@[j].meta_page_id, reach(&reachable)),
//@|     ({ let s = reach(&reachable);
//@|        s.contains(0) && s.contains(1)
//@|     && (pager.meta.i2e_start_page_id != 0 ==> forall|id: int| 0 <= id < pager.meta.i2e_len ==> s.contains(#[trigger] ((pager.meta.i2e_start_page_id + id / 512) as u64)))
//@|     && (pager.meta.index_catalog_root != 0 ==> s.contains(pager.meta.index_catalog_root))
//@|     && (roots.stats_root != 0 ==> exists|n: nat| chain_at(pager, roots.stats_root, n) == 0 && forall|k: nat| k < n ==> s.contains(#[trigger] chain_at(pager, roots.stats_root, k))) }),
//@end

// ================================================================== the copy: Pager::write_vacuum_copy
//@item nervusdb-storage/src/pager.rs const META_PAGE_ID
//@item nervusdb-storage/src/pager.rs const BITMAP_PAGE_ID
//@item nervusdb-storage/src/pager.rs const FIRST_DATA_PAGE_ID
//@item nervusdb-storage/src/pager.rs const BITMAP_BITS
//@item nervusdb-storage/src/pager.rs struct VacuumCopyStats keep-derive

pub proof fn lemma_bit_ops(b: u8, k: u8)
    requires k < 8
    ensures
        byte_bit(b | (1u8 << k), k as int),
        !byte_bit(b & !(1u8 << k), k as int),
        forall|j: u8| j < 8 && j != k ==> byte_bit(b | (1u8 << k), j as int) == byte_bit(b, j as int),
        forall|j: u8| j < 8 && j != k ==> byte_bit(b & !(1u8 << k), j as int) == byte_bit(b, j as int),
        !byte_bit(0u8, k as int),
{
    assert((((b | (1u8 << k)) >> k) & 1u8) == 1u8) by (bit_vector) requires k < 8;
    assert((((b & !(1u8 << k)) >> k) & 1u8) != 1u8) by (bit_vector) requires k < 8;
    assert(((0u8 >> k) & 1u8) != 1u8) by (bit_vector) requires k < 8;
    assert forall|j: u8| j < 8 && j != k implies byte_bit(b | (1u8 << k), j as int) == byte_bit(b, j as int) by {
        assert((((b | (1u8 << k)) >> j) & 1u8) == ((b >> j) & 1u8)) by (bit_vector) requires k < 8, j < 8, j != k;
    }
    assert forall|j: u8| j < 8 && j != k implies byte_bit(b & !(1u8 << k), j as int) == byte_bit(b, j as int) by {
        assert((((b & !(1u8 << k)) >> j) & 1u8) == ((b >> j) & 1u8)) by (bit_vector) requires k < 8, j < 8, j != k;
    }
}
impl Bitmap {
//@extract nervusdb-storage/src/pager.rs Bitmap::set_bit
//@| requires bit < 65536
//@| ensures final(self).bit(bit as int) == value,
//@|         forall|j: int| 0 <= j < 65536 && j != bit ==> final(self).bit(j) == old(self).bit(j),
//@proof after 1 "let mask = 1u8 << (bit % 8);"
//@| reveal(Bitmap::bit);
//@| lemma_bit_ops(self.data[byte_index as int], (bit % 8) as u8);
//@| assert(forall|x: u8, y: u8| #![auto] x | y == y | x) by (bit_vector);
//@| assert(forall|x: u8, y: u8| #![auto] x & y == y & x) by (bit_vector);
//@proof before 1 "=}" raw
//@| proof {
//@|     reveal(Bitmap::bit);
//@|     assert forall|j: int| 0 <= j < 65536 && j != bit implies self.bit(j) == old(self).bit(j) by {
//@|         if j / 8 == byte_index as int { assert(((j % 8) as u8) != (bit % 8) as u8); assert(((j % 8) as u8) < 8); }
//@|     }
//@| }
//@end
//@extract nervusdb-storage/src/pager.rs Bitmap::set_allocated
//@| requires page_id.0 < 65536
//@| ensures final(self).bit(page_id.0 as int) == allocated,
//@|         forall|j: int| 0 <= j < 65536 && j != page_id.0 ==> final(self).bit(j) == old(self).bit(j),
//@end
// a fresh bitmap has exactly the two header pages marked
//@extract nervusdb-storage/src/pager.rs Bitmap::new ret r
//@| ensures r.bit(0) && r.bit(1), forall|j: int| 2 <= j < 65536 ==> !r.bit(j),
//@proof before 1 "bitmap.set_allocated(META_PAGE_ID, true);" raw
//@| proof {
//@|     reveal(Bitmap::bit);
//@|     assert forall|j: int| 0 <= j < 65536 implies !bitmap.bit(j) by { lemma_bit_ops(0u8, (j % 8) as u8); }
//@| }
//@end
}
impl Meta {
    //@trusted encode_page: Meta::encode_page returns some page image (layout / round trip: Kani harness c18_meta_roundtrip)
    #[verifier::external_body]
    pub fn encode_page(self) -> (r: [u8; PAGE_SIZE])
        ensures r@ == meta_image(self)
    { unimplemented!() }
}
//@extract nervusdb-storage/src/pager.rs write_page_raw ret r
//@| requires page_id.0 < 65536
//@| ensures
//@|     file_bytes(final(file)).len() >= file_bytes(old(file)).len(),
//@|     file_bytes(final(file)).len() <= (if file_bytes(old(file)).len() >= (page_id.0 + 1) * 8192 { file_bytes(old(file)).len() } else { ((page_id.0 + 1) * 8192) as nat }),
//@|     forall|i: int| 0 <= i < file_bytes(old(file)).len() && i / 8192 != page_id.0 ==> #[trigger] file_bytes(final(file))[i] == file_bytes(old(file))[i],
//@|     r is Ok ==> file_bytes(final(file)).len() >= (page_id.0 + 1) * 8192
//@|         && file_bytes(final(file)).subrange(page_id.0 * 8192, page_id.0 * 8192 + 8192) == buf@,
//@prewrite "file: &File" => "file: &mut File"
//@prewrite "write_all_at(file, offset, buf).map_err(Error::Io)?;" => "v_write_all_at(file, offset, buf)?;"
//@end

//@trusted v_set_elems: iterating a BTreeSet visits exactly its elements, each once (std); the loops of write_vacuum_copy iterate this sequence instead of the set itself because this vstd has no comparison model for a user key type (PageId)
#[verifier::external_body]
pub fn v_set_elems(s: &BTreeSet<PageId>) -> (r: Vec<PageId>)
    ensures forall|x: u64| reach(s).contains(x) <==> exists|i: int| 0 <= i < r@.len() && #[trigger] r@[i].0 == x,
        forall|i: int, j: int| 0 <= i < j < r@.len() ==> r@[i].0 != r@[j].0,
{ unimplemented!() }
//@trusted v_create_new: OpenOptions::new().write(true).create_new(true).truncate(false).open(path) yields a new empty file or an I/O error (std)
#[verifier::external_body]
pub fn v_create_new(path: &std::path::Path) -> (r: Result<std::fs::File>)
    ensures r is Ok ==> file_bytes(&r->Ok_0).len() == 0, r is Err ==> r->Err_0 is Io,
{ unimplemented!() }
//@trusted v_u64_max: u64::max (Ord::max) is the larger of the two (std)
pub fn v_u64_max(a: u64, b: u64) -> (r: u64) ensures r == (if a >= b { a } else { b }) { if a >= b { a } else { b } }

/// C28.copy.spec — what the vacuum copy must be: a page store of exactly `next` pages whose bitmap marks
/// the two header pages and exactly the reachable data pages, whose next_page_id lies above every
/// reachable page, and in which every reachable data page holds the bytes it held in the source.
pub open spec fn copy_ok(src: &Pager, out: Seq<u8>, bm: Bitmap, next: u64, s: Set<u64>) -> bool {
    &&& out.len() == next * 8192 && 2 <= next <= 65536
    &&& forall|x: u64| s.contains(x) ==> x < next
    &&& bm.bit(0) && bm.bit(1)
    &&& forall|q: int| 2 <= q < 65536 ==> (bm.bit(q) <==> s.contains(q as u64))
    &&& out.subrange(8192, 16384) == bm.data@
    &&& forall|x: u64| s.contains(x) && x >= 2 ==> #[trigger] out.subrange(x * 8192, x * 8192 + 8192) == src.page(x as int)
}

impl Pager {
//@extract nervusdb-storage/src/pager.rs Pager::write_vacuum_copy ret r
//@| requires self.bytes().len() <= 0x7fff_ffff_ffff_ffff,
//@| ensures r is Ok ==> 2 <= r->Ok_0.new_next_page_id <= 65536 && forall|x: u64| reach(reachable).contains(x) ==> x < r->Ok_0.new_next_page_id,
//@prewrite "self.file.metadata()?.len()" => "vfile_len(&self.file)?"
//@preregex "?max_page_id\.max\(id\)" => "v_u64_max(max_page_id, id)"
//@preregex "(?s)let out = OpenOptions::new\(\).*?\.open\(target_path\)\?;" => "let mut out = v_create_new(target_path)?;"
//@prewrite "out.set_len(new_next_page_id.saturating_mul(PAGE_SIZE as u64))?;" => "vfile_set_len(&mut out, new_next_page_id.saturating_mul(PAGE_SIZE as u64))?;"
//@prewrite "&out, " => "&mut out, "
//@prewrite "out.sync_data()?;" => "vfile_sync_data(&mut out)?;"
//@preregex "(?s)if p\.as_u64\(\) < FIRST_DATA_PAGE_ID\.as_u64\(\) \{\s*continue;\s*\}(.*?)\n        \}\n\n        vfile_sync_data" => "if !(p.as_u64() < FIRST_DATA_PAGE_ID.as_u64()) {\1\n        }\n        }\n\n        vfile_sync_data"
//@proof before 1 "@start" raw
//@| let elems = v_set_elems(reachable);
//@preregex "in (it\d): reachable " => "in \1: elems.iter() "
//@loop 1 iter it1
//@| invariant max_page_id >= 1, max_page_id < 65536,
//@|     forall|i: int| 0 <= i < it1.index@ ==> elems@[i].0 < 65536 && elems@[i].0 <= max_page_id,
//@loop 2 iter it2
//@| invariant bitmap.bit(0) && bitmap.bit(1),
//@|     forall|i: int| 0 <= i < elems@.len() ==> elems@[i].0 < 65536,
//@|     forall|q: int| 2 <= q < 65536 ==> (bitmap.bit(q) <==> exists|i: int| 0 <= i < it2.index@ && #[trigger] elems@[i].0 == q),
//@loop 3 iter it3
//@| invariant new_next_page_id <= 65536, file_bytes(&out).len() == new_next_page_id * 8192,
//@|     forall|i: int| 0 <= i < elems@.len() ==> elems@[i].0 < new_next_page_id,
//@|     forall|i: int, j: int| 0 <= i < j < elems@.len() ==> elems@[i].0 != elems@[j].0,
//@|     file_bytes(&out).subrange(8192, 16384) == bitmap.data@,
//@|     forall|i: int| 0 <= i < it3.index@ && elems@[i].0 >= 2 ==> #[trigger] file_bytes(&out).subrange(elems@[i].0 * 8192, elems@[i].0 * 8192 + 8192) == self.page(elems@[i].0 as int),
//@proof before 1 "write_page_raw(&out, *p, &page)?;" raw
//@| let ghost o1 = file_bytes(&out);
//@proof after 1 "write_page_raw(&out, *p, &page)?;"
//@| let o2 = file_bytes(&out); let k = it3.index@ as int;
//@| assert(o2.len() == o1.len());
//@| assert(o2.subrange(8192, 16384) =~= o1.subrange(8192, 16384));
//@| assert forall|i: int| 0 <= i < k + 1 && elems@[i].0 >= 2 implies #[trigger] o2.subrange(elems@[i].0 * 8192, elems@[i].0 * 8192 + 8192) == self.page(elems@[i].0 as int) by {
//@|     if i < k {
//@|         assert(elems@[i].0 != elems@[k].0);
//@|         assert(o2.subrange(elems@[i].0 * 8192, elems@[i].0 * 8192 + 8192) =~= o1.subrange(elems@[i].0 * 8192, elems@[i].0 * 8192 + 8192));
//@|     }
//@| }
//@proof before 1 "=Ok(VacuumCopyStats {"
//@| // C28.copy.spec: the obligation of this function (the copy is a local file: stated here, not in `ensures`)
//@| assert(copy_ok(self, file_bytes(&out), bitmap, new_next_page_id, reach(reachable)));
//@end
}

//@canary|pub proof fn canary_csr_valid(page: Seq<u8>) requires csr_valid(page), csr_total(page) == 3 ensures false {}
//@canary|pub proof fn canary_fits(m: CsrMeta, page: Seq<u8>) requires m.fits(), m.o.len() == 2, m.ie.len() == 1, page.len() == 8192, page.take(m.layout().len() as int) == m.layout() ensures false {}
//@canary|pub proof fn canary_chain(p: &Pager, s: u64) requires chain_at(p, s, 2) == 0, chain_at(p, s, 1) != 0 ensures false {}

} // verus!
fn main() {}
