#!/bin/sh
# Offline setup: nothing to download. Verifies the tools are present and warms nothing that a check
# does not rebuild itself.
set -e
cd "$(dirname "$0")"
command -v verus >/dev/null || { echo "verus not on PATH" >&2; exit 1; }
command -v cargo-kani >/dev/null || { echo "cargo-kani not on PATH" >&2; exit 1; }
command -v rsync >/dev/null || { echo "rsync missing" >&2; exit 1; }
mkdir -p evidence replay /var/tmp/nervus-verif
python3 lib/gen_manifest.py >/dev/null
echo setup ok
