"""Route K: Kani harnesses / function contracts injected (add-only, cfg(kani)) into a scratch
copy of /repo's current working tree, discharged by CBMC."""
import json, os, re, subprocess, sys, time, signal, fcntl, shutil, hashlib

VERIF = os.path.dirname(os.path.dirname(os.path.abspath(__file__)))
SCRATCH = os.environ.get('VERIF_SCRATCH', '/var/tmp/nervus-verif')


class KaniUnit:
    def __init__(self, name):
        self.name = name
        self.path = os.path.join(VERIF, 'kani', name + '.rs')
        self.text = open(self.path).read()
        self.file = None
        self.crate = None
        self.harnesses = {}      # name -> dict(label, tier, desc)
        self.injects = []        # dict(file, anchor, lines)
        self.covers = []         # functions under contract
        self.trusted = []
        self.parse()

    def parse(self):
        lines = self.text.split('\n')
        i = 0
        body = []
        while i < len(lines):
            s = lines[i].strip()
            if s.startswith('//@file '):
                self.file = s.split()[1]
            elif s.startswith('//@crate '):
                self.crate = s.split()[1]
            elif s.startswith('//@covers '):
                self.covers.append(s.split(None, 1)[1])
            elif s.startswith('//@trusted '):
                self.trusted.append(s.split(None, 1)[1])
            elif s.startswith('//@harness '):
                m = re.match(r'//@harness\s+(\w+)\s+(complete|bounded\([^)]*\))\s*(?:tier=(\w+)\s*)?"(.*)"', s)
                if not m:
                    raise ValueError('bad //@harness line in %s: %s' % (self.name, s))
                self.harnesses[m.group(1)] = dict(label=m.group(2), tier=m.group(3) or 'quick', desc=m.group(4))
            elif s.startswith('//@inject '):
                m = re.match(r'//@inject\s+(\S+)\s+before\s+"(.*)"', s)
                if not m:
                    raise ValueError('bad //@inject line: ' + s)
                inj = dict(file=m.group(1), anchor=m.group(2), lines=[])
                i += 1
                while lines[i].strip() != '//@end':
                    inj['lines'].append(lines[i].split('//@|', 1)[1])
                    i += 1
                self.injects.append(inj)
            i += 1
        if not self.file or not self.crate:
            raise ValueError('unit %s lacks //@file or //@crate' % self.name)


class Lock:
    def __init__(self, name):
        os.makedirs(SCRATCH, exist_ok=True)
        self.path = os.path.join(SCRATCH, name + '.lock')

    def __enter__(self):
        self.f = open(self.path, 'w')
        fcntl.flock(self.f, fcntl.LOCK_EX)
        return self

    def __exit__(self, *a):
        fcntl.flock(self.f, fcntl.LOCK_UN)
        self.f.close()


def sync_tree(repo_root, dest):
    """Copy /repo's *current working tree* (not HEAD) into the scratch dir."""
    os.makedirs(dest, exist_ok=True)
    subprocess.run(['rsync', '-a', '--delete', '--exclude', '/target', '--exclude', '.git', '--exclude', 'node_modules',
                    repo_root.rstrip('/') + '/', dest.rstrip('/') + '/'], check=True)


class LostAnchor(Exception):
    pass


def inject(units, tree):
    """Append harness modules and insert contract attributes. Add-only, all under cfg(kani)."""
    appended = {}
    for u in units:
        p = os.path.join(tree, u.file)
        if not os.path.exists(p):
            raise LostAnchor('%s: file %s not found' % (u.name, u.file))
        for inj in u.injects:
            ip = os.path.join(tree, inj['file'])
            if not os.path.exists(ip):
                raise LostAnchor('%s: file %s not found' % (u.name, inj['file']))
            src = open(ip).read()
            idx = src.find(inj['anchor'])
            if idx < 0 or src.find(inj['anchor'], idx + 1) >= 0:
                raise LostAnchor('%s: contract anchor %r not found exactly once in %s' % (u.name, inj['anchor'], inj['file']))
            ls = src.rfind('\n', 0, idx) + 1
            # place above any attributes/doc-comments directly preceding the fn
            indent = re.match(r'\s*', src[ls:]).group(0)
            text = ''.join(indent + l.strip() + '\n' for l in inj['lines'])
            src = src[:ls] + text + src[ls:]
            open(ip, 'w').write(src)
        with open(p, 'a') as f:
            f.write('\n// ---- injected by /verif (cfg(kani) only) ----\n')
            f.write(u.text)
            f.write('\n')


class HarnessResult:
    def __init__(self, name):
        self.name = name
        self.status = 'missing'     # success | failure | timeout | error | missing
        self.checks_total = 0
        self.checks_failed = 0
        self.unreachable = 0
        self.named = {}             # obligation id -> 'SUCCESS'|'FAILURE'|'UNREACHABLE'|'UNDETERMINED'
        self.covers = {}            # description -> SATISFIED/UNSATISFIABLE
        self.safety_failed = []     # descriptions of failed non-named checks
        self.safety_checks = 0
        self.solver_s = 0.0
        self.symex_s = 0.0
        self.duration_s = 0.0
        self.unwind_failed = False
        self.playback = None


OBL_RE = re.compile(r'^\s*"?((?:KNOWN:)?C\d\d\.[\w.:\-]+)')


def classify(hr, checks):
    for c in checks:
        desc = c.get('description', '')
        st = c.get('status', '').upper()
        cat = c.get('category', '')
        hr.checks_total += 1
        m = OBL_RE.match(desc)
        if cat == 'cover' or desc.startswith('reach:') or 'cover' in c.get('property_class', ''):
            hr.covers[desc] = st
            continue
        if m:
            oid = m.group(1)
            prev = hr.named.get(oid)
            # an obligation asserted at several sites: FAILURE dominates, then UNDETERMINED
            rank = {'FAILURE': 3, 'UNDETERMINED': 2, 'SUCCESS': 1, 'UNREACHABLE': 0}
            if prev is None or rank.get(st, 2) > rank.get(prev, 2):
                hr.named[oid] = st
            continue
        if desc.startswith('NaN on ') or desc.startswith('arithmetic overflow on floating-point'):
            # CBMC's optional IEEE checks: producing NaN/inf is defined behaviour in Rust, not a panic
            hr.ignored_float_checks = getattr(hr, 'ignored_float_checks', 0) + 1
            if st == 'FAILURE':
                hr.ignored_float_failed = getattr(hr, 'ignored_float_failed', 0) + 1
            continue
        hr.safety_checks += 1
        if st == 'FAILURE':
            hr.checks_failed += 1
            loc = c.get('location') or {}
            hr.safety_failed.append('%s @ %s:%s in %s' % (desc, loc.get('file', '?'), loc.get('line', '?'), c.get('function', '?')))
            if 'unwinding assertion' in desc:
                hr.unwind_failed = True
        elif st == 'UNREACHABLE':
            hr.unreachable += 1


def run_cargo_kani(tree, crate, harnesses, jobs, timeout, out_json, extra=None, log_path=None, harness_timeout=None):
    cmd = ['cargo', 'kani', '-p', crate, '-Z', 'function-contracts', '-Z', 'stubbing', '-Z', 'unstable-options',
           '--export-json', out_json]
    if jobs and jobs > 1 and len(harnesses) > 1:
        cmd += ['-j', str(min(jobs, len(harnesses))), '--output-format=terse']
    if harness_timeout:
        cmd += ['--harness-timeout', '%ds' % harness_timeout]
    for h in harnesses:
        cmd += ['--harness', h]
    cmd += (extra or [])
    env = dict(os.environ)
    env['CARGO_NET_OFFLINE'] = 'true'
    env['CARGO_TARGET_DIR'] = os.path.join(SCRATCH, 'target-kani')
    if os.path.exists(out_json):
        os.remove(out_json)
    t0 = time.time()
    p = subprocess.Popen(cmd, cwd=tree, env=env, stdout=subprocess.PIPE, stderr=subprocess.STDOUT, text=True,
                         start_new_session=True)
    try:
        out, _ = p.communicate(timeout=timeout)
        timed_out = False
    except subprocess.TimeoutExpired:
        try:
            os.killpg(p.pid, signal.SIGKILL)
        except ProcessLookupError:
            pass
        out, _ = p.communicate()
        timed_out = True
    if log_path:
        open(log_path, 'w').write(out)
    return ' '.join(cmd), p.returncode, out, timed_out, time.time() - t0


def parse_export(out_json, wanted):
    res = {}
    try:
        d = json.load(open(out_json))
    except Exception:
        return res, None
    stats = {}
    for c in d.get('cbmc', []):
        stats[c['harness_id'].split('::')[-1]] = c.get('cbmc_stats') or {}
    for r in d.get('verification_results', {}).get('results', []):
        name = r['harness_id'].split('::')[-1]
        hr = HarnessResult(name)
        hr.duration_s = r.get('duration_ms', 0) / 1000.0
        st = stats.get(name, {})
        hr.solver_s = float(st.get('runtime_solver_s') or 0)
        hr.symex_s = float(st.get('runtime_symex_s') or 0)
        classify(hr, r.get('checks', []))
        s = r.get('status', '')
        hr.status = 'success' if s == 'Success' else ('failure' if s == 'Failure' else s.lower())
        if hr.checks_total == 0:
            # CBMC produced no per-check results: timeout, out-of-memory or crash — never a verdict
            hr.status = 'noresult'
        res[name] = hr
    return res, d


def parse_text_fallback(out, wanted):
    """If export-json is missing (crash, timeout), recover per-harness verdicts from the text log."""
    res = {}
    for blk in re.split(r'\nChecking harness ', out)[1:]:
        name = blk.split('...')[0].strip().split('::')[-1]
        hr = HarnessResult(name)
        if 'VERIFICATION:- SUCCESSFUL' in blk:
            hr.status = 'success'
        elif 'VERIFICATION:- FAILED' in blk:
            hr.status = 'failure'
        elif 'timed out' in blk.lower() or 'TIMEOUT' in blk:
            hr.status = 'timeout'
        else:
            hr.status = 'error'
        checks = []
        for m in re.finditer(r'Check \d+: (\S+)\n\s*- Status: (\w+)\n\s*- Description: "(.*)"\n\s*- Location: (.*)', blk):
            checks.append(dict(description=m.group(3), status=m.group(2), category='cover' if '.cover.' in m.group(1) else 'assertion',
                               function=m.group(4)))
        classify(hr, checks)
        res[name] = hr
    return res


def playback(tree, crate, harness, timeout, log_path, obligation=None):
    """Ask Kani for a concrete counterexample of a failing harness (the generated unit test for the
    failed check that carries `obligation` in its description, else the first failed non-cover check)."""
    out_json = os.path.join(SCRATCH, 'playback.json')
    cmd, rc, out, to, wall = run_cargo_kani(tree, crate, [harness], 1, timeout, out_json,
                                            extra=['-Z', 'concrete-playback', '--concrete-playback=print'],
                                            log_path=log_path)
    info = dict(cmd=cmd, witness=None, test_src=None, native=None)
    tests = []
    for m in re.finditer(r'/// Test generated for harness[^\n]*\n(?:///[^\n]*\n)*?/// Check for `(\w+)`: (.*?)\n\s*\n?(#\[test\]\s*\nfn (kani_concrete_playback_\w+)\(\) \{.*?\n\})', out, re.S):
        tests.append(dict(kind=m.group(1), desc=m.group(2).strip(), src=m.group(3), name=m.group(4)))
    pick = None
    key = (obligation or '').replace('KNOWN:', '')
    for t in tests:
        if t['kind'] != 'cover' and obligation and key in t['desc']:
            pick = t
            break
    if pick is None:
        for t in tests:
            if t['kind'] != 'cover':
                pick = t
                break
    if pick is None:
        return info
    info['test_src'] = pick['src']
    info['check'] = pick['desc']
    vals = []
    for vm in re.finditer(r'//\s*(.+)\n\s*vec!\[([^\]]*)\]', pick['src']):
        vals.append(dict(value=vm.group(1).strip(), bytes=[int(x) for x in vm.group(2).replace(' ', '').split(',') if x]))
    info['witness'] = vals
    return info


def native_playback(tree, crate, unit_file, test_src, timeout, log_path):
    """Insert the generated #[test] into the injected harness module and run it with cargo kani playback."""
    p = os.path.join(tree, unit_file)
    src = open(p).read()
    tm = re.search(r'fn (kani_concrete_playback_\w+)', test_src)
    if not tm:
        return None
    tname = tm.group(1)
    # put the test inside the last injected module (before its closing brace)
    idx = src.rstrip().rfind('}')
    src2 = src[:idx] + '\n' + test_src + '\n' + src[idx:]
    open(p, 'w').write(src2)
    env = dict(os.environ)
    env['CARGO_NET_OFFLINE'] = 'true'
    env['CARGO_TARGET_DIR'] = os.path.join(SCRATCH, 'target-kani')
    cmd = ['cargo', 'kani', 'playback', '-Z', 'concrete-playback', '-p', crate, '--lib', '--', tname, '--nocapture']
    try:
        r = subprocess.run(cmd, cwd=tree, env=env, capture_output=True, text=True, timeout=timeout, start_new_session=True)
        out = r.stdout + r.stderr
        rc = r.returncode
    except subprocess.TimeoutExpired as e:
        out, rc = 'timeout', -1
    open(p, 'w').write(src)
    if log_path:
        open(log_path, 'w').write(out)
    panicked = re.search(r"panicked at [^\n]*\n([^\n]*)", out)
    failed = bool(re.search(r'test result: FAILED|panicked at', out))
    ran = bool(re.search(r'running 1 test', out))
    return dict(cmd=' '.join(cmd), rc=rc, ran=ran, reproduced=bool(ran and failed and rc != 0),
                panic=(panicked.group(0) if panicked else ''), tail=out[-1200:])
