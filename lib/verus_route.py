"""Route V: assemble a Verus unit from /repo's current text and discharge it."""
import json, os, re, subprocess, sys, time, hashlib
sys.path.insert(0, os.path.dirname(os.path.abspath(__file__)))
import extract

VERIF = os.path.dirname(os.path.dirname(os.path.abspath(__file__)))
SCRATCH = os.environ.get('VERIF_SCRATCH', '/var/tmp/nervus-verif')

# messages that mean "the solver refuted / could not prove an obligation" (a decided failure of a
# named obligation), as opposed to tool limits or unsupported constructs
PROOF_FAIL_PATTERNS = [
    'postcondition not satisfied', 'assertion failed', 'precondition not satisfied',
    'possible arithmetic underflow/overflow', 'invariant not satisfied', 'possible division by zero',
    'decreases not satisfied', 'loop invariant not preserved', 'loop invariant not satisfied',
    'index out of bounds', 'possible bit shift underflow/overflow', 'recommendation not met',
    'unreachable', 'could not prove termination', 'failed this postcondition', 'failed precondition',
    'invariant not satisfied at end of loop body', 'invariant not satisfied before loop',
    'cannot show invariant holds', 'possible missing case', 'may be out of bounds', 'value out of range',
]
RLIMIT_PATTERNS = ['Resource limit', 'rlimit', 'took more than', 'timed out']


class UnitResult:
    def __init__(self, unit):
        self.unit = unit
        self.status = 'error'        # ok | failed | undecided | error
        self.reason = ''
        self.functions = []          # repo functions under contract
        self.fn_results = {}         # verus fn name -> dict(mode, success, time_us, rlimit)
        self.errors = []             # dict(message, line, fn, text)
        self.verified = 0
        self.n_errors = 0
        self.smt_ms = 0
        self.wall_s = 0.0
        self.rule_counts = {}
        self.extraction = []
        self.trusted = []
        self.fed_path = ''
        self.cmd = ''
        self.obligations = {}        # verus fn -> obligation id (from //@obligation lines)


def scan_trusted(text):
    """Mechanical scan of the fed text for every assumption-introducing construct."""
    out = []
    lines = text.split('\n')
    notes = {}
    for i, ln in enumerate(lines):
        m = re.match(r'\s*//@trusted\s+(\w+):\s*(.*)$', ln)
        if m:
            notes[m.group(1)] = m.group(2)
    for i, ln in enumerate(lines):
        code = ln.split('//')[0]
        for kw in ('external_body', 'assume_specification', 'admit()', 'assume(', 'external_type_specification',
                   'uninterp spec fn', 'external_fn_specification', '#[verifier::external]', 'broadcast axiom', 'axiom fn'):
            if kw in code:
                # name: next fn/struct identifier within 4 lines
                name = ''
                for k in range(i, min(i + 5, len(lines))):
                    mm = re.search(r'\b(?:fn|struct|enum)\s+(\w+)', lines[k])
                    if mm:
                        name = mm.group(1)
                        break
                    mm = re.search(r'assume_specification\s*(?:<[^>]*>)?\s*\[\s*([^\]]+)\]', lines[k])
                    if mm:
                        name = mm.group(1).strip()
                        break
                note = notes.get(name, '')
                out.append('%s %s%s' % (kw.strip('#[]()'), name, (': ' + note) if note else ''))
    # dedupe, keep order
    seen, res = set(), []
    for x in out:
        if x not in seen:
            seen.add(x)
            res.append(x)
    return res


def fn_at_line(text, line):
    """Name of the fn (exec/proof/spec) enclosing 1-based `line` in the fed text."""
    lines = text.split('\n')
    for k in range(min(line, len(lines)) - 1, -1, -1):
        m = re.match(r'\s*(?:pub\s+)?(?:open\s+|closed\s+|uninterp\s+)?(?:spec\s+|proof\s+|exec\s+)?(?:const\s+)?fn\s+(\w+)', lines[k])
        if m:
            return m.group(1)
    return ''


def run_unit(unit, repo_root, rlimit=None, extra_args=None, canary=False, timeout=1800, num_threads=8):
    res = UnitResult(unit)
    t0 = time.time()
    tmpl_path = os.path.join(VERIF, 'verus', unit + '.tmpl.rs')
    tmpl = open(tmpl_path).read()
    try:
        text, ex = extract.assemble(tmpl, repo_root)
    except extract.LostAnchor as e:
        res.status, res.reason = 'undecided', 'lost anchor: %s' % e
        return res
    except (extract.Unsupported, extract.LexError) as e:
        res.status, res.reason = 'undecided', 'unsupported construct: %s' % e
        return res
    for m in re.finditer(r'//@obligation\s+(\S+)\s+(\S+)', tmpl):
        res.obligations[m.group(2)] = m.group(1)
    if canary:
        text = add_canaries(text)
    outdir = os.path.join(SCRATCH, 'verus')
    os.makedirs(outdir, exist_ok=True)
    fed = os.path.join(outdir, unit + ('_canary' if canary else '') + '.rs')
    open(fed, 'w').write(text)
    res.fed_path = fed
    res.functions = ex.functions
    res.rule_counts = ex.rule_counts
    res.extraction = ex.report
    res.trusted = scan_trusted(text)
    cmd = ['verus', fed, '--output-json', '--time', '--error-format=json', '--multiple-errors', '5',
           '--num-threads', str(num_threads)]
    mrl = re.search(r'^//@rlimit\s+(\d+)', tmpl, re.M)
    if rlimit is None and mrl:
        rlimit = int(mrl.group(1))
    if rlimit:
        cmd += ['--rlimit', str(rlimit)]
    cmd += (extra_args or [])
    res.cmd = ' '.join(cmd)
    env = dict(os.environ)
    try:
        p = subprocess.run(cmd, capture_output=True, text=True, timeout=timeout, cwd=outdir, env=env)
    except subprocess.TimeoutExpired:
        res.status, res.reason = 'undecided', 'verus timed out after %ds' % timeout
        res.wall_s = time.time() - t0
        return res
    res.wall_s = time.time() - t0
    res.raw_stderr = p.stderr
    # stdout = json
    try:
        j = json.loads(p.stdout)
    except Exception:
        j = None
    diags = []
    for ln in p.stderr.split('\n'):
        ln = ln.strip()
        if ln.startswith('{'):
            try:
                diags.append(json.loads(ln))
            except Exception:
                pass
    errors = [d for d in diags if d.get('level') == 'error' and d.get('spans')]
    notes = [d for d in diags if d.get('level') in ('note', 'warning')]
    if j is None or 'verification-results' not in j:
        res.status = 'undecided'
        msgs = [d.get('message', '') for d in diags if d.get('level') == 'error'][:5]
        res.reason = 'verus produced no verification result (rustc/VIR error: %s)' % ('; '.join(msgs) or p.stderr[-400:])
        return res
    vr = j['verification-results']
    res.verified = vr.get('verified', 0)
    res.n_errors = vr.get('errors', 0)
    try:
        for mod in j['times-ms']['smt']['smt-run-module-times']:
            for f in mod.get('function-breakdown', []):
                name = f['function'].split('::')[-1]
                key = f['function']
                res.fn_results[key] = dict(mode=f.get('mode:', f.get('mode', '')), success=f['success'],
                                           time_us=f.get('time-micros', 0), rlimit=f.get('rlimit', 0), short=name)
        res.smt_ms = j['times-ms']['smt']['total']
    except Exception:
        pass
    if vr.get('encountered-vir-error'):
        res.status = 'undecided'
        msgs = [d.get('message', '') for d in diags if d.get('level') == 'error'][:5]
        res.reason = 'VIR error (unsupported construct?): ' + '; '.join(msgs)
        return res
    for d in errors:
        msg = d.get('message', '')
        sp = [s for s in d['spans'] if s.get('is_primary')] or d['spans']
        line = sp[0]['line_start']
        src_text = (sp[0].get('text') or [{}])[0].get('text', '').strip()
        labels = [(s.get('label') or '') + ' @' + str(s['line_start']) + ': ' + ((s.get('text') or [{}])[0].get('text', '').strip())
                  for s in d['spans']]
        res.errors.append(dict(message=msg, line=line, fn=fn_at_line(text, line), text=src_text, spans=labels,
                               rendered=d.get('rendered', '')))
    rlimit_hit = any(any(pat in (d.get('message') or '') for pat in RLIMIT_PATTERNS) for d in diags if d.get('level') in ('error', 'warning', 'note'))
    if vr.get('success') and res.n_errors == 0:
        res.status = 'ok'
    else:
        unknown = [e for e in res.errors if not any(pt in e['message'] for pt in PROOF_FAIL_PATTERNS)
                   and 'aborting due to' not in e['message']]
        only_rlimit = [e for e in res.errors if any(pt in e['message'] for pt in RLIMIT_PATTERNS)]
        if only_rlimit and len(only_rlimit) == len([e for e in res.errors if 'aborting' not in e['message']]):
            res.status, res.reason = 'undecided', 'rlimit exceeded in ' + ', '.join(sorted(set(e['fn'] for e in only_rlimit)))
        elif unknown and not [e for e in res.errors if any(pt in e['message'] for pt in PROOF_FAIL_PATTERNS)]:
            res.status, res.reason = 'undecided', 'unclassified verus error: ' + unknown[0]['message']
        else:
            res.status = 'failed'
    return res


def add_canaries(text):
    """Vacuity guard: for each exec fn with a `requires`, nothing to add textually here — canaries are
    written in the template under `#[cfg(canary)]`-style markers `//@canary` which we uncomment."""
    return re.sub(r'^\s*//@canary\|', '', text, flags=re.M)


if __name__ == '__main__':
    unit = sys.argv[1]
    _pos = [a for a in sys.argv[2:] if not a.startswith('--')]
    repo = _pos[0] if _pos else '/repo'
    r = run_unit(unit, repo, canary='--canary' in sys.argv)
    print('status', r.status, r.reason)
    print('verified', r.verified, 'errors', r.n_errors, 'wall %.1fs smt %dms' % (r.wall_s, r.smt_ms))
    for e in r.errors:
        print('  ERR [%s] line %d: %s | %s' % (e['fn'], e['line'], e['message'], e['text']))
        for s in e['spans'][1:]:
            print('       ', s)
    if r.status != 'ok' and not r.errors:
        import json as _j
        for ln in getattr(r, 'raw_stderr', '').split('\n'):
            if ln.startswith('{'):
                try:
                    d = _j.loads(ln)
                    if d.get('level') == 'error': print(d.get('rendered', '')[:1500])
                except Exception: pass
    print('rules', r.rule_counts)
    print('fed', r.fed_path)
