"""Minimal lexeme-aware helpers for Rust source text.

Not a parser: it knows comments, string/char/raw-string literals, lifetimes and
bracket nesting, which is what is needed to cut items and function bodies out of
/repo's files without ever pattern-matching inside a literal or a comment.
"""
import re


class LexError(Exception):
    pass


def mask(src):
    """Return a string of the same length as `src` in which the *contents* of
    comments, string literals and char literals are replaced by spaces (newlines
    kept).  Structural characters therefore only appear where they are code."""
    out = list(src)
    i, n = 0, len(src)

    def blank(a, b):
        for k in range(a, b):
            if out[k] != '\n':
                out[k] = ' '

    while i < n:
        c = src[i]
        if c == '/' and i + 1 < n and src[i + 1] == '/':
            j = src.find('\n', i)
            if j < 0:
                j = n
            blank(i, j)
            i = j
        elif c == '/' and i + 1 < n and src[i + 1] == '*':
            depth, j = 1, i + 2
            while j < n and depth:
                if src.startswith('/*', j):
                    depth += 1
                    j += 2
                elif src.startswith('*/', j):
                    depth -= 1
                    j += 2
                else:
                    j += 1
            blank(i, j)
            i = j
        elif c == '"' or (c == 'b' and src.startswith('b"', i) and not _ident_before(src, i)):
            s = i if c == '"' else i + 1
            j = s + 1
            while j < n and src[j] != '"':
                j += 2 if src[j] == '\\' else 1
            blank(s + 1, j)
            i = j + 1
        elif c == 'r' and not _ident_before(src, i) and re.match(r'r#*"', src[i:i + 12]):
            m = re.match(r'r(#*)"', src[i:])
            hashes = m.group(1)
            end = src.find('"' + hashes, i + len(m.group(0)))
            if end < 0:
                raise LexError('unterminated raw string')
            blank(i + len(m.group(0)), end)
            i = end + 1 + len(hashes)
        elif c == "'":
            # char literal or lifetime
            m = re.match(r"'(\\.[^']*|[^'\\])'", src[i:i + 12])
            if m:
                blank(i + 1, i + len(m.group(0)) - 1)
                i += len(m.group(0))
            else:
                i += 1
        else:
            i += 1
    return ''.join(out)


def _ident_before(src, i):
    return i > 0 and (src[i - 1].isalnum() or src[i - 1] == '_')


OPEN = {'{': '}', '(': ')', '[': ']'}
CLOSE = {v: k for k, v in OPEN.items()}


def match_close(m, i):
    """m: masked text, m[i] is an opening bracket; return index of its partner."""
    depth = 0
    o = m[i]
    c = OPEN[o]
    for j in range(i, len(m)):
        ch = m[j]
        if ch == o:
            depth += 1
        elif ch == c:
            depth -= 1
            if depth == 0:
                return j
    raise LexError('unbalanced %r at %d' % (o, i))


def find_block_start(m, i, stop=';'):
    """First '{' at paren/bracket depth 0 at or after i; None if `stop` first."""
    depth = 0
    j = i
    while j < len(m):
        ch = m[j]
        if ch in '([':
            depth += 1
        elif ch in ')]':
            depth -= 1
        elif ch == '{' and depth == 0:
            return j
        elif stop and ch == stop and depth == 0:
            return None
        j += 1
    return None


def find_impl_block(src, m, type_name, trait=None):
    """Yield (body_open, body_close) for each `impl [Trait for] Type {` block."""
    if trait:
        pat = r'\bimpl(?:\s*<[^>{]*>)?\s+(?:[\w:]*::)?%s(?:\s*<[^{]*?>)?\s+for\s+%s\b[^{;]*\{' % (
            re.escape(trait), re.escape(type_name))
    else:
        pat = r'\bimpl(?:\s*<[^>{]*>)?\s+%s\b(?:\s*<[^{]*?>)?\s*(?:where[^{]*)?\{' % re.escape(type_name)
    for mt in re.finditer(pat, m):
        o = mt.end() - 1
        yield o, match_close(m, o)


def find_fn(src, m, name, lo=0, hi=None):
    """Locate `fn name` in m[lo:hi] at *any* depth but prefer the shallowest.
    Returns dict(start, sig_start, name_end, body_open, body_close)."""
    hi = len(m) if hi is None else hi
    best = None
    for mt in re.finditer(r'\bfn\s+%s\b' % re.escape(name), m[lo:hi]):
        s = lo + mt.start()
        # depth of this occurrence relative to lo
        depth = m.count('{', lo, s) - m.count('}', lo, s)
        if best is None or depth < best[0]:
            best = (depth, s, lo + mt.end())
    if best is None:
        return None
    _, s, name_end = best
    # extend start backwards over qualifiers: pub, pub(crate), const, unsafe, async
    line_start = m.rfind('\n', 0, s) + 1
    prefix = m[line_start:s]
    if re.fullmatch(r'\s*((pub(\s*\([^)]*\))?|const|unsafe|async|extern\s*"[^"]*")\s+)*', prefix):
        start = line_start + (len(prefix) - len(prefix.lstrip()))
    else:
        start = s
    bo = find_block_start(m, name_end)
    if bo is None:
        return None
    bc = match_close(m, bo)
    return dict(start=start, fn_kw=s, name_end=name_end, body_open=bo, body_close=bc)


def find_item(src, m, kind, name):
    """Locate `struct|enum|const|type|static name` at depth 0. Returns (start, end)."""
    for mt in re.finditer(r'\b%s\s+%s\b' % (kind, re.escape(name)), m):
        s = mt.start()
        if m.count('{', 0, s) - m.count('}', 0, s) != 0:
            continue
        line_start = m.rfind('\n', 0, s) + 1
        prefix = m[line_start:s]
        if re.fullmatch(r'\s*(pub(\s*\([^)]*\))?\s+)?', prefix):
            start = line_start + (len(prefix) - len(prefix.lstrip()))
        else:
            start = s
        if kind in ('const', 'type', 'static'):
            depth, e = 0, mt.end()
            while e < len(m):
                ch = m[e]
                if ch in '([{':
                    depth += 1
                elif ch in ')]}':
                    depth -= 1
                elif ch == ';' and depth == 0:
                    break
                e += 1
            return start, e + 1
        # struct / enum: either `{..}` or `(..);` or `;`
        j = mt.end()
        while j < len(m) and m[j] not in '{(;':
            j += 1
        if m[j] == '{':
            return start, match_close(m, j) + 1
        if m[j] == '(':
            e = match_close(m, j)
            e = m.find(';', e)
            return start, e + 1
        return start, j + 1
    return None


def leading_attrs_start(src, m, start):
    """Walk backwards from an item start over attribute lines and doc comments;
    return the index where they begin (so callers can drop them)."""
    pos = start
    while True:
        prev_nl = src.rfind('\n', 0, pos - 1)
        line = src[prev_nl + 1:pos - 0]
        # the line immediately above
        above_end = src.rfind('\n', 0, pos)
        if above_end < 0:
            return pos
        above_start = src.rfind('\n', 0, above_end) + 1
        text = src[above_start:above_end].strip()
        if text.startswith('#[') or text.startswith('///') or text.startswith('//!'):
            pos = above_start
            continue
        return pos


def loops_in(m, lo, hi):
    """Indices (keyword_start, body_open) of loops in m[lo:hi] in source order.
    `for` inside `impl ... for` never occurs inside a fn body, so any `for`
    keyword here is a loop (higher-ranked `for<'a>` is excluded)."""
    out = []
    for mt in re.finditer(r'\b(while|for|loop)\b', m[lo:hi]):
        s = lo + mt.start()
        kw = mt.group(1)
        after = m[lo + mt.end():lo + mt.end() + 1]
        if kw == 'for' and after == '<':
            continue
        bo = find_block_start(m, lo + mt.end(), stop=';')
        if bo is None or bo >= hi:
            continue
        out.append((s, bo, kw))
    return out
