"""Per-property configuration: which units decide which property.

kani:   list of unit names in /verif/kani (harness tiers are declared in the unit files)
verus:  list of unit names in /verif/verus
pairs:  verus fn name -> list of Kani harness names to try for a concrete witness when the Verus
        obligation fails (Verus itself gives no counterexample)
"""
PROPS = {
    'C26': dict(
        title='The on-disk B-tree behaves as a sorted multimap',
        kani=['c26_varint'],
        verus=['c26_page'],
        pairs={},
        native={'leaf_insert_at': ['c26_multimap_quick'], 'delete_from_leaf': ['c26_multimap_quick'], 'leaf_lower_bound': ['c26_multimap_quick'],
                'internal_child_for_key': ['c26_multimap_quick'], 'leaf_cell_key_and_payload': ['c26_multimap_quick']},
        native_thorough=['c26_multimap_thorough'],
        native_all=['c26_multimap_quick'],
        level_text='Proof, single-page scope, for any cell count, key length and page content satisfying the page invariant: Verus proves from the real bodies of the slotted index page (byte helpers, varint_u32_len, write_varint_u32, Page::{new, kind, init_leaf, cell_count, cell_content_begin, slots_off, slot_get, slot_set, free_space, set_cell_content_begin, set_cell_count, set_right_sibling, right_sibling, leftmost_child, shift_slots_right, shift_slots_left, leaf_cell_key_and_payload, internal_cell_key_and_right_child, leaf_lower_bound, internal_child_for_key, leaf_insert_at, internal_insert_at, delete_from_leaf}, and BTree::delete over an abstract page store) that a leaf read through the accessors is the abstract sequence of (key, payload) entries; that leaf_lower_bound returns the first position whose key is >= the target and internal_child_for_key the child in front of the first separator >= the target (so a run of equal keys is entered where it starts); that leaf_insert_at inserts exactly the given entry at the given position of the whole abstract sequence, keeps the page invariant, succeeds exactly when the cell and its slot fit, and otherwise leaves the page bytes unchanged; that delete_from_leaf removes exactly the entry at the given position; that internal_insert_at inserts exactly the given separator and child; that BTree::delete, on any page store whose index pages satisfy the page invariant (and whose leaf sibling links point at leaves), changes nothing when it returns false, and when it returns true changed exactly one leaf page by removing exactly one entry equal to the given (key, payload), touching at most one page even on error; and, as lemmas over those contracts, that inserting at the lower-bound position keeps keys in order with the new entry in front of all equal keys (a lookup returns the most recently inserted payload) and that removal keeps order. Kani proves on the compiled crate that the varint reader inverts the writer for every u32, never reads past five bytes and depends only on the bytes it consumed.',
        level_note="Not decided: the rest of what spans pages - leaf and internal splits, separator choice, insert_into_parent, build_from_sorted_entries, BTreeCursor, rebuild_leaf/rebuild_internal (iterator adapters), and that BTree::delete FINDS every stored pair (needs the cross-page ordering invariant; termination of its walks is not proved either); these are inline with pager I/O in BTree::{insert, delete, cursor_lower_bound} and are outside both verifiers' reach (measured). They are exercised only by the native witness generator c26_multimap_* (random insert/delete/lookup sequences over small key alphabets against a reference multimap: 3 seeds x 400 steps quick, 40 x 1500 thorough), which is a bounded search, not a proof, and is run when a unit is undecided or an obligation fails. The page invariant (leaf_wf / internal_wf, keys in order) is a precondition: nothing is claimed about corrupt pages. Trusted: std slice comparison is lexicographic (v_bytes_lt/le), copy_within/copy_from_slice/fill/sub-slice wrappers, read_varint_u32 characterised by three axioms (each discharged by a Kani harness), to/from_le_bytes.",
        technique='contract-based deductive verification (Verus: slotted-page operations proved against an abstract sequence view with whole-view postconditions; Kani: varint codec, full u32 domain)', design_ref='DESIGN.md §4 C26',
    ),
    'C27': dict(
        title='Index key encoding preserves order and equality',
        kani=['c27_okey'],
        verus=['c27_okey'],
        pairs={'encode_ordered_value': ['c27_str_pair_b2', 'c27_blob_pair_b2']},
        level_text='Proof, no bound: Verus proves the real encode_ordered_value/encode_index_key bodies equal a key-format spec for every value (strings/blobs of any length) and proves order preservation, injectivity and prefix-freedom of that format by induction; Kani proves the bit-level laws for all i64 pairs, all non-NaN f64 pairs, bools, and cross-kind on the compiled crate.',
        level_note='Trusted: std to_be_bytes/to_bits/String::as_bytes/len wrappers (listed in evidence trusted_base), 64-bit usize, std slice comparison is lexicographic. List/Map keys are outside the property quantifier. Bounded witness harnesses (len<=2) are labelled bounded and not counted.',
        technique='contract-based deductive verification (Verus postconditions + induction lemmas on mechanically extracted code; Kani full-domain harnesses on the real crate)',
        design_ref='DESIGN.md §4 C27',
    ),
    'C25': dict(
        title='Value and log encodings round-trip safely',
        kani=['c25_value'],
        verus=['c25_value', 'c25_wal'],
        pairs={},
        level_text='Proof, no bound on length or nesting: Verus proves the real PropertyValue::{encode,decode,decode_recursive} and WalRecord::{record_type,encode_body,decode_body} bodies against a written storage-format spec and a spec-level reference decoder (exec decoder refines it), proves the spec-level round trip by induction, proves absence of panics/overflow/out-of-bounds for every input byte string, and proves every pre-allocation is bounded by the input length; Kani proves bit-exact scalar round trips (all i64, all f64 bit patterns incl. NaN payloads and signed zeros) on the compiled crate.',
        level_note='Maps: the reference decoder recognises map encodings (count, then u32 key length + UTF-8 key + value per entry) and the real decoder is proved to accept every such byte string, to consume exactly its length and never to panic on any input; what is NOT decided is the content of the decoded map and the Map arm of the encoder (BTreeMap iteration order and key comparison on String are outside the spec), native stack depth of the recursive decoder on deeply nested lists (not a verifier notion; seen, recorded in DESIGN.md). Trusted: std to/from_le_bytes, String::from_utf8/as_bytes, slice to_vec/try_into wrappers, 64-bit usize, slice length <= isize::MAX; unit c25_wal uses the contracts of PropertyValue::encode/decode proved in unit c25_value. Kani cannot ingest any decoder that reads its tag back from a heap buffer (measured), so no counterexample route exists for the Verus obligations: violations there end with no-failing-input-found.',
        technique='contract-based deductive verification (Verus: exec code refines a spec decoder, format lemmas by induction, allocation-budget preconditions; Kani full-domain scalar harness)',
        design_ref='DESIGN.md §4 C25',
    ),
    'C17': dict(
        title='Any log tail is tolerated on open',
        kani=[],
        verus=['c17_wal'],
        pairs={},
        native={'next_record': ['c17_tail_big_len', 'c17_tail_zero_fill', 'c17_tail_garbage', 'c17_commit_after_tail_shapes', 'c17_truncate_every_byte'],
                'try_read_u32': ['c17_tail_garbage', 'c17_commit_after_tail_shapes', 'c17_truncate_every_byte'],
                'append': ['c17_commit_after_tail', 'c17_commit_after_tail_shapes', 'c17_truncate_every_byte'],
                'replay_committed_from_path': ['c17_aborted_then_commit', 'c17_truncate_every_byte', 'c17_tail_garbage', 'c17_commit_after_tail_shapes']},
        native_thorough=['c17_commit_after_tail_shapes', 'c17_aborted_then_commit', 'c17_truncate_every_byte'],
        native_all=['c17_tail_big_len', 'c17_tail_zero_fill', 'c17_tail_garbage', 'c17_commit_after_tail_shapes', 'c17_aborted_then_commit', 'c17_truncate_every_byte'],
        level_text='Proof for every log length and every tail, over a trusted file model: Verus proves the real WalReader::{try_read_u32,next_record} return a record exactly when a complete (length-limited, checksummed, decodable) frame starts at the read position and otherwise end the log without error; proves Wal::replay_committed_from_path returns exactly the committed-transaction fold of the records of the valid run; proves Wal::append places the new record right after the last complete record whatever tail the file had (so it is the next record every later reader sees) and never damages earlier records even when it fails; and proves the log-level lemmas: any bytes that do not start a complete frame after a run of frames leave the records unchanged, pure truncation inside a frame drops exactly that frame, committed transactions of a prefix are a prefix of the committed transactions.',
        level_note='Trusted: file model (File = bytes + position; read_exact/write_all/set_len/seek/metadata as specified in _file_model.rs/_file_ops.rs; fsync, rename and directory durability are not modelled), crc32 as an uninterpreted function, decode_body as a deterministic function whose agreement with the format is proved in unit c25_wal, single writer per file (C10 assumed). Not decided: GraphEngine::open/commit orchestration (how replayed transactions are applied to the page store), Wal::rewrite_as_snapshot. Verus gives no counterexample and Kani cannot ingest file I/O: on a failed obligation the driver runs native witness classes (replay-runner: every truncation point, zero fill, oversized length, garbage, commit-after-tail) against the tree under test and attaches the first that reproduces.',
        technique='contract-based deductive verification (Verus contracts on extracted WAL reader/appender/replay over a file model + inductive log lemmas)',
        design_ref='DESIGN.md §4 C17',
    ),
    'C18': dict(
        title='Growing one structure never corrupts another',
        kani=['c18_pager', 'c18_idmap', 'c18_blob'],
        verus=['c18_pager'],
        pairs={},
        native={'apply_create_node_multi_label': ['c18_node_table_spill'], 'write_i2e_record': ['c18_node_table_spill'],
                'make_room_for_next_record': ['c18_node_table_spill'], 'write_direct': ['c18_ownership_mix_quick'],
                'allocate_page': ['c18_ownership_mix_quick'], 'free_page': ['c18_ownership_mix_quick'], 'write_blob_pages': ['c18_ownership_mix_quick']},
        native_thorough=['c18_node_table_spill', 'c18_ownership_mix_thorough'],
        native_all=['c18_node_table_spill', 'c18_ownership_mix_quick'],
        level_text='Proof of a frame condition, for every page id, every bitmap state and every node id, over a trusted positional-file model: Verus proves from the real bodies that the allocator (Bitmap::{get_bit,set_bit}, Pager::{allocate_page, allocate_run, ensure_allocated, free_page, write_page, read_page, flush_meta_and_bitmap, set_*}) keeps its representation invariant, hands out only pages that were free, frees exactly the page asked for, and changes no byte of any other allocated data page; and that the structures checked against those contracts (write_blob_pages of the segment store, BlobStore::write_direct (property values, statistics, HNSW payloads), BTree::create, IndexCatalog::{open_or_create, get_or_create, flush}, the node table: i2e_location, write_i2e_record, IdMap::make_room_for_next_record incl. the relocation loops, IdMap::apply_create_node_multi_label) change no byte of any page that was allocated before the call and is not their own (frame_ok). Kani proves the bit-level laws of the bitmap, the meta-page round trip and node-table addressing (all u64 ids, no overlap) on the compiled crate.',
        level_note="Not decided: the write loops of B-tree splits (BTree::insert / insert_into_parent / build_from_sorted_entries), IndexCatalog::update_root, BlobStore::delete, HNSW stores, statistics and compaction orchestration: they obey the discipline only in so far as every page they obtain comes from Pager::allocate_page, whose contract is proved. Bitmap::find_free_in_range is `(start..end).find(closure)`, which Verus cannot ingest: its contract is assumed in the Verus unit on the strength of std's Iterator::find semantics and is checked by Kani on the compiled code only for windows of <= 8 (quick) / <= 16 (thorough) ids near id 0 (labelled bounded, not counted). Trusted: positional file model (pread/pwrite loops of pager.rs as v_read_exact_at / v_write_all_at; set_len extends with zeros; fsync not modelled), `&File` writes modelled as `&mut File` (interior mutability of the OS file), 64-bit usize, IdMap invariant `no start page => no records` (established by load on a consistent meta page, preserved by the proved function). Verus gives no counterexample; on a failed obligation, or when the unit can no longer be assembled from the tree, the driver runs the native scenarios c18_node_table_spill and c18_ownership_mix_quick (random interleavings of blob writes/deletes, B-tree inserts and node creations through the Pager/IdMap/BlobStore/BTree public API, each structure read back after every step) against the tree under test. BlobStore::write_direct iterates `chunks(..).collect()` reversed through one trusted wrapper (v_chunks_rev); its Kani chain-structure harness covers blobs of at most one page only (larger ones crash CBMC, measured).",
        technique='contract-based deductive verification (Verus frame contracts on mechanically extracted allocator and client code over an abstract page-store view; Kani full-domain harnesses for bit-level and addressing laws)', design_ref='DESIGN.md §4 C18',
    ),
    'C28': dict(
        title='Vacuum preserves the database',
        kani=[],
        verus=['c28_vacuum', 'c28_roots'],
        pairs={},
        native={'mark_csr_segment_pages': ['c28_vacuum_after_compact'], 'encode_meta': ['c28_vacuum_after_compact'],
                'mark_reachable_pages': ['c28_vacuum_after_compact'], 'mark_blob_chain': ['c28_vacuum_after_compact'],
                'read_direct': ['c28_vacuum_after_compact'], 'write_vacuum_copy': ['c28_vacuum_after_compact']},
        native_thorough=['c28_vacuum_after_compact'],
        native_all=['c28_vacuum_after_compact'],
        level_text='Proof, reachability scope, for every list length and every chain length, over the page-store view of unit c18_pager: Verus proves from the real bodies that csr::encode_meta writes exactly the segment-meta format spec (magic, ids, lengths, four page counts at 64..80, four page lists from 80), that vacuum::mark_csr_segment_pages on any page holding that format marks every non-zero page id of all four lists and fails only on I/O or an invalid layout, and - as a lemma over the two contracts - that the marker covers everything the writer recorded; that vacuum::mark_blob_chain marks every page of a blob chain up to its terminator and BlobStore::read_direct returns a function of exactly those pages, with a lemma that a copy agreeing on those pages yields the same chain and bytes; that Pager::write_vacuum_copy produces a page store of exactly next_page_id pages whose bitmap marks the two header pages and exactly the reachable data pages, whose next_page_id lies above every reachable page and in which every reachable data page holds the bytes it held in the source (copy_ok); that vacuum::scan_wal_roots and engine::scan_recovery_state both equal one spec fold over the committed operations (unit c28_roots), so vacuum keeps the pages of exactly the manifest and roots that open loads; and that vacuum::mark_reachable_pages keeps the two header pages, every page of the node table (page of record id for all id < len), the catalog page, the statistics chain and, for every segment of the manifest, its meta page and all four page lists.',
        level_note='Not decided: B-tree page marking (BTree::mark_reachable_pages over index, HNSW and property trees - stands in mark_reachable_pages as two stubs that only say the set never shrinks), the meta page image written by the copy (Meta::encode_page is a stub here; its round trip is Kani harness c18_meta_roundtrip), the rename dance of vacuum_in_place and post-vacuum usability; those are exercised only by the native scenario c28_vacuum_after_compact, which is a witness generator, not a proof. Termination of the two chain walks is not proved (cycles are detected at run time by the marker, not by the reader). Trusted: Pager::read_page contract (proved in unit c18_pager), iterating a BTreeSet visits exactly its elements (v_set_elems: this vstd has no comparison model for a user key type), std::io::Cursor<&mut [u8]>::write_all as a sequential writer, BTreeSet insert, u64::div_ceil, page lists shorter than 2^28 entries (keeps `needed` from overflowing). A `continue` in the segment loop is rewritten mechanically into a guarded block (Verus for-loops do not support continue).',
        technique='contract-based deductive verification (Verus: writer and marker proved against one shared format spec + agreement lemmas; chain walks against one chain spec)', design_ref='DESIGN.md §4 C28',
    ),
    'C20': dict(
        title='ORDER BY sorts and SKIP/LIMIT slice it',
        kani=['c20_order'],
        verus=[],
        pairs={},
        level_text="Proof that the ORDER BY comparator is a total preorder on scalar values, complete over all 64-bit payloads: Kani proves on the compiled nervusdb-query crate that order_compare / order_compare_non_null is antisymmetric-total (cmp(a,b) == reverse(cmp(b,a)), reflexive) for every pair of kinds among Null, Bool, Int, Float (incl. NaN, +-0, +-inf), DateTime, NodeId, ExternalId, EdgeKey; transitive, with consistent equivalence classes, for every Int/Float kind triple (eight harnesses) and inside every non-numeric rank class; and that values of different rank classes are ordered by rank alone. std's stable sort_by and Iterator::skip/take then yield a sorted permutation and positions s..s+l (their documented contract, whose proviso - a total preorder - is what is proved).",
        level_note='Not decided: strings (compare_strings_with_temporal parses both sides with chrono, which CBMC cannot ingest; date-like versus plain strings are a known weak spot of the design and are not checked), lists and maps as sort keys, the per-key direction handling and row plumbing of execute_order_by / execute_skip / execute_limit (boxed iterator chains; trusted to pass the comparator to sort_by and to call skip/take). Trusted: std sort_by / skip / take. Kani: termination not proved; enum tags are enumerated concretely, payloads are symbolic.',
        technique='contract-based deductive verification (Kani harnesses on the real comparator functions, full 64-bit domain per kind tuple; total-preorder laws as the contract std::sort_by requires)', design_ref='DESIGN.md §4 C20',
    ),
    'C23': dict(
        title='Expression evaluation obeys Cypher laws',
        kani=['c23_equality', 'c23_compare', 'c23_numeric', 'c23_arith'],
        verus=[],
        pairs={},
        level_text='Proof of the comparison, equality and arithmetic laws on the functions the operator arms dispatch to, complete over all 64-bit payloads: Kani proves on the compiled crate that cypher_equals and compare_values (with the four closures the <, <=, >, >= arms pass) return only true/false/null, return null exactly when an operand is null (scalars), that = is reflexive off NaN, symmetric and transitive across Int/Float in every kind triple, that a<b <=> b>a, a<=b <=> a<b or a=b, a>=b <=> a>b or a=b, exclusivity and trichotomy off NaN, all-false on NaN, agreement of < with the ORDER BY comparator, exactness of compare_i64_f64 on integers and half-integers; that numeric_binop (+ - *), numeric_div and numeric_mod return the exact Int when it is representable and otherwise follow the one rule (Float of the operation; i64::MIN / -1 is Float; zero divisor is null), for every pair of i64; that Null operands give Null and Int/Float mixes give Float for + - * / %; and that add/subtract/multiply/divide_values hand exactly their operands to that kernel.',
        level_note='Not decided: the AND/OR/XOR/NOT truth tables, De Morgan and unary minus - those arms are inline in the 500-line generic evaluate_expression_value, which neither verifier can ingest (measured: no CBMC result in 20 min on two-level templates); a change confined to those arms is not noticed. Strings, lists and maps in comparisons are bounded (thorough tier, len <= 2) or not covered; numeric_pow is covered for kinds only. Value of Int/Int and Int%Int is checked against truncated division for |operands| < 2^15 (labelled bounded) and for result kind on the full domain. Kani: termination not proved.',
        technique='contract-based deductive verification (Kani harnesses and one stub-based delegation contract on the real evaluator helper functions, full 64-bit domain per function x kind tuple)', design_ref='DESIGN.md §4 C23',
    ),
}

# claimed in DESIGN.md but whose check is not built yet: listed under not_applicable until it is
PENDING = {
}
