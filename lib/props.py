"""Per-property configuration: which units decide which property.

kani:   list of unit names in /verif/kani (harness tiers are declared in the unit files)
verus:  list of unit names in /verif/verus
pairs:  verus fn name -> list of Kani harness names to try for a concrete witness when the Verus
        obligation fails (Verus itself gives no counterexample)
"""
PROPS = {
    'C27': dict(
        title='Index key encoding preserves order and equality',
        kani=['c27_okey'],
        verus=['c27_okey'],
        pairs={'encode_ordered_value': ['c27_str_pair_b2', 'c27_blob_pair_b2']},
        level_text='Proof, no bound: Verus proves the real encode_ordered_value/encode_index_key bodies equal a key-format spec for every value (strings/blobs of any length) and proves order preservation, injectivity and prefix-freedom of that format by induction; Kani proves the bit-level laws for all i64 pairs, all non-NaN f64 pairs, bools, and cross-kind on the compiled crate.',
        level_note='Trusted: std to_be_bytes/to_bits/String::as_bytes/len wrappers (listed in evidence trusted_base), 64-bit usize, std slice comparison is lexicographic. List/Map keys are outside the property quantifier. Bounded witness harnesses (len<=2) are labelled bounded and not counted.',
        technique='contract-based deductive verification (Verus postconditions + induction lemmas on mechanically extracted code; Kani full-domain harnesses on the real crate)',
        design_ref='DESIGN.md §4 C27',
    ),
    'C25': dict(
        title='Value and log encodings round-trip safely',
        kani=['c25_value'],
        verus=['c25_value', 'c25_wal'],
        pairs={},
        level_text='Proof, no bound on length or nesting: Verus proves the real PropertyValue::{encode,decode,decode_recursive} and WalRecord::{record_type,encode_body,decode_body} bodies against a written storage-format spec and a spec-level reference decoder (exec decoder refines it), proves the spec-level round trip by induction, proves absence of panics/overflow/out-of-bounds for every input byte string, and proves every pre-allocation is bounded by the input length; Kani proves bit-exact scalar round trips (all i64, all f64 bit patterns incl. NaN payloads and signed zeros) on the compiled crate.',
        level_note='Not decided: round trip of Map-valued properties (BTreeMap iteration order is outside the spec; the Map decode arm is still proved panic-free), native stack depth of the recursive decoder on deeply nested lists (not a verifier notion; seen, recorded in DESIGN.md). Trusted: std to/from_le_bytes, String::from_utf8/as_bytes, slice to_vec/try_into wrappers, 64-bit usize, slice length <= isize::MAX; unit c25_wal uses the contracts of PropertyValue::encode/decode proved in unit c25_value. Kani cannot ingest any decoder that reads its tag back from a heap buffer (measured), so no counterexample route exists for the Verus obligations: violations there end with no-failing-input-found.',
        technique='contract-based deductive verification (Verus: exec code refines a spec decoder, format lemmas by induction, allocation-budget preconditions; Kani full-domain scalar harness)',
        design_ref='DESIGN.md §4 C25',
    ),
}

# claimed in DESIGN.md but whose check is not built yet: listed under not_applicable until it is
PENDING = {
    'C17': 'check under construction (claimed in DESIGN.md §4; will move to checks when its units are committed)',
    'C18': 'check under construction (claimed in DESIGN.md §4; will move to checks when its units are committed)',
    'C20': 'check under construction (claimed in DESIGN.md §4; will move to checks when its units are committed)',
    'C23': 'check under construction (claimed in DESIGN.md §4; will move to checks when its units are committed)',
    'C26': 'check under construction (claimed in DESIGN.md §4; will move to checks when its units are committed)',
    'C28': 'check under construction (claimed in DESIGN.md §4; will move to checks when its units are committed)',
}
