"""Per-property configuration: which units decide which property.

kani:   list of unit names in /verif/kani (harness tiers are declared in the unit files)
verus:  list of unit names in /verif/verus
pairs:  verus fn name -> list of Kani harness names to try for a concrete witness when the Verus
        obligation fails (Verus itself gives no counterexample)
"""
PROPS = {
    'C27': dict(
        title='Index key encoding preserves order and equality',
        kani=['c27_okey'],
        verus=['c27_okey'],
        pairs={'encode_ordered_value': ['c27_str_pair_b2', 'c27_blob_pair_b2']},
        level_text='Proof, no bound: Verus proves the real encode_ordered_value/encode_index_key bodies equal a key-format spec for every value (strings/blobs of any length) and proves order preservation, injectivity and prefix-freedom of that format by induction; Kani proves the bit-level laws for all i64 pairs, all non-NaN f64 pairs, bools, and cross-kind on the compiled crate.',
        level_note='Trusted: std to_be_bytes/to_bits/String::as_bytes/len wrappers (listed in evidence trusted_base), 64-bit usize, std slice comparison is lexicographic. List/Map keys are outside the property quantifier. Bounded witness harnesses (len<=2) are labelled bounded and not counted.',
        technique='contract-based deductive verification (Verus postconditions + induction lemmas on mechanically extracted code; Kani full-domain harnesses on the real crate)',
        design_ref='DESIGN.md §4 C27',
    ),
    'C25': dict(
        title='Value and log encodings round-trip safely',
        kani=['c25_value'],
        verus=['c25_value', 'c25_wal'],
        pairs={},
        level_text='Proof, no bound on length or nesting: Verus proves the real PropertyValue::{encode,decode,decode_recursive} and WalRecord::{record_type,encode_body,decode_body} bodies against a written storage-format spec and a spec-level reference decoder (exec decoder refines it), proves the spec-level round trip by induction, proves absence of panics/overflow/out-of-bounds for every input byte string, and proves every pre-allocation is bounded by the input length; Kani proves bit-exact scalar round trips (all i64, all f64 bit patterns incl. NaN payloads and signed zeros) on the compiled crate.',
        level_note='Not decided: round trip of Map-valued properties (BTreeMap iteration order is outside the spec; the Map decode arm is still proved panic-free), native stack depth of the recursive decoder on deeply nested lists (not a verifier notion; seen, recorded in DESIGN.md). Trusted: std to/from_le_bytes, String::from_utf8/as_bytes, slice to_vec/try_into wrappers, 64-bit usize, slice length <= isize::MAX; unit c25_wal uses the contracts of PropertyValue::encode/decode proved in unit c25_value. Kani cannot ingest any decoder that reads its tag back from a heap buffer (measured), so no counterexample route exists for the Verus obligations: violations there end with no-failing-input-found.',
        technique='contract-based deductive verification (Verus: exec code refines a spec decoder, format lemmas by induction, allocation-budget preconditions; Kani full-domain scalar harness)',
        design_ref='DESIGN.md §4 C25',
    ),
    'C17': dict(
        title='Any log tail is tolerated on open',
        kani=[],
        verus=['c17_wal'],
        pairs={},
        native={'next_record': ['c17_tail_big_len', 'c17_tail_zero_fill', 'c17_tail_garbage', 'c17_commit_after_tail_shapes', 'c17_truncate_every_byte'],
                'try_read_u32': ['c17_tail_garbage', 'c17_commit_after_tail_shapes', 'c17_truncate_every_byte'],
                'append': ['c17_commit_after_tail', 'c17_commit_after_tail_shapes', 'c17_truncate_every_byte'],
                'replay_committed_from_path': ['c17_aborted_then_commit', 'c17_truncate_every_byte', 'c17_tail_garbage', 'c17_commit_after_tail_shapes']},
        native_all=['c17_tail_big_len', 'c17_tail_zero_fill', 'c17_tail_garbage', 'c17_commit_after_tail_shapes', 'c17_aborted_then_commit', 'c17_truncate_every_byte'],
        level_text='Proof for every log length and every tail, over a trusted file model: Verus proves the real WalReader::{try_read_u32,next_record} return a record exactly when a complete (length-limited, checksummed, decodable) frame starts at the read position and otherwise end the log without error; proves Wal::replay_committed_from_path returns exactly the committed-transaction fold of the records of the valid run; proves Wal::append places the new record right after the last complete record whatever tail the file had (so it is the next record every later reader sees) and never damages earlier records even when it fails; and proves the log-level lemmas: any bytes that do not start a complete frame after a run of frames leave the records unchanged, pure truncation inside a frame drops exactly that frame, committed transactions of a prefix are a prefix of the committed transactions.',
        level_note='Trusted: file model (File = bytes + position; read_exact/write_all/set_len/seek/metadata as specified in _file_model.rs/_file_ops.rs; fsync, rename and directory durability are not modelled), crc32 as an uninterpreted function, decode_body as a deterministic function whose agreement with the format is proved in unit c25_wal, single writer per file (C10 assumed). Not decided: GraphEngine::open/commit orchestration (how replayed transactions are applied to the page store), Wal::rewrite_as_snapshot. Verus gives no counterexample and Kani cannot ingest file I/O: on a failed obligation the driver runs native witness classes (replay-runner: every truncation point, zero fill, oversized length, garbage, commit-after-tail) against the tree under test and attaches the first that reproduces.',
        technique='contract-based deductive verification (Verus contracts on extracted WAL reader/appender/replay over a file model + inductive log lemmas)',
        design_ref='DESIGN.md §4 C17',
    ),
    'C18': dict(
        title='Growing one structure never corrupts another',
        kani=['c18_pager', 'c18_idmap'],
        verus=['c18_pager'],
        pairs={},
        native={'apply_create_node_multi_label': ['c18_node_table_spill'], 'write_i2e_record': ['c18_node_table_spill'],
                'make_room_for_next_record': ['c18_node_table_spill']},
        native_all=['c18_node_table_spill'],
        level_text='TBD', level_note='TBD', technique='TBD', design_ref='DESIGN.md §4 C18',
    ),
    'C28': dict(
        title='Vacuum preserves the database',
        kani=[],
        verus=['c28_vacuum'],
        pairs={},
        native={'mark_csr_segment_pages': ['c28_vacuum_after_compact'], 'encode_meta': ['c28_vacuum_after_compact'],
                'mark_reachable_pages': ['c28_vacuum_after_compact'], 'mark_blob_chain': ['c28_vacuum_after_compact'],
                'read_direct': ['c28_vacuum_after_compact']},
        native_all=['c28_vacuum_after_compact'],
        level_text='TBD', level_note='TBD', technique='TBD', design_ref='DESIGN.md §4 C28',
    ),
    'C20': dict(
        title='ORDER BY sorts and SKIP/LIMIT slice it',
        kani=['c20_order'],
        verus=[],
        pairs={},
        level_text='TBD', level_note='TBD', technique='TBD', design_ref='DESIGN.md §4 C20',
    ),
    'C23': dict(
        title='Expression evaluation obeys Cypher laws',
        kani=['c23_equality', 'c23_compare', 'c23_numeric', 'c23_arith'],
        verus=[],
        pairs={},
        level_text='TBD', level_note='TBD', technique='TBD', design_ref='DESIGN.md §4 C23',
    ),
}

# claimed in DESIGN.md but whose check is not built yet: listed under not_applicable until it is
PENDING = {
    'C26': 'check under construction (claimed in DESIGN.md §4; will move to checks when its units are committed)',
}
