"""Per-property configuration: which units decide which property.

kani:   list of unit names in /verif/kani (harness tiers are declared in the unit files)
verus:  list of unit names in /verif/verus
pairs:  verus fn name -> list of Kani harness names to try for a concrete witness when the Verus
        obligation fails (Verus itself gives no counterexample)
"""
PROPS = {
    'C27': dict(
        title='Index key encoding preserves order and equality',
        kani=['c27_okey'],
        verus=['c27_okey'],
        pairs={'encode_ordered_value': ['c27_str_pair_b2', 'c27_blob_pair_b2']},
        level_text='Proof, no bound: Verus proves the real encode_ordered_value/encode_index_key bodies equal a key-format spec for every value (strings/blobs of any length) and proves order preservation, injectivity and prefix-freedom of that format by induction; Kani proves the bit-level laws for all i64 pairs, all non-NaN f64 pairs, bools, and cross-kind on the compiled crate.',
        level_note='Trusted: std to_be_bytes/to_bits/String::as_bytes/len wrappers (listed in evidence trusted_base), 64-bit usize, std slice comparison is lexicographic. List/Map keys are outside the property quantifier. Bounded witness harnesses (len<=2) are labelled bounded and not counted.',
        technique='contract-based deductive verification (Verus postconditions + induction lemmas on mechanically extracted code; Kani full-domain harnesses on the real crate)',
        design_ref='DESIGN.md §4 C27',
    ),
    'C25': dict(
        title='Value and log encodings round-trip safely',
        kani=['c25_value'],
        verus=['c25_value'],
        pairs={},
        level_text='TBD', level_note='TBD', technique='TBD', design_ref='DESIGN.md §4 C25',
    ),
}

# claimed in DESIGN.md but whose check is not built yet: listed under not_applicable until it is
PENDING = {
    'C17': 'check under construction (claimed in DESIGN.md §4; will move to checks when its units are committed)',
    'C18': 'check under construction (claimed in DESIGN.md §4; will move to checks when its units are committed)',
    'C20': 'check under construction (claimed in DESIGN.md §4; will move to checks when its units are committed)',
    'C23': 'check under construction (claimed in DESIGN.md §4; will move to checks when its units are committed)',
    'C26': 'check under construction (claimed in DESIGN.md §4; will move to checks when its units are committed)',
    'C28': 'check under construction (claimed in DESIGN.md §4; will move to checks when its units are committed)',
}
