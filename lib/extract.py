"""Mechanical extraction of real functions from /repo into a single Verus file.

A template (`/verif/verus/<unit>.tmpl.rs`) is ordinary Verus text plus directive
comments.  Function *bodies* and item definitions always come from the repository
file named in the directive, at run time; the template contributes only contract
clauses, loop invariants and proof blocks.

Directives (each block ends with `//@end`):

  //@extract <repo-file> <[Type::]fn_name> [ret <name>] [as <new_name>] [vis <text>]
  //@| requires ... / ensures ... / decreases ...   (inserted between signature and body)
  //@loop <ordinal>  [iter <name>]      (//@loop? and //@proof?: skipped when the loop / anchor is absent - the
      contract is then checked against the code without that annotation instead of giving up)
  //@| invariant ... decreases ...                  (inserted before the loop body's `{`)
  //@proof before|after <ordinal> "<anchor substring of a body line>"
  //@| <verus statements>                           (wrapped in proof { } unless `raw`)
  //@rewrite "<literal>" => "<literal>"             (unit-specific, reported as rule RX)
  //@end

  //@item <repo-file> <struct|enum|const|type> <Name> [keep-derive]
      copies the item, strips attributes/doc comments (R4) and makes fields pub (R9)

Global rewrite rules R1..R9 are documented in DESIGN.md 2.2; every application is
counted and the before/after text of every extracted function is kept so the
evidence can show that the verified text is the code that runs.
"""
import re, difflib, os
from rustlex import mask, find_fn, find_impl_block, find_item, loops_in, match_close, LexError


class LostAnchor(Exception):
    pass


class Unsupported(Exception):
    pass


# ---- global rewrite rules -------------------------------------------------
# Each rule: (id, compiled regex, replacement, description).  Applied to the
# *masked-safe* body text (we only rewrite where the masked text matches too).
def _bytestring_array(mm):
    import ast
    raw = ast.literal_eval('b"' + mm.group(1) + '"')
    return '[' + ', '.join('0x%02Xu8' % b for b in raw) + ']'


RULES = [
    ('R11', re.compile(r'\*b"((?:[^"\\]|\\.)*)"'), _bytestring_array,
     '`*b"..."` -> the array literal of the same bytes (computed from the literal; Verus does not interpret byte-string literals)'),
    ('R7', re.compile(r'(\b\w+\[[^\]]+\])\s*\.try_into\(\)\s*\.(?:expect\("[^"]*"\)|unwrap\(\))'), r'v_slice_to_array(&\1)',
     'slice[a..b].try_into().unwrap()/expect(..) -> v_slice_to_array(&slice[a..b]) (requires len == N: the implicit panic becomes a proved precondition)'),
    ('R7', re.compile(r'\b(payload|bytes|buf|body)\s*\.try_into\(\)\s*\.(?:expect\("[^"]*"\)|unwrap\(\))'), r'v_slice_to_array(\1)',
     'slice.try_into().unwrap() -> v_slice_to_array(slice)'),
    ('R7', re.compile(r'(\b\w+\[[^\]]+\])\.to_vec\(\)'), r'v_slice_to_vec(&\1)', 'slice[a..b].to_vec() -> v_slice_to_vec(&slice[a..b])'),
    ('R3', re.compile(r'\b([\w.]+)\.metadata\(\)\?\.len\(\)'), r'vfile_len(\1)?', 'file.metadata()?.len() -> file model'),
    ('R3', re.compile(r'\b(file|tmp_file|f)\.seek\(([^;]*?)\)\?;'), r'vfile_seek(\1, \2)?;', 'file.seek(..)? -> file model'),
    ('R3', re.compile(r'\b(file|tmp_file|f)\.set_len\(([^;]*?)\)\?;'), r'vfile_set_len(\1, \2)?;', 'file.set_len(n)? -> file model'),
    ('R3', re.compile(r'\b(file|tmp_file|f)\.write_all\(([^;]*?)\)\?;'), r'vfile_write_all(\1, \2)?;', 'file.write_all(b)? -> file model'),
    ('R3', re.compile(r'\b(file|tmp_file|f)\.flush\(\)\?;'), r'vfile_flush(\1)?;', 'file.flush()? -> file model'),
    ('R3', re.compile(r'\b([\w.]+)\.read_exact\(([^;]*?)\)'), r'vfile_read_exact(&mut \1, \2)', 'file.read_exact(buf) -> file model'),
    ('R6', re.compile(r'\b(\w+)\.as_bytes\(\)'), r'v_str_as_bytes(\1)', 'String::as_bytes -> trusted wrapper (uninterpreted str_bytes)'),
    ('R6', re.compile(r'\bString::from_utf8\('), r'v_string_from_utf8(', 'String::from_utf8 -> trusted wrapper (uninterpreted is_utf8)'),
    ('R10', re.compile(r'\|_\|'), r'|_e|', 'closure parameter `_` -> `_e` (Verus rejects `_` closure params)'),
    ('R2', re.compile(r'\b(u16|u32|u64|i64|i32)::from_(le|be)_bytes\('), r'v_\1_from_\2_bytes(',
     'T::from_xx_bytes(e) -> trusted wrapper with vstd::bytes spec'),
    ('R2', re.compile(r'\bf64::from_(le|be)_bytes\('), r'v_f64_from_\1_bytes(',
     'f64::from_xx_bytes(e) -> trusted wrapper'),
    ('R5', re.compile(r'\bdebug_assert!\('), r'assert(/*R5*/ ', 'debug_assert! -> proof obligation (marked: its failure alone is not reported as a violation, see DESIGN 2.3)'),
    ('R5', re.compile(r'\bdebug_assert_eq!\(([^,;()]*(?:\([^()]*\)[^,;()]*)*),\s*([^,;()]*(?:\([^()]*\)[^,;()]*)*)\);'), r'assert(/*R5*/ (\1) == (\2));', 'debug_assert_eq!(a, b) -> proof obligation a == b'),
    ('R5', re.compile(r'\bdebug_assert_ne!\(([^,;()]*(?:\([^()]*\)[^,;()]*)*),\s*([^,;()]*(?:\([^()]*\)[^,;()]*)*)\);'), r'assert(/*R5*/ (\1) != (\2));', 'debug_assert_ne!(a, b) -> proof obligation a != b'),
]


def strip_attrs_and_docs(text):
    """R4: drop attribute lines and doc comments inside an item or fn body."""
    out = []
    n = 0
    for line in text.split('\n'):
        t = line.strip()
        if t.startswith('#[') and t.endswith(']'):
            n += 1
            continue
        if t.startswith('///') or t.startswith('//!'):
            n += 1
            continue
        out.append(line)
    return '\n'.join(out), n


def make_pub(item_text, kind):
    """R9: make the item and its fields pub."""
    n = 0
    t = item_text
    if not re.match(r'\s*pub\b', t):
        t = 'pub ' + t.lstrip()
        n += 1
    t = re.sub(r'^pub\s*\([^)]*\)', 'pub', t)
    if kind == 'struct':
        m = mask(t)
        if '{' in m:
            o = m.index('{')
            c = match_close(m, o)
            body = t[o + 1:c]
            new_lines = []
            for line in body.split('\n'):
                mm = re.match(r'^(\s*)(pub(\s*\([^)]*\))?\s+)?([A-Za-z_]\w*\s*:)', line)
                if mm:
                    if not mm.group(2) or mm.group(3):
                        n += 1
                    line = mm.group(1) + 'pub ' + line[mm.end(4) - len(mm.group(4)):]
                new_lines.append(line)
            t = t[:o + 1] + '\n'.join(new_lines) + t[c:]
        elif '(' in m:
            o = m.index('(')
            c = match_close(m, o)
            fields = t[o + 1:c]
            parts = [p.strip() for p in fields.split(',') if p.strip()]
            parts = [p if p.startswith('pub ') else 'pub ' + re.sub(r'^pub\s*\([^)]*\)\s*', '', p) for p in parts]
            t = t[:o + 1] + ', '.join(parts) + t[c:]
    return t, n


class Extractor:
    def __init__(self, repo_root):
        self.repo = repo_root
        self.cache = {}
        self.report = []      # per extracted fn: dict(file, fn, rules, diff)
        self.rule_counts = {}
        self.functions = []   # "file::fn" under contract
        self.linemap = []     # (out_line_start, out_line_end, label)

    def _load(self, rel):
        if rel not in self.cache:
            p = self.repo + '/' + rel
            try:
                src = open(p).read()
            except OSError as e:
                raise LostAnchor('file not found: %s' % rel)
            self.cache[rel] = (src, mask(src))
        return self.cache[rel]

    def _count(self, rid, n=1):
        if n:
            self.rule_counts[rid] = self.rule_counts.get(rid, 0) + n

    # -- items ---------------------------------------------------------------
    def item(self, rel, kind, name, rewrites=None, keep_derive=False):
        src, m = self._load(rel)
        r = find_item(src, m, kind, name)
        if r is None:
            raise LostAnchor('%s %s not found in %s' % (kind, name, rel))
        s, e = r
        text = src[s:e]
        kept = ''
        if keep_derive:
            # keep only the Clone/Copy part of the item's #[derive(..)] (value semantics Verus must know about)
            dm = re.search(r'#\[derive\(([^)]*)\)\]', text)
            if dm is None:
                dm = re.search(r'#\[derive\(([^)]*)\)\]\s*$', src[max(0, s - 200):s])
            names = [x.strip() for x in (dm.group(1).split(',') if dm else [])]
            keep = [x for x in names if x in ('Clone', 'Copy', 'PartialEq', 'Eq')]
            if not keep:
                raise LostAnchor('item %s: keep-derive asked but no Clone/Copy derive found' % name)
            if 'PartialEq' in keep:
                keep = ['Structural'] + keep   # Verus: makes the derived == usable in exec code (structural equality)
            kept = '#[derive(%s)]\n' % ', '.join(keep)
        text, n4 = strip_attrs_and_docs(text)
        self._count('R4', n4)
        if kind in ('struct', 'enum'):
            text, n9 = make_pub(text, kind)
        else:
            text, n9 = (text if re.match(r'\s*pub\b', text) else 'pub ' + text.lstrip(), 0 if re.match(r'\s*pub\b', text) else 1)
            text = re.sub(r'^pub\s*\([^)]*\)', 'pub', text)
        self._count('R9', n9)
        text, nf = re.subn(r'#\[(from|source|serde[^\]]*)\]\s*', '', text)
        self._count('R4', nf)
        # R11: `*b"..."` (deref of a byte-string literal) -> the array literal of the same bytes; Verus does
        # not interpret byte-string literals.  Computed from the literal, so a changed literal changes the array.
        def _bs(mm):
            import ast
            raw = ast.literal_eval('b"' + mm.group(1) + '"')
            return '[' + ', '.join('0x%02Xu8' % b for b in raw) + ']'
        text, nb = re.subn(r'\*b"((?:[^"\\]|\\.)*)"', _bs, text)
        self._count('R11', nb)
        for (a, b) in (rewrites or []):
            if a not in text:
                raise LostAnchor('item %s: rewrite source %r not found' % (name, a))
            text = text.replace(a, b)
            self._count('RX', 1)
        return kept + text

    # -- functions -------------------------------------------------------------
    def function(self, rel, qual, ret=None, new_name=None, contract='', loops=None,
                 proofs=None, rewrites=None, vis='pub', drop_self_mut=False, lebytes=None, prewrites=None, preregex=None, attrs=None):
        self._preregex = preregex
        self._attrs = attrs
        src, m = self._load(rel)
        lo, hi = 0, len(m)
        if qual.count('::') == 2:
            # Type::method::inner - a fn item nested in a method body (extracted as an item of its own)
            ty, outer, name = qual.split('::')
            found = None
            for bo, bc in find_impl_block(src, m, ty):
                fo = find_fn(src, m, outer, bo + 1, bc)
                if fo and (m.count('{', bo + 1, fo['fn_kw']) - m.count('}', bo + 1, fo['fn_kw'])) == 0:
                    found = find_fn(src, m, name, fo['body_open'] + 1, fo['body_close'])
                    if found:
                        break
            if not found:
                raise LostAnchor('nested fn %s not found in %s::%s of %s' % (name, ty, outer, rel))
            f = found
        elif '::' in qual:
            ty, name = qual.rsplit('::', 1)
            found = None
            for bo, bc in find_impl_block(src, m, ty):
                f = find_fn(src, m, name, bo + 1, bc)
                if f and (m.count('{', bo + 1, f['fn_kw']) - m.count('}', bo + 1, f['fn_kw'])) == 0:
                    found = f
                    break
            if not found:
                raise LostAnchor('fn %s not found in impl %s of %s' % (name, ty, rel))
            f = found
        else:
            name = qual
            f = find_fn(src, m, name)
            if not f or (m.count('{', 0, f['fn_kw']) - m.count('}', 0, f['fn_kw'])) != 0:
                # allow fns inside `mod x { }`? no: top level only
                raise LostAnchor('top-level fn %s not found in %s' % (name, rel))
        sig = src[f['fn_kw']:f['body_open']].rstrip()
        body = src[f['body_open']:f['body_close'] + 1]
        body_m = m[f['body_open']:f['body_close'] + 1]
        original = src[f['start']:f['body_close'] + 1]

        # ---- signature: drop where-clause position? keep; name return value
        if new_name:
            sig = re.sub(r'\bfn\s+%s\b' % re.escape(name), 'fn ' + new_name, sig, count=1)
        if ret:
            sm = mask(sig)
            # find top-level `->`
            depth, idx = 0, None
            for i, ch in enumerate(sm):
                if ch in '([<':
                    depth += 1 if ch != '<' else 0
                elif ch in ')]':
                    depth -= 1
                if sm.startswith('->', i) and depth == 0:
                    idx = i
                    break
            if idx is None:
                sig = sig + ' -> (%s: ())' % ret
            else:
                rt = sig[idx + 2:].strip()
                where = ''
                wm = re.search(r'\bwhere\b', mask(rt))
                if wm:
                    where = ' ' + rt[wm.start():]
                    rt = rt[:wm.start()].strip()
                sig = sig[:idx] + '-> (%s: %s)%s' % (ret, rt, where)

        # ---- body annotations (positions relative to body start), applied back to front
        edits = []  # (pos, text)
        lp = loops_in(body_m, 0, len(body_m))
        for spec in (loops or []):
            k = spec['ordinal']
            if k is None:
                # loop named by a substring of its header (robust to loops added/removed elsewhere)
                hits = [i for i, (kp, b_, _kw) in enumerate(lp) if spec['anchor'] in ' '.join(body[kp:b_].split())]
                if not hits and spec.get('optional'):
                    continue
                if len(hits) != 1:
                    raise LostAnchor('%s: loop with header containing %r found %d times' % (qual, spec['anchor'], len(hits)))
                k = hits[0] + 1
            if (k < 1 or k > len(lp)) and spec.get('optional'):
                continue
            if k < 1 or k > len(lp):
                raise LostAnchor('%s: loop #%d not found (%d loops)' % (qual, k, len(lp)))
            kw_pos, bo, kw = lp[k - 1]
            header = body[kw_pos:bo]
            new_header = header
            em = kw == 'for' and re.match(r'for\s+\(\s*(\w+)\s*,\s*(&?\s*\w+|\(\s*\w+\s*,\s*\w+\s*\))\s*\)\s+in\s+([\w.]+)\.iter\(\)\.enumerate\(\)\s*$', header.strip(), re.S)
            if em:
                # R12: `for (i, pat) in X.iter().enumerate()` -> `for i in 0..X.len()` + `let pat = <projection of X[i]>;`
                # (enumerate over a slice/Vec yields (index, &element) for index 0..len, in order: std)
                ivar, pat, xs = em.group(1), em.group(2).replace(' ', ''), em.group(3)
                itname = spec.get('iter')
                new_header = 'for %s in %s0..%s.len() ' % (ivar, (itname + ': ') if itname else '', xs)
                if pat.startswith('('):
                    a_, b_ = pat.strip('()').split(',')
                    lets = ' let %s = &%s[%s].0; let %s = &%s[%s].1;' % (a_, xs, ivar, b_, xs, ivar)
                elif pat.startswith('&'):
                    lets = ' let %s = %s[%s];' % (pat[1:], xs, ivar)
                else:
                    lets = ' let %s = &%s[%s];' % (pat, xs, ivar)
                self._count('R12')
                edits.append((bo + 1, '\n' + lets))
            elif kw == 'for':
                hm = re.match(r'for\s+(&?)\s*(\(?[\w\s,]+\)?)\s+in\s+(.*)$', header.strip(), re.S)
                if not hm:
                    raise Unsupported('%s: for-loop header not understood: %r' % (qual, header))
                amp, pat, expr = hm.group(1), hm.group(2).strip(), hm.group(3).strip()
                itname = spec.get('iter')
                if itname:
                    new_header = 'for %s in %s: %s ' % (pat, itname, expr)
                else:
                    new_header = 'for %s in %s ' % (pat, expr)
                if amp:
                    self._count('R1')
                    edits.append((bo + 1, '\n let %s = *%s;' % (pat, pat)))
            edits.append((bo, '\n' + spec['text'] + '\n'))
            if new_header != header:
                edits.append(('replace', kw_pos, bo, new_header))
        for spec in (proofs or []):
            anchor = spec['anchor']
            occ = spec.get('ordinal', 1)
            # search anchor in body at code positions only (anchor must equal masked text too)
            pos = -1
            found = 0
            if anchor == '@start':
                # right after the opening brace of the function body
                edits.append((1, '\n' + (spec['text'] if spec.get('raw') else 'proof {\n' + spec['text'] + '\n}') + '\n'))
                continue
            if anchor.startswith('='):
                want = anchor[1:].strip()
                off = 0
                for ln in body.split('\n'):
                    if ln.strip() == want and body_m[off:off + len(ln)].strip() == want:
                        found += 1
                        if found == occ:
                            pos = off + (len(ln) - len(ln.lstrip()))
                            break
                    off += len(ln) + 1
            else:
                start = 0
                while True:
                    pos = body.find(anchor, start)
                    if pos < 0:
                        break
                    if body_m[pos:pos + len(anchor)].strip() != '':
                        found += 1
                        if found == occ:
                            break
                    start = pos + 1
            if pos < 0:
                if spec.get('optional'):
                    continue
                raise LostAnchor('%s: proof anchor %r (#%d) not found' % (qual, anchor, occ))
            text = spec['text'] if spec.get('raw') else 'proof {\n' + spec['text'] + '\n}'
            if spec['where'] == 'before':
                ls = body.rfind('\n', 0, pos) + 1
                edits.append((ls, text + '\n'))
            else:
                # after: end of the statement = next ';' at depth 0 from pos, or end of line for blocks
                depth = 0
                j = pos
                while j < len(body_m):
                    ch = body_m[j]
                    if ch in '([{':
                        depth += 1
                    elif ch in ')]}':
                        depth -= 1
                        if depth < 0:
                            break
                    elif ch == ';' and depth == 0:
                        break
                    j += 1
                if j >= len(body_m) or body_m[j] != ';':
                    # the anchored line opens a block (loop / if): insert after its closing brace
                    ob = body_m.find('{', pos)
                    nl = body_m.find('\n', pos)
                    if ob < 0 or (nl >= 0 and ob > nl):
                        raise LostAnchor('%s: cannot find end of statement after %r' % (qual, anchor))
                    edits.append((match_close(body_m, ob) + 1, '\n' + text + '\n'))
                    continue
                edits.append((j + 1, '\n' + text + '\n'))

        # apply edits back to front
        def key(e):
            return e[1] if e[0] == 'replace' else e[0]
        new_body = body
        for e in sorted(edits, key=key, reverse=True):
            if e[0] == 'replace':
                _, a, b, t = e
                new_body = new_body[:a] + t + new_body[b:]
            else:
                p, t = e
                new_body = new_body[:p] + t + new_body[p:]

        # ---- rewrite rules
        applied = []
        for (a, b) in (prewrites or []):
            n = new_body.count(a)
            if n == 0 and sig.count(a) == 0:
                raise LostAnchor('%s: prewrite source %r not found' % (qual, a))
            new_body = new_body.replace(a, b)
            sig = sig.replace(a, b)
            self._count('RX', max(n, 1))
            applied.append('RX(pre) %r => %r x%d' % (a, b, max(n, 1)))
        for (a, b) in (getattr(self, '_preregex', None) or []):
            optional = a.startswith('?')
            if optional:
                a = a[1:]
            new_body, n = re.subn(a, b, new_body)
            if n == 0 and optional:
                continue
            if n == 0:
                raise LostAnchor('%s: preregex %r matched nothing' % (qual, a))
            self._count('RX', n)
            applied.append('RX(regex) %r => %r x%d' % (a, b, n))
        if lebytes:
            # R2 (type-directed): X.to_{le,be}_bytes() -> v_<T>_to_xx_bytes(X) using the declared integer type of X
            def _le(mm):
                nm, end = mm.group(1), mm.group(2)
                if nm not in lebytes:
                    raise Unsupported('%s: no declared type for `%s.to_%s_bytes()` (add it to //@lebytes)' % (qual, nm, end))
                ty = lebytes[nm]
                arg = ('*' + nm) if ty.startswith('*') else nm
                return 'v_%s_to_%s_bytes(%s)' % (ty.lstrip('*'), end, arg)
            new_body, n = re.subn(r'\b([\w.]+)\.to_(le|be)_bytes\(\)', _le, new_body)
            if n:
                self._count('R2', n)
                applied.append('R2(typed) x%d' % n)
        for rid, rx, rep, desc in RULES:
            new_body, n = rx.subn(rep, new_body)
            if n:
                self._count(rid, n)
                applied.append('%s x%d' % (rid, n))
        for (a, b) in (rewrites or []):
            n = new_body.count(a)
            if n == 0:
                n_sig = sig.count(a)
                if n_sig == 0:
                    raise LostAnchor('%s: rewrite source %r not found' % (qual, a))
            new_body = new_body.replace(a, b)
            sig = sig.replace(a, b)
            self._count('RX', max(n, 1))
            applied.append('RX %r => %r x%d' % (a, b, max(n, 1)))
        new_body, n4 = strip_attrs_and_docs(new_body)
        self._count('R4', n4)

        v = (vis + ' ') if vis else ''
        out = '%s%s%s\n%s\n%s' % (''.join(a + '\n' for a in (self._attrs or [])), v, sig, contract, new_body)
        self._count('R9', 0 if original.lstrip().startswith('pub ') else 1)
        self.functions.append('%s::%s' % (rel, qual))
        # diff of real text vs fed text, ignoring inserted contract/proof lines is not
        # possible mechanically; we keep the full unified diff for the evidence
        diff = list(difflib.unified_diff(original.split('\n'), out.split('\n'), 'repo:' + rel + '::' + qual,
                                         'fed-to-verus', lineterm='', n=0))
        self.report.append(dict(file=rel, fn=qual, rules=applied, original_lines=original.count('\n') + 1,
                                diff=diff))
        return out


def parse_template(text):
    """Split a template into literal chunks and directive blocks."""
    lines = text.split('\n')
    i = 0
    out = []
    while i < len(lines):
        ln = lines[i]
        s = ln.strip()
        if s.startswith('//@include '):
            inc = open(os.path.join(os.path.dirname(os.path.abspath(__file__)), '..', 'verus', s.split()[1])).read()
            out.extend(parse_template(inc))
            i += 1
        elif s.startswith('//@item '):
            parts = s.split()
            d = dict(file=parts[1], kind=parts[2], name=parts[3], rewrites=[], keep_derive=('keep-derive' in parts[4:]))
            i += 1
            while i < len(lines) and lines[i].strip().startswith('//@rewrite '):
                mm = re.match(r'//@rewrite\s+"(.*)"\s*=>\s*"(.*)"\s*$', lines[i].strip())
                d['rewrites'].append((mm.group(1), mm.group(2)))
                i += 1
            out.append(('item', d))
        elif s.startswith('//@extract '):
            parts = s.split()
            d = dict(file=parts[1], qual=parts[2], ret=None, new_name=None, contract=[], loops=[], proofs=[],
                     rewrites=[], vis='pub')
            k = 3
            while k < len(parts):
                if parts[k] == 'ret':
                    d['ret'] = parts[k + 1]; k += 2
                elif parts[k] == 'as':
                    d['new_name'] = parts[k + 1]; k += 2
                elif parts[k] == 'novis':
                    d['vis'] = ''; k += 1
                else:
                    raise Unsupported('bad //@extract option %r' % parts[k])
            cur = d['contract']
            i += 1
            while i < len(lines) and lines[i].strip() != '//@end':
                t = lines[i].strip()
                if t.startswith('//@|'):
                    cur.append(lines[i].split('//@|', 1)[1])
                elif t.startswith('//@loop ') or t.startswith('//@loop? '):
                    mm = re.match(r'//@loop(\?)?\s+"(.*)"\s*(?:iter\s+(\w+))?\s*$', t)
                    if mm:
                        spec = dict(ordinal=None, anchor=mm.group(2), optional=bool(mm.group(1)), lines=[])
                        if mm.group(3):
                            spec['iter'] = mm.group(3)
                        d['loops'].append(spec)
                        cur = spec['lines']
                        i += 1
                        continue
                    p = t.split()
                    spec = dict(ordinal=int(p[1]), optional=p[0].endswith('?'), lines=[])
                    if len(p) > 3 and p[2] == 'iter':
                        spec['iter'] = p[3]
                    d['loops'].append(spec)
                    cur = spec['lines']
                elif t.startswith('//@proof ') or t.startswith('//@proof? '):
                    mm = re.match(r'//@proof(\?)?\s+(before|after)\s+(\d+)\s+"(.*)"\s*(raw)?\s*$', t)
                    if not mm:
                        raise Unsupported('bad //@proof line: %r' % t)
                    spec = dict(where=mm.group(2), ordinal=int(mm.group(3)), anchor=mm.group(4), lines=[],
                                raw=bool(mm.group(5)), optional=bool(mm.group(1)))
                    d['proofs'].append(spec)
                    cur = spec['lines']
                elif t.startswith('//@rewrite '):
                    mm = re.match(r'//@rewrite\s+"(.*)"\s*=>\s*"(.*)"\s*$', t)
                    if not mm:
                        raise Unsupported('bad //@rewrite line: %r' % t)
                    d['rewrites'].append((mm.group(1).replace('\\n', '\n'), mm.group(2).replace('\\n', '\n')))
                elif t.startswith('//@attr '):
                    d.setdefault('attrs', []).append(t[len('//@attr '):].strip())
                elif t.startswith('//@preregex '):
                    mm = re.match(r'//@preregex\s+"(.*)"\s*=>\s*"(.*)"\s*$', t)
                    if not mm:
                        raise Unsupported('bad //@preregex line: %r' % t)
                    d.setdefault('preregex', []).append((mm.group(1), mm.group(2)))
                elif t.startswith('//@prewrite '):
                    mm = re.match(r'//@prewrite\s+"(.*)"\s*=>\s*"(.*)"\s*$', t)
                    if not mm:
                        raise Unsupported('bad //@prewrite line: %r' % t)
                    d.setdefault('prewrites', []).append((mm.group(1).replace('\\n', '\n'), mm.group(2).replace('\\n', '\n')))
                elif t.startswith('//@lebytes '):
                    for ent in t.split()[1:]:
                        nm, ty = ent.split(':')
                        d.setdefault('lebytes', {})[nm] = ty
                elif t == '' or t.startswith('//'):
                    pass
                else:
                    raise Unsupported('unexpected line inside //@extract block: %r' % t)
                i += 1
            if i >= len(lines):
                raise Unsupported('//@extract without //@end')
            i += 1
            d['contract'] = '\n'.join(d['contract'])
            for sp in d['loops'] + d['proofs']:
                sp['text'] = '\n'.join(sp.pop('lines'))
            out.append(('extract', d))
        else:
            out.append(('lit', ln))
            i += 1
    return out


def assemble(template_text, repo_root):
    ex = Extractor(repo_root)
    chunks = []
    for kind, d in parse_template(template_text):
        if kind == 'lit':
            chunks.append(d)
        elif kind == 'item':
            chunks.append('// ---- extracted item %s %s from %s\n' % (d['kind'], d['name'], d['file']) +
                          ex.item(d['file'], d['kind'], d['name'], d.get('rewrites'), d.get('keep_derive', False)))
        else:
            chunks.append('// ---- extracted fn %s from %s\n' % (d['qual'], d['file']) +
                          ex.function(d['file'], d['qual'], ret=d['ret'], new_name=d['new_name'],
                                      contract=d['contract'], loops=d['loops'], proofs=d['proofs'],
                                      rewrites=d['rewrites'], vis=d['vis'], lebytes=d.get('lebytes'), prewrites=d.get('prewrites'), preregex=d.get('preregex'), attrs=d.get('attrs')))
    return '\n'.join(chunks), ex
