"""Native witness search: /verif/replay-runner is built against the tree under test and executes
scenario classes (public API only).  Used to obtain a concrete failing input for a Verus obligation,
which itself gives no counterexample.  A scenario exits 1 and prints `VIOLATION reproduced: ...` when
the real code misbehaves on a concrete input of its class."""
import os, subprocess, shutil
VERIF = os.path.dirname(os.path.dirname(os.path.abspath(__file__)))
SCRATCH = os.environ.get('VERIF_SCRATCH', '/var/tmp/nervus-verif')


def build(repo_root, runner='replay-runner'):
    """runner: 'replay-runner' (storage/api crates) or 'replay-runner-q' (query layer through nervusdb::Db)"""
    src = os.path.join(VERIF, runner)
    dst = os.path.join(SCRATCH, runner)
    os.makedirs(os.path.join(dst, 'src'), exist_ok=True)
    shutil.copy(os.path.join(src, 'src', 'main.rs'), os.path.join(dst, 'src', 'main.rs'))
    toml = open(os.path.join(src, 'Cargo.toml')).read().replace('/repo/', repo_root.rstrip('/') + '/')
    open(os.path.join(dst, 'Cargo.toml'), 'w').write(toml)
    lock = os.path.join(src, 'Cargo.lock')
    if os.path.exists(lock):
        shutil.copy(lock, os.path.join(dst, 'Cargo.lock'))
    env = dict(os.environ, CARGO_NET_OFFLINE='true', CARGO_TARGET_DIR=os.path.join(SCRATCH, 'target-replay'))
    env.setdefault('CARGO_BUILD_JOBS', '8')
    p = subprocess.run(['cargo', 'build', '--offline'], cwd=dst, env=env, capture_output=True, text=True, timeout=1800)
    if p.returncode != 0:
        return None, (p.stderr or '')[-1500:]
    return os.path.join(SCRATCH, 'target-replay', 'debug', runner), ''


def run(binary, scenario, timeout=600):
    try:
        p = subprocess.run([binary, scenario], capture_output=True, text=True, timeout=timeout)
    except subprocess.TimeoutExpired:
        return 2, 'timeout'
    lines = [l for l in p.stdout.split('\n') if l.strip()]
    return p.returncode, '\n'.join(lines[-6:])
