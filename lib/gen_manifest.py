#!/usr/bin/env python3
"""Regenerate /verif/MANIFEST.json from lib/props.py and not_applicable.json (keeps it schema-valid)."""
import json, os, sys
VERIF = os.path.dirname(os.path.dirname(os.path.abspath(__file__)))
sys.path.insert(0, os.path.join(VERIF, 'lib'))
from props import PROPS, PENDING

na = json.load(open(os.path.join(VERIF, 'not_applicable.json')))
na = [x for x in na if x['property_id'] not in PROPS]
for pid, why in sorted(PENDING.items()):
    if pid not in PROPS:
        na.append(dict(property_id=pid, reason=why))
na.sort(key=lambda x: x['property_id'])
checks = []
for pid in sorted(PROPS):
    c = PROPS[pid]
    checks.append(dict(
        property_id=pid,
        quick_cmd='./check %s --tier quick' % pid,
        thorough_cmd='./check %s --tier thorough' % pid,
        evidence_file='evidence/%s.json' % pid,
        replay_cmd_template='./show-replay {path}',
        engine='contracts',
        level_claimed=dict(category='proof', text=c['level_text'], design_ref=c.get('design_ref', 'DESIGN.md §4')),
        level_note=c['level_note'],
        technique=c['technique'],
    ))
m = dict(
    version=1,
    setup_cmd='./setup.sh',
    hooks=dict(
        guard='kani (cfg set only by cargo-kani; harness modules and contract attributes are injected add-only into a per-run scratch copy of /repo, no source commits)',
        enable='none needed: ./check copies /repo\'s working tree to /var/tmp/nervus-verif/src, appends #[cfg(kani)] modules from /verif/kani/*.rs and runs cargo kani; Verus units are assembled from /repo\'s text by lib/extract.py',
        baseline_off_cmd='cd /repo && cargo nextest run --workspace --no-fail-fast --test-threads 8 --offline || cargo test --workspace --no-fail-fast --offline',
        source_commits=[],
        add_only=True,
    ),
    engines=[dict(name='contracts', path='check', serves_properties=sorted(PROPS),
                  kind_free_text='contract-based deductive verification: Verus (Z3) on functions extracted mechanically from /repo each run + Kani (CBMC) function contracts/harnesses injected under cfg(kani) into a scratch copy of the real crates')],
    checks=checks,
    not_applicable=na,
    notes='See DESIGN.md. Exit 2 = undecided (tool limit / lost anchor / vacuity guard), never reported as a violation. known_findings.json lists genuine defects (found by these checks) that are recorded rather than repaired, and the fix: commits made.',
)
json.dump(m, open(os.path.join(VERIF, 'MANIFEST.json'), 'w'), indent=1)
print('MANIFEST.json: %d checks, %d not applicable' % (len(checks), len(na)))
