//! Native replay of verifier findings against the real crates (public API only).
//! usage: replay-runner <scenario> [args]; exit 0 = behaviour conforms, 1 = violation reproduced.
use nervusdb_storage::wal::Wal;
use std::io::Write;

fn frame(body: &[u8]) -> Vec<u8> {
    let mut h = crc32fast::Hasher::new();
    h.update(body);
    let crc = h.finalize();
    let mut out = Vec::new();
    out.extend_from_slice(&(body.len() as u32).to_le_bytes());
    out.extend_from_slice(&crc.to_le_bytes());
    out.extend_from_slice(body);
    out
}

fn tmpdir(name: &str) -> std::path::PathBuf {
    let d = std::env::temp_dir().join(format!("nervus-replay-{}-{}", name, std::process::id()));
    let _ = std::fs::remove_dir_all(&d);
    std::fs::create_dir_all(&d).unwrap();
    d
}

/// C25.wal.decode_body.total: a ManifestSwitch body with count = 1 whose payload is 36..43 bytes long.
fn wal_manifest_short() -> i32 {
    let d = tmpdir("manifest-short");
    let p = d.join("x.wal");
    let mut body = vec![9u8];
    body.extend_from_slice(&7u64.to_le_bytes()); // epoch
    body.extend_from_slice(&1u32.to_le_bytes()); // count = 1
    body.extend_from_slice(&[0u8; 16]); // one segment pointer
    body.extend_from_slice(&[0u8; 8]); // properties_root, but no stats_root
    let mut f = std::fs::File::create(&p).unwrap();
    f.write_all(&frame(&[1, 1, 0, 0, 0, 0, 0, 0, 0])).unwrap(); // BeginTx 1
    f.write_all(&frame(&body)).unwrap();
    drop(f);
    let r = std::panic::catch_unwind(|| Wal::open(&p).unwrap().replay_committed());
    let _ = std::fs::remove_dir_all(&d);
    match r {
        Ok(Ok(_)) => { println!("decoded without error (unexpected but not a panic)"); 0 }
        Ok(Err(e)) => { println!("conforms: decoder returned Err({e})"); 0 }
        Err(_) => { println!("VIOLATION reproduced: decoder panicked on a well-framed 37-byte ManifestSwitch body"); 1 }
    }
}

use nervusdb_storage::engine::GraphEngine;

fn make_db(d: &std::path::Path, ids: &[u64]) -> (std::path::PathBuf, std::path::PathBuf) {
    let ndb = d.join("t.ndb");
    let wal = d.join("t.wal");
    let e = GraphEngine::open(&ndb, &wal).unwrap();
    for id in ids {
        let mut tx = e.begin_write();
        tx.create_node(*id, 0).unwrap();
        tx.commit().unwrap();
    }
    drop(e);
    (ndb, wal)
}

fn append_bytes(p: &std::path::Path, b: &[u8]) {
    let mut f = std::fs::OpenOptions::new().append(true).open(p).unwrap();
    f.write_all(b).unwrap();
}

/// C17.wal.next_record.never_err_on_tail: open must succeed and see the committed nodes whatever
/// bytes follow the last complete record.
fn c17_tail(name: &str, tail: &[u8]) -> i32 {
    let d = tmpdir(name);
    let (ndb, wal) = make_db(&d, &[10, 11]);
    append_bytes(&wal, tail);
    let r = std::panic::catch_unwind(|| GraphEngine::open(&ndb, &wal).map(|e| (e.lookup_internal_id(10), e.lookup_internal_id(11))));
    let _ = std::fs::remove_dir_all(&d);
    match r {
        Ok(Ok((Some(_), Some(_)))) => { println!("conforms: open succeeded and both committed nodes are present"); 0 }
        Ok(Ok(x)) => { println!("VIOLATION reproduced: open succeeded but committed nodes are missing: {:?}", x); 1 }
        Ok(Err(e)) => { println!("VIOLATION reproduced: open failed on a log tail of {} bytes {:02x?}..: {}", tail.len(), &tail[..tail.len().min(8)], e); 1 }
        Err(_) => { println!("VIOLATION reproduced: open panicked"); 1 }
    }
}

/// C17.wal.append.at_end_of_valid: commits acknowledged after a tolerated tail must survive reopen.
fn c17_commit_after_tail(tail: &[u8]) -> i32 {
    let d = tmpdir("commit-after-tail");
    let (ndb, wal) = make_db(&d, &[10]);
    append_bytes(&wal, tail);
    {
        let e = match GraphEngine::open(&ndb, &wal) { Ok(e) => e, Err(e) => { println!("VIOLATION reproduced: open failed: {e}"); return 1; } };
        let mut tx = e.begin_write();
        let n = tx.create_node(20, 0).unwrap();
        tx.set_node_property(n, "k".to_string(), nervusdb_api::PropertyValue::Int(42));
        tx.commit().unwrap();
    }
    let e = match GraphEngine::open(&ndb, &wal) { Ok(e) => e, Err(e) => { println!("VIOLATION reproduced: second reopen failed: {e}"); return 1; } };
    let iid = e.lookup_internal_id(20);
    let v = iid.and_then(|i| { use nervusdb_api::{GraphSnapshot, GraphStore}; e.snapshot().node_property(i, "k") });
    drop(e);
    let _ = std::fs::remove_dir_all(&d);
    if v == Some(nervusdb_api::PropertyValue::Int(42)) { println!("conforms: the transaction committed after the tolerated tail survived reopen"); 0 }
    else { println!("VIOLATION reproduced: node 20 with k=42 was committed (commit returned Ok) after a tolerated {}-byte tail; after reopen node={:?} k={:?}", tail.len(), iid, v); 1 }
}

/// Witness class for C17: every truncation point of a 3-transaction log, then reopen, commit, reopen.
fn c17_truncate_every_byte() -> i32 {
    let d = tmpdir("trunc");
    let ndb0 = d.join("base.ndb");
    let wal0 = d.join("base.wal");
    {
        let e = GraphEngine::open(&ndb0, &wal0).unwrap();
        for (i, id) in [10u64, 11, 12].iter().enumerate() {
            let mut tx = e.begin_write();
            let n = tx.create_node(*id, 0).unwrap();
            tx.set_node_property(n, "k".to_string(), nervusdb_api::PropertyValue::Int(i as i64));
            tx.commit().unwrap();
        }
    }
    let full = std::fs::read(&wal0).unwrap();
    let mut bad = 0;
    let mut tried = 0;
    let mut cut = 0usize;
    while cut <= full.len() {
        let ndb = d.join("t.ndb");
        let wal = d.join("t.wal");
        std::fs::copy(&ndb0, &ndb).unwrap();
        std::fs::write(&wal, &full[..cut]).unwrap();
        tried += 1;
        let r = std::panic::catch_unwind(|| -> Result<(Vec<Option<nervusdb_api::PropertyValue>>, bool), String> {
            use nervusdb_api::{GraphSnapshot, GraphStore};
            let e = GraphEngine::open(&ndb, &wal).map_err(|e| e.to_string())?;
            let seen: Vec<_> = (0u32..3).map(|i| e.snapshot().node_property(i, "k")).collect();
            // commit after the tolerated tail, reopen, must still be there
            {
                let mut tx = e.begin_write();
                let n = tx.create_node(99, 0).map_err(|e| e.to_string())?;
                tx.set_node_property(n, "z".to_string(), nervusdb_api::PropertyValue::Int(7));
                tx.commit().map_err(|e| e.to_string())?;
            }
            drop(e);
            let e = GraphEngine::open(&ndb, &wal).map_err(|e| e.to_string())?;
            let iid = e.lookup_internal_id(99).ok_or("node 99 missing")?;
            let ok = e.snapshot().node_property(iid, "z") == Some(nervusdb_api::PropertyValue::Int(7));
            Ok((seen, ok))
        });
        match r {
            Ok(Ok((seen, later_ok))) => {
                // committed prefix: property k of node i present implies present for all j < i
                let present: Vec<bool> = seen.iter().map(|x| x.is_some()).collect();
                let prefix_ok = !(present[1] && !present[0]) && !(present[2] && !present[1]);
                if !prefix_ok || !later_ok {
                    println!("VIOLATION reproduced: log truncated to {cut} bytes: recovered={:?} later_commit_durable={later_ok}", present);
                    bad += 1;
                }
            }
            Ok(Err(e)) => { println!("VIOLATION reproduced: log truncated to {cut} bytes: {e}"); bad += 1; }
            Err(_) => { println!("VIOLATION reproduced: log truncated to {cut} bytes: panic"); bad += 1; }
        }
        if bad >= 3 { break; }
        cut += 1;
    }
    let _ = std::fs::remove_dir_all(&d);
    if bad == 0 { println!("conforms: {tried} truncation points of a {}-byte log", full.len()); 0 } else { 1 }
}

/// C18.client.frame.write_i2e_record: a blob stored right after the node table's first page must keep
/// its content when the node table grows past one page (node id 512 is addressed at start + 1).
fn c18_node_table_spill() -> i32 {
    use nervusdb_storage::blob_store::BlobStore;
    use nervusdb_storage::idmap::IdMap;
    use nervusdb_storage::pager::Pager;
    let d = tmpdir("c18-spill");
    let ndb = d.join("t.ndb");
    let r = std::panic::catch_unwind(|| -> Result<(Vec<u8>, u64, Option<u64>), String> {
        let mut pager = Pager::open(&ndb).map_err(|e| e.to_string())?;
        let mut idmap = IdMap::load(&mut pager).map_err(|e| e.to_string())?;
        idmap.apply_create_node(&mut pager, 1000, 0, 0).map_err(|e| e.to_string())?;
        let start = pager.i2e_start_page().map(|p| p.as_u64());
        let payload: Vec<u8> = (0..64u8).collect();
        let blob = BlobStore::write(&mut pager, &payload).map_err(|e| e.to_string())?;
        for i in 1..=512u32 {
            idmap.apply_create_node(&mut pager, 1000 + i as u64, 0, i).map_err(|e| e.to_string())?;
        }
        let back = BlobStore::read(&pager, blob).map_err(|e| format!("blob unreadable after node growth: {e}"))?;
        Ok((back, blob, start))
    });
    let _ = std::fs::remove_dir_all(&d);
    let want: Vec<u8> = (0..64u8).collect();
    match r {
        Ok(Ok((back, _, _))) if back == want => { println!("conforms: blob page kept its content while the node table grew to 513 records"); 0 }
        Ok(Ok((back, blob, start))) => { println!("VIOLATION reproduced: node table starts at page {:?}; a 64-byte blob was stored at page {blob}; after creating node 512 the blob reads back as {} bytes {:02x?}.. (node record 512 was written into the blob's page)", start, back.len(), &back[..back.len().min(8)]); 1 }
        Ok(Err(e)) => { println!("VIOLATION reproduced: {e}"); 1 }
        Err(_) => { println!("VIOLATION reproduced: panic"); 1 }
    }
}

/// Witness class for C17: for each tail shape, commit after the tolerated tail, reopen, and require the
/// later transaction to be wholly there (node, property and edge).
fn c17_commit_after_tail_shapes() -> i32 {
    let mut bad_frame = frame(&[1, 9, 0, 0, 0, 0, 0, 0, 0]);
    let n = bad_frame.len();
    bad_frame[n - 1] ^= 0x40; // checksum no longer matches
    let shapes: Vec<(&str, Vec<u8>)> = vec![
        ("2 garbage bytes", vec![1, 2]),
        ("8 zero bytes", vec![0u8; 8]),
        ("11 zero bytes", vec![0u8; 11]),
        ("4096 zero bytes", vec![0u8; 4096]),
        ("length field 0xFFFFFFFF", vec![0xFF, 0xFF, 0xFF, 0xFF, 1, 2, 3, 4, 5]),
        ("frame with a flipped bit", bad_frame),
        ("header only", frame(&[1, 9, 0, 0, 0, 0, 0, 0, 0])[..8].to_vec()),
        ("checksummed frame with an unknown record type", frame(&[0xEE, 1, 2, 3])),
        ("checksummed frame with a one-byte ManifestSwitch body", frame(&[9])),
        ("checksummed frame with an empty body", frame(&[])),
    ];
    let mut bad = 0;
    for (name, tail) in &shapes {
        let d = tmpdir("tail-shapes");
        let (ndb, wal) = make_db(&d, &[10]);
        append_bytes(&wal, tail);
        let r = std::panic::catch_unwind(|| -> Result<(), String> {
            use nervusdb_api::{GraphSnapshot, GraphStore};
            {
                let e = GraphEngine::open(&ndb, &wal).map_err(|e| format!("open failed: {e}"))?;
                if e.lookup_internal_id(10).is_none() { return Err("committed node 10 missing after open".into()); }
                let mut tx = e.begin_write();
                let n = tx.create_node(20, 0).map_err(|e| e.to_string())?;
                tx.set_node_property(n, "k".to_string(), nervusdb_api::PropertyValue::Int(42));
                tx.create_edge(0, 7, n);
                tx.commit().map_err(|e| format!("commit after tail failed: {e}"))?;
            }
            let e = GraphEngine::open(&ndb, &wal).map_err(|e| format!("second reopen failed: {e}"))?;
            let iid = e.lookup_internal_id(20).ok_or("node 20 (committed after the tail) is gone after reopen")?;
            let snap = e.snapshot();
            if snap.node_property(iid, "k") != Some(nervusdb_api::PropertyValue::Int(42)) { return Err("property of node 20 (committed after the tail) is gone after reopen".into()); }
            if snap.neighbors(0, Some(7)).count() != 1 { return Err("edge committed after the tail is gone after reopen".into()); }
            Ok(())
        });
        let _ = std::fs::remove_dir_all(&d);
        match r {
            Ok(Ok(())) => {}
            Ok(Err(e)) => { println!("VIOLATION reproduced: log tail = {name}: {e}"); bad += 1; }
            Err(_) => { println!("VIOLATION reproduced: log tail = {name}: panic"); bad += 1; }
        }
    }
    if bad == 0 { println!("conforms: {} tail shapes, commit-after-tail durable in each", shapes.len()); 0 } else { 1 }
}

/// Witness class for C17: a transaction that was begun and partly written but never committed (crash in
/// the middle of commit) must not surface, neither at once nor as part of a later transaction.
fn c17_aborted_then_commit() -> i32 {
    let d = tmpdir("aborted");
    let (ndb, wal) = make_db(&d, &[10, 11]);
    // BeginTx 77, CreateEdge 0 -[5]-> 1, no CommitTx
    let mut begin = vec![1u8]; begin.extend_from_slice(&77u64.to_le_bytes());
    let mut edge = vec![6u8]; edge.extend_from_slice(&0u32.to_le_bytes()); edge.extend_from_slice(&5u32.to_le_bytes()); edge.extend_from_slice(&1u32.to_le_bytes());
    append_bytes(&wal, &frame(&begin));
    append_bytes(&wal, &frame(&edge));
    let r = std::panic::catch_unwind(|| -> Result<(), String> {
        use nervusdb_api::{GraphSnapshot, GraphStore};
        {
            let e = GraphEngine::open(&ndb, &wal).map_err(|e| format!("open failed: {e}"))?;
            if e.snapshot().neighbors(0, Some(5)).count() != 0 { return Err("edge of the uncommitted transaction is visible after open".into()); }
            let mut tx = e.begin_write();
            tx.create_node(20, 0).map_err(|e| e.to_string())?;
            tx.commit().map_err(|e| e.to_string())?;
        }
        let e = GraphEngine::open(&ndb, &wal).map_err(|e| format!("second reopen failed: {e}"))?;
        if e.lookup_internal_id(20).is_none() { return Err("node committed after the aborted transaction is gone".into()); }
        if e.snapshot().neighbors(0, Some(5)).count() != 0 { return Err("edge of the never-committed transaction became visible after a later commit and reopen".into()); }
        Ok(())
    });
    let _ = std::fs::remove_dir_all(&d);
    match r {
        Ok(Ok(())) => { println!("conforms: the aborted transaction never surfaces"); 0 }
        Ok(Err(e)) => { println!("VIOLATION reproduced: {e}"); 1 }
        Err(_) => { println!("VIOLATION reproduced: panic"); 1 }
    }
}

/// C28 witness class: a database compacted several times (segments whose four page lists span several
/// pages, orphaned pages from earlier compactions) must vacuum, keep its edges in both directions,
/// properties and nodes, and stay fully usable: more writes and another compaction after the vacuum.
fn c28_vacuum_after_compact() -> i32 {
    use nervusdb_api::{GraphSnapshot, GraphStore};
    let d = tmpdir("c28-vacuum");
    let ndb = d.join("t.ndb");
    let wal = d.join("t.wal");
    const N: u32 = 60;
    let r = std::panic::catch_unwind(|| -> Result<(), String> {
        let dump = |e: &GraphEngine| -> (Vec<usize>, Vec<usize>, Option<nervusdb_api::PropertyValue>) {
            let s = e.snapshot();
            let out: Vec<usize> = (0..N).map(|n| s.neighbors(n, None).count()).collect();
            let inc: Vec<usize> = (0..N).map(|n| s.incoming_neighbors(n, None).count()).collect();
            (out, inc, s.node_property(5, "k"))
        };
        // expected degrees, maintained alongside
        let mut out_deg = vec![0usize; N as usize];
        let mut in_deg = vec![0usize; N as usize];
        {
            let e = GraphEngine::open(&ndb, &wal).map_err(|e| e.to_string())?;
            let mut tx = e.begin_write();
            for i in 0..N as u64 { tx.create_node(100 + i, 0).map_err(|e| e.to_string())?; }
            tx.set_node_property(5, "k".to_string(), nervusdb_api::PropertyValue::String("v".repeat(20000)));
            tx.commit().map_err(|e| e.to_string())?;
            // four rounds: all pairs with one relationship type each, compact after every round
            for round in 0..4u32 {
                let mut tx = e.begin_write();
                for i in 0..N { for j in 0..N { if i != j && (i + j + round) % 2 == 0 { tx.create_edge(i, 10 + round, j); out_deg[i as usize] += 1; in_deg[j as usize] += 1; } } }
                tx.commit().map_err(|e| e.to_string())?;
                e.compact().map_err(|e| format!("compact {round} failed: {e}"))?;
            }
        }
        let before = { let e = GraphEngine::open(&ndb, &wal).map_err(|e| e.to_string())?; dump(&e) };
        if before.0 != out_deg || before.1 != in_deg { return Err("database content wrong before vacuum (not a vacuum problem)".into()); }
        nervusdb_storage::vacuum::vacuum_in_place(&ndb, &wal).map_err(|e| format!("vacuum failed on a database with compacted segments: {e}"))?;
        {
            let e = GraphEngine::open(&ndb, &wal).map_err(|e| format!("open after vacuum failed: {e}"))?;
            let after = dump(&e);
            if before != after { return Err(format!("content changed by vacuum: out-degrees equal={}, in-degrees equal={}, property equal={}", before.0 == after.0, before.1 == after.1, before.2 == after.2)); }
            // keep using it: another batch, another compaction
            let mut tx = e.begin_write();
            let n = tx.create_node(999, 0).map_err(|e| e.to_string())?;
            for j in 0..N { tx.create_edge(n, 3, j); in_deg[j as usize] += 1; }
            tx.set_node_property(7, "big".to_string(), nervusdb_api::PropertyValue::String("w".repeat(30000)));
            tx.commit().map_err(|e| format!("write after vacuum failed: {e}"))?;
            e.compact().map_err(|e| format!("compact after vacuum failed: {e}"))?;
        }
        let e = GraphEngine::open(&ndb, &wal).map_err(|e| format!("reopen after post-vacuum write and compaction failed: {e}"))?;
        let again = dump(&e);
        if again.0 != out_deg || again.1 != in_deg || again.2 != before.2 {
            return Err(format!("content wrong after post-vacuum writes and reopen: out-degrees equal={}, in-degrees equal={}, property equal={}", again.0 == out_deg, again.1 == in_deg, again.2 == before.2));
        }
        if e.snapshot().node_property(7, "big") != Some(nervusdb_api::PropertyValue::String("w".repeat(30000))) { return Err("property written after vacuum reads back wrong".into()); }
        Ok(())
    });
    let _ = std::fs::remove_dir_all(&d);
    match r {
        Ok(Ok(())) => { println!("conforms: vacuum of a four-times-compacted database kept edges (both directions) and a multi-page property, and the database stayed usable (write, compact, reopen)"); 0 }
        Ok(Err(e)) => { println!("VIOLATION reproduced: {e}"); 1 }
        Err(_) => { println!("VIOLATION reproduced: panic"); 1 }
    }
}

/// Witness class for C28 (bounded): indexes and vectors.  Two indexes created before the data, a third after a
/// compaction, 300 labelled nodes with a string and an integer property each, 40 vectors; two compactions.  The
/// database is closed, vacuumed and reopened: index lookups for a sample of values, the vector search results for
/// three queries, labels and external ids must be what they were; then it is written to, compacted and reopened again.
fn c28_vacuum_indexes() -> i32 {
    use nervusdb_api::{GraphSnapshot, GraphStore, PropertyValue as V};
    let d = tmpdir("c28-idx");
    let ndb = d.join("t.ndb");
    let wal = d.join("t.wal");
    const N: u32 = 300;
    let name = |i: u32| format!("person-{:04}-{}", i, "x".repeat((i % 7) as usize * 30));
    let r = std::panic::catch_unwind(|| -> Result<(), String> {
        type Dump = (Vec<Option<Vec<u32>>>, Vec<Option<Vec<u32>>>, Vec<Option<Vec<u32>>>, Vec<Vec<(u32, u32)>>, Vec<Option<u64>>);
        let dump = |e: &GraphEngine, ids: &Vec<u32>| -> Result<Dump, String> {
            let s = e.snapshot();
            let norm = |v: Option<Vec<u32>>| v.map(|mut x| { x.sort(); x });
            let by_name: Vec<Option<Vec<u32>>> = (0..N).step_by(7).map(|i| norm(s.lookup_index("Person", "name", &V::String(name(i))))).collect();
            let by_age: Vec<Option<Vec<u32>>> = (0..40i64).map(|a| norm(s.lookup_index("Person", "age", &V::Int(a)))).collect();
            let by_city: Vec<Option<Vec<u32>>> = (0..5u32).map(|c| norm(s.lookup_index("Person", "city", &V::String(format!("city-{c}"))))).collect();
            let mut vec_hits = Vec::new();
            for q in [[0.0f32, 0.0, 0.0, 0.0], [10.0, 1.0, 0.0, 3.0], [39.0, 3.0, 1.0, 9.0]] {
                let hits = e.search_vector(&q, 5).map_err(|e| format!("search_vector failed: {e}"))?;
                vec_hits.push(hits.into_iter().map(|(id, dist)| (id, dist.to_bits())).collect());
            }
            let ext: Vec<Option<u64>> = ids.iter().map(|id| s.resolve_external(*id)).collect();
            Ok((by_name, by_age, by_city, vec_hits, ext))
        };
        let mut ids: Vec<u32> = Vec::new();
        {
            let e = GraphEngine::open(&ndb, &wal).map_err(|e| e.to_string())?;
            let label = e.get_or_create_label("Person").map_err(|e| e.to_string())?;
            e.create_index("Person", "name").map_err(|e| e.to_string())?;
            e.create_index("Person", "age").map_err(|e| e.to_string())?;
            let mut tx = e.begin_write();
            for i in 0..N { ids.push(tx.create_node(70_000 + i as u64, label).map_err(|e| e.to_string())?); }
            for i in 0..N {
                tx.set_node_property(ids[i as usize], "name".to_string(), V::String(name(i)));
                tx.set_node_property(ids[i as usize], "age".to_string(), V::Int((i % 40) as i64));
                tx.create_edge(ids[i as usize], 4, ids[((i + 1) % N) as usize]);
            }
            tx.commit().map_err(|e| e.to_string())?;
            e.compact().map_err(|e| format!("compact failed: {e}"))?;
            e.create_index("Person", "city").map_err(|e| e.to_string())?;
            let mut tx = e.begin_write();
            for i in 0..N { if i % 3 == 0 { tx.set_node_property(ids[i as usize], "city".to_string(), V::String(format!("city-{}", i % 5))); } }
            tx.commit().map_err(|e| e.to_string())?;
            for i in 0..40u32 { e.insert_vector(ids[i as usize], vec![i as f32, (i % 4) as f32, (i % 2) as f32, (i % 10) as f32]).map_err(|e| format!("insert_vector failed: {e}"))?; }
            e.compact().map_err(|e| format!("second compact failed: {e}"))?;
        }
        let before = { let e = GraphEngine::open(&ndb, &wal).map_err(|e| e.to_string())?; dump(&e, &ids)? };
        if before.0.iter().all(|x| x.as_ref().map(|v| v.is_empty()).unwrap_or(true)) { return Err("index lookups return nothing before the vacuum (scenario does not exercise the indexes)".into()); }
        nervusdb_storage::vacuum::vacuum_in_place(&ndb, &wal).map_err(|e| format!("vacuum failed on a database with three indexes and vectors: {e}"))?;
        {
            let e = GraphEngine::open(&ndb, &wal).map_err(|e| format!("open after vacuum failed: {e}"))?;
            let after = dump(&e, &ids)?;
            if before != after {
                return Err(format!("content changed by vacuum: index name equal={}, index age equal={}, index city (created after a compaction) equal={}, vector search equal={}, external ids equal={}",
                    before.0 == after.0, before.1 == after.1, before.2 == after.2, before.3 == after.3, before.4 == after.4));
            }
            let label = e.get_or_create_label("Person").map_err(|e| e.to_string())?;
            let mut tx = e.begin_write();
            let extra = tx.create_node(99_999, label).map_err(|e| format!("create_node after vacuum failed: {e}"))?;
            tx.set_node_property(extra, "name".to_string(), V::String("after-vacuum".into()));
            tx.commit().map_err(|e| format!("commit after vacuum failed: {e}"))?;
            e.compact().map_err(|e| format!("compact after vacuum failed: {e}"))?;
        }
        let e = GraphEngine::open(&ndb, &wal).map_err(|e| format!("reopen after post-vacuum write failed: {e}"))?;
        let again = dump(&e, &ids)?;
        if again != before { return Err("content of the old nodes changed after a post-vacuum write, compaction and reopen".into()); }
        let s = e.snapshot();
        match s.lookup_index("Person", "name", &V::String("after-vacuum".into())) { Some(v) if v.len() == 1 => {} other => return Err(format!("node written after the vacuum is not found through the index: {:?}", other)) }
        Ok(())
    });
    let _ = std::fs::remove_dir_all(&d);
    match r {
        Ok(Ok(())) => { println!("conforms: vacuum kept three indexes (one created after a compaction), 40 vectors and their search results, labels and external ids; the database stayed usable"); 0 }
        Ok(Err(e)) => { println!("VIOLATION reproduced: {e}"); 1 }
        Err(_) => { println!("VIOLATION reproduced: panic"); 1 }
    }
}

/// Witness class for C28 (bounded): databases that need something specific from the marker and the copy.
/// (a) node count an exact multiple of the records per node-table page, never compacted; (b) the same after a
/// compaction that relocated the table; (c) a property B-tree with three levels (long property names), several
/// hundred properties (a long run of consecutive live pages) and a ring of edges, compacted.  Each is vacuumed,
/// reopened and compared with what was written.
fn c28_vacuum_large() -> i32 {
    use nervusdb_api::{GraphSnapshot, GraphStore, PropertyValue as V};
    let run = |what: &'static str, nodes: u32, compact_at: Option<u32>, long_fields: u32, long_nodes: u32, short_props: u32| -> Result<(), String> {
        let d = tmpdir("c28-large");
        let ndb = d.join("t.ndb");
        let wal = d.join("t.wal");
        let name = |f: u32| format!("field_{f:02}_{}", "n".repeat(990));
        let res = (|| -> Result<(), String> {
            let mut ids: Vec<u32> = Vec::new();
            {
                let e = GraphEngine::open(&ndb, &wal).map_err(|e| e.to_string())?;
                let mut made = 0u32;
                while made < nodes {
                    let upto = match compact_at { Some(c) if made < c => c.min(nodes), _ => nodes };
                    let mut tx = e.begin_write();
                    for n in made..upto { ids.push(tx.create_node(1000 + n as u64, 1).map_err(|e| e.to_string())?); }
                    tx.commit().map_err(|e| e.to_string())?;
                    made = upto;
                    if compact_at == Some(made) { e.compact().map_err(|e| format!("{what}: compact failed: {e}"))?; }
                }
                let mut tx = e.begin_write();
                for n in 0..long_nodes.min(nodes) { for f in 0..long_fields { tx.set_node_property(ids[n as usize], name(f), V::Int(n as i64 * 1000 + f as i64)); } }
                for p in 0..short_props { tx.set_node_property(ids[(p % nodes) as usize], format!("p{p}"), V::String(format!("value-{p}"))); }
                if long_fields > 0 { for n in 0..nodes.min(64) { tx.create_edge(ids[n as usize], 7, ids[((n + 1) % nodes.min(64)) as usize]); } }
                tx.commit().map_err(|e| e.to_string())?;
                if long_fields > 0 || short_props > 0 { e.compact().map_err(|e| format!("{what}: compact failed: {e}"))?; }
            }
            nervusdb_storage::vacuum::vacuum_in_place(&ndb, &wal).map_err(|e| format!("{what}: vacuum failed: {e}"))?;
            let e = GraphEngine::open(&ndb, &wal).map_err(|e| format!("{what}: open after vacuum failed: {e}"))?;
            let s = e.snapshot();
            let mut bad = 0usize; let mut total = 0usize; let mut first = String::new();
            for n in 0..long_nodes.min(nodes) { for f in 0..long_fields {
                total += 1;
                let got = s.node_property(ids[n as usize], &name(f));
                if got != Some(V::Int(n as i64 * 1000 + f as i64)) { bad += 1; if first.is_empty() { first = format!("node {n} long field {f}: {:?}", got); } }
            } }
            for p in 0..short_props {
                total += 1;
                let got = s.node_property(ids[(p % nodes) as usize], &format!("p{p}"));
                if got != Some(V::String(format!("value-{p}"))) { bad += 1; if first.is_empty() { first = format!("property p{p}: {:?}", got); } }
            }
            if bad > 0 { return Err(format!("{what}: {bad} of {total} properties changed or vanished across the vacuum (first: {first})")); }
            if long_fields > 0 {
                let m = nodes.min(64);
                for n in 0..m {
                    let out: Vec<u32> = s.neighbors(ids[n as usize], None).map(|e| e.dst).collect();
                    let inc = s.incoming_neighbors(ids[n as usize], None).count();
                    if out != vec![ids[((n + 1) % m) as usize]] || inc != 1 { return Err(format!("{what}: edges of node {n} changed across the vacuum (out {:?}, {inc} incoming)", out)); }
                }
            }
            // every node is still there
            let mut tx = e.begin_write();
            let extra = tx.create_node(9_000_000, 1).map_err(|e| format!("{what}: create_node after vacuum failed: {e}"))?;
            tx.commit().map_err(|e| format!("{what}: commit after vacuum failed: {e}"))?;
            if extra != nodes { return Err(format!("{what}: the node created after the vacuum got id {extra}, {nodes} nodes were stored")); }
            Ok(())
        })();
        let _ = std::fs::remove_dir_all(&d);
        res
    };
    let r = std::panic::catch_unwind(|| -> Result<(), String> {
        run("512 nodes, never compacted", 512, None, 0, 0, 0)?;
        run("1024 nodes, node table relocated by a compaction at 100 nodes", 1024, Some(100), 0, 0, 40)?;
        run("three-level property tree, 500 short properties, edge ring", 48, None, 5, 48, 500)?;
        Ok(())
    });
    match r {
        Ok(Ok(())) => { println!("conforms: vacuum kept node tables of 512 and 1024 records, a three-level property tree, 500 properties and an edge ring"); 0 }
        Ok(Err(e)) => { println!("VIOLATION reproduced: {e}"); 1 }
        Err(_) => { println!("VIOLATION reproduced: panic"); 1 }
    }
}

/// Witness class for C26: random insert/delete/lookup sequences over a small key alphabet with large
/// keys (long runs of equal keys, many leaf and internal splits), checked against a reference multimap
/// after every step.  `seed` and `steps` bound the search; this is a witness generator, not a proof.
fn c26_multimap(seed: u64, steps: usize, alphabet: u64, key_len: usize) -> i32 {
    use nervusdb_storage::index::btree::BTree;
    use nervusdb_storage::pager::Pager;
    let d = tmpdir("c26-multimap");
    let ndb = d.join("t.ndb");
    let mut rng = seed.wrapping_mul(0x9E3779B97F4A7C15) | 1;
    let mut next = move || { rng ^= rng << 13; rng ^= rng >> 7; rng ^= rng << 17; rng };
    let r = std::panic::catch_unwind(move || -> Result<usize, String> {
        let mut pager = Pager::open(&ndb).map_err(|e| e.to_string())?;
        let mut tree = BTree::create(&mut pager).map_err(|e| e.to_string())?;
        // reference: per key, payloads in insertion order (last = newest)
        let mut model: std::collections::BTreeMap<Vec<u8>, Vec<u64>> = std::collections::BTreeMap::new();
        // key_len == 0: mixed sizes - the length depends on the key, from 8 bytes to over a third of a page
        let mk = |a: u64| { let len = if key_len == 0 { [8usize, 12, 2000, 30, 1500, 9, 700, 2900, 10, 16, 11, 2400][(a % 12) as usize] } else { key_len }; let mut k = vec![b'k'; len]; k[0..8].copy_from_slice(&a.wrapping_mul(0x9E3779B97F4A7C15).to_be_bytes()); k };
        let mut payload = 0u64;
        for step in 0..steps {
            let a = next() % alphabet;
            let k = mk(a);
            let op = next() % 10;
            if op < 6 {
                payload += 1;
                tree.insert(&mut pager, &k, payload).map_err(|e| format!("step {step}: insert failed: {e}"))?;
                model.entry(k.clone()).or_default().push(payload);
            } else if op < 9 {
                // delete a stored pair (random position of the run) or a missing one
                let stored = model.get(&k).cloned().unwrap_or_default();
                let (p, present) = if !stored.is_empty() && next() % 4 != 0 { (stored[(next() % stored.len() as u64) as usize], true) } else { (u64::MAX - 5, false) };
                let got = tree.delete(&mut pager, &k, p).map_err(|e| format!("step {step}: delete failed: {e}"))?;
                if got != present { return Err(format!("step {step}: delete(key {a}, payload {p}) returned {got} but the pair was {}stored (run of {} equal keys)", if present { "" } else { "not " }, stored.len())); }
                if present { let v = model.get_mut(&k).unwrap(); let i = v.iter().position(|x| *x == p).unwrap(); v.remove(i); if v.is_empty() { model.remove(&k); } }
            } else {
                // lookup: first entry at lower bound must be the newest payload of that key
                let mut cur = tree.cursor_lower_bound(&pager, &k).map_err(|e| e.to_string())?;
                let want = model.get(&k).and_then(|v| v.last().copied());
                let got = if cur.is_valid().map_err(|e| e.to_string())? && cur.key().map_err(|e| e.to_string())? == k { Some(cur.payload().map_err(|e| e.to_string())?) } else { None };
                if got != want { return Err(format!("step {step}: lookup(key {a}) returned payload {:?}, the most recently inserted is {:?} (run of {} equal keys)", got, want, model.get(&k).map(|v| v.len()).unwrap_or(0))); }
            }
            // full scan == model (keys ascending; as a multiset per key)
            if step % 7 == 0 || step + 1 == steps {
                let mut cur = tree.cursor_lower_bound(&pager, &[]).map_err(|e| e.to_string())?;
                let mut got: Vec<(Vec<u8>, u64)> = Vec::new();
                while cur.is_valid().map_err(|e| e.to_string())? {
                    got.push((cur.key().map_err(|e| e.to_string())?, cur.payload().map_err(|e| e.to_string())?));
                    if !cur.advance().map_err(|e| e.to_string())? { break; }
                }
                let keys_sorted = got.windows(2).all(|w| w[0].0 <= w[1].0);
                let mut want: Vec<(Vec<u8>, u64)> = model.iter().flat_map(|(k, v)| v.iter().map(move |p| (k.clone(), *p))).collect();
                let mut g2 = got.clone(); g2.sort(); want.sort();
                if !keys_sorted || g2 != want {
                    let per_key = |v: &Vec<(Vec<u8>, u64)>| -> Vec<(u64, usize)> { let mut m: std::collections::BTreeMap<u64, usize> = Default::default(); for (k, _) in v { *m.entry(u64::from_be_bytes(k[0..8].try_into().unwrap())).or_default() += 1; } m.into_iter().collect() };
                    return Err(format!("step {step}: scan returned {} entries (keys in order: {keys_sorted}), the reference multimap holds {}; entries per key: scan {:?}, reference {:?}", got.len(), want.len(), per_key(&got), per_key(&want)));
                }
            }
        }
        Ok(steps)
    });
    let _ = std::fs::remove_dir_all(&d);
    match r {
        Ok(Ok(n)) => { println!("conforms: {n} random operations (seed {seed}, {alphabet} keys of {}) agree with the reference multimap", if key_len == 0 { "8 to 2900 bytes".to_string() } else { format!("{key_len} bytes") }); 0 }
        Ok(Err(e)) => { println!("VIOLATION reproduced: seed {seed}, alphabet {alphabet}, key length {key_len}: {e}"); 1 }
        Err(_) => { println!("VIOLATION reproduced: seed {seed}: panic"); 1 }
    }
}
/// Witness class for C26: entries of very different sizes in one page.  Two fixed histories (a page
/// whose large entries all sit in one half, at leaf level and at internal level) and random histories
/// with mixed key sizes, each checked against the reference multimap.
fn c26_mixed_sizes(seeds: u64, steps: usize) -> i32 {
    use nervusdb_storage::index::btree::BTree;
    use nervusdb_storage::pager::Pager;
    fn key(prefix: u8, n: usize, len: usize) -> Vec<u8> { let mut k = vec![prefix; len]; k[len - 2] = (n >> 8) as u8; k[len - 1] = n as u8; k }
    fn scan(t: &BTree, pager: &Pager) -> Result<Vec<(Vec<u8>, u64)>, String> {
        let mut c = t.cursor_lower_bound(pager, b"").map_err(|e| e.to_string())?;
        let mut out = vec![];
        while c.is_valid().map_err(|e| e.to_string())? { out.push((c.key().map_err(|e| e.to_string())?, c.payload().map_err(|e| e.to_string())?)); if !c.advance().map_err(|e| e.to_string())? { break; } }
        Ok(out)
    }
    // history: (keys to insert in order); every insert must succeed and the scan must equal the sorted model
    let histories: Vec<(&str, Vec<Vec<u8>>)> = vec![
        ("leaf with three 2000-byte keys in front of 150 two-byte keys, then a fourth 2000-byte key in front", {
            let mut h: Vec<Vec<u8>> = (0..3).map(|i| key(b'b', i, 2000)).collect();
            h.extend((0..150).map(|i| key(b'z', i, 2)));
            h.push(key(b'a', 0, 2000));
            h }),
        ("root with three 2000-byte separators in front of short ones, then a split of the first leaf, then key 'ab'", {
            let mut h: Vec<Vec<u8>> = (0..9).map(|i| key(b'b', i, 2000)).collect();
            h.extend((0..2000usize).map(|i| vec![b'z', (i >> 16) as u8, (i >> 8) as u8, i as u8]));
            h.extend((0..6).map(|i| key(b'a', i, 2000)));
            h.push(b"ab".to_vec());
            h }),
    ];
    for (what, h) in histories {
        let d = tmpdir("c26-mixed");
        let ndb = d.join("t.ndb");
        let r = std::panic::catch_unwind(move || -> Result<usize, String> {
            let mut pager = Pager::open(&ndb).map_err(|e| e.to_string())?;
            let mut t = BTree::create(&mut pager).map_err(|e| e.to_string())?;
            let mut model: Vec<(Vec<u8>, u64)> = vec![];
            for (i, k) in h.iter().enumerate() {
                t.insert(&mut pager, k, i as u64).map_err(|e| format!("insert #{i} (key of {} bytes) failed: {e}", k.len()))?;
                model.push((k.clone(), i as u64));
            }
            model.sort();
            let mut got = scan(&t, &pager)?;
            if !got.windows(2).all(|w| w[0].0 <= w[1].0) { return Err(format!("scan is not in key order ({} entries)", got.len())); }
            got.sort();
            if got != model { return Err(format!("scan returned {} entries, {} were inserted", got.len(), model.len())); }
            Ok(model.len())
        });
        let _ = std::fs::remove_dir_all(&d);
        match r {
            Ok(Ok(n)) => println!("conforms: {what}: {n} entries, scan equals the inserted pairs in key order"),
            Ok(Err(e)) => { println!("VIOLATION reproduced: {what}: {e}"); return 1; }
            Err(_) => { println!("VIOLATION reproduced: {what}: BTree::insert panicked (Page::rebuild_leaf: a half of the split does not fit its page)"); return 1; }
        }
    }
    for seed in 1..=seeds {
        for alphabet in [60u64, 700, 4000] {
            if c26_multimap(seed, steps, alphabet, 0) != 0 { return 1; }
        }
    }
    0
}
/// Witness class for C26: leaves emptied by deletes (deletes never merge or unlink pages).  `n` distinct
/// keys of `key_len` bytes; a middle range is deleted, then the lower bound of every key and the scan that
/// follows it are compared with the model; then a prefix is deleted and the scan from the start is compared.
fn gcd(a: usize, b: usize) -> usize { if b == 0 { a } else { gcd(b, a % b) } }
fn c26_empty_leaves(n: usize, key_len: usize) -> i32 {
    use nervusdb_storage::index::btree::BTree;
    use nervusdb_storage::pager::Pager;
    let d = tmpdir("c26-empty");
    let ndb = d.join("t.ndb");
    let r = std::panic::catch_unwind(move || -> Result<usize, String> {
        let mut pager = Pager::open(&ndb).map_err(|e| e.to_string())?;
        let mut t = BTree::create(&mut pager).map_err(|e| e.to_string())?;
        let mk = |i: usize| { let mut k = vec![b'k'; key_len]; k[0..8].copy_from_slice(&(i as u64).to_be_bytes()); k };
        let mut live = vec![true; n];
        // insertion order: a fixed permutation (stride coprime to n) so that splits happen all over the tree, not only at its right edge
        let stride = { let mut s = (n * 5 / 8).max(1); while gcd(s, n) != 1 { s += 1; } s };
        for j in 0..n { let i = (j * stride) % n; t.insert(&mut pager, &mk(i), i as u64).map_err(|e| format!("insert {i}: {e}"))?; }
        let mut checks = 0usize;
        // before any delete: a lookup of every stored key finds that key (descent through every internal level)
        for i in 0..n {
            let mut c = t.cursor_lower_bound(&pager, &mk(i)).map_err(|e| e.to_string())?;
            let ok = c.is_valid().map_err(|e| e.to_string())? && c.payload().map_err(|e| e.to_string())? == i as u64;
            if !ok { return Err(format!("lookup of stored key {i} (of {n} keys, {key_len} bytes each) does not land on its entry")); }
            if !t.delete(&mut pager, &mk(i), u64::MAX).map(|b| !b).map_err(|e| e.to_string())? { return Err(format!("delete of a pair that is not stored (key {i}, payload MAX) returned true")); }
            checks += 1;
        }
        for (lo, hi) in [(n / 3, 3 * n / 4), (0, n / 3)] {
            for i in lo..hi {
                if !t.delete(&mut pager, &mk(i), i as u64).map_err(|e| format!("delete {i}: {e}"))? { return Err(format!("delete of stored key {i} returned false")); }
                live[i] = false;
            }
            for from in 0..=n {
                let want: Vec<u64> = (from..n).filter(|i| live[*i]).map(|i| i as u64).collect();
                let start = if from == n { let mut k = mk(n - 1); k.push(0); k } else { mk(from) };
                let mut c = t.cursor_lower_bound(&pager, &start).map_err(|e| e.to_string())?;
                let mut got = vec![];
                while c.is_valid().map_err(|e| e.to_string())? && (n <= 1000 || got.len() < 12) { got.push(c.payload().map_err(|e| e.to_string())?); if !c.advance().map_err(|e| e.to_string())? { break; } }
                let want: Vec<u64> = if n <= 1000 { want } else { want.into_iter().take(12).collect() };
                if got != want { return Err(format!("after deleting keys {lo}..{hi} of {n}: scan from key {from} returned {} entries (first {:?}), {} larger-or-equal entries are stored (first {:?})", got.len(), got.first(), want.len(), want.first())); }
                checks += 1;
            }
        }
        Ok(checks)
    });
    let _ = std::fs::remove_dir_all(&d);
    match r {
        Ok(Ok(c)) => { println!("conforms: {n} keys of {key_len} bytes, ranges deleted so that whole leaves are empty: {c} lower-bound scans agree with the model"); 0 }
        Ok(Err(e)) => { println!("VIOLATION reproduced: {e}"); 1 }
        Err(_) => { println!("VIOLATION reproduced: panic"); 1 }
    }
}
fn c26_multimap_sweep(seeds: u64, steps: usize) -> i32 {
    for seed in 1..=seeds {
        for (alphabet, key_len) in [(3u64, 700usize), (5, 1500), (2, 400), (8, 2000), (40, 16), (12, 1009), (150, 1000), (400, 8)] {
            if c26_multimap(seed, steps, alphabet, key_len) != 0 { return 1; }
        }
    }
    0
}

/// Witness class for C18: random interleavings of blob writes (1..3 pages), blob deletes, B-tree inserts,
/// node creations (crossing the 512-record page boundary, forcing relocations) on one page store; after
/// every step each structure must still read back exactly what was stored in it.  Bounded search.
fn c18_ownership_mix(seeds: u64, steps: usize) -> i32 {
    use nervusdb_storage::blob_store::BlobStore;
    use nervusdb_storage::idmap::IdMap;
    use nervusdb_storage::index::btree::BTree;
    use nervusdb_storage::pager::Pager;
    for seed in 1..=seeds {
        let d = tmpdir("c18-mix");
        let ndb = d.join("t.ndb");
        let mut rng = seed.wrapping_mul(0x9E3779B97F4A7C15) | 1;
        let mut next = move || { rng ^= rng << 13; rng ^= rng >> 7; rng ^= rng << 17; rng };
        let r = std::panic::catch_unwind(move || -> Result<(), String> {
            let mut pager = Pager::open(&ndb).map_err(|e| e.to_string())?;
            let mut idmap = IdMap::load(&mut pager).map_err(|e| e.to_string())?;
            let mut tree = BTree::create(&mut pager).map_err(|e| e.to_string())?;
            let mut blobs: Vec<(u64, Vec<u8>)> = Vec::new();
            let mut keys: Vec<(Vec<u8>, u64)> = Vec::new();
            let mut nodes: u32 = 0;
            for step in 0..steps {
                let what = next() % 10;
                let desc;
                if what < 3 {
                    let len = [5usize, 700, 8182, 8183, 20000, 10000][(next() % 6) as usize];
                    let fill = (next() % 251) as u8;
                    let data: Vec<u8> = (0..len).map(|i| fill.wrapping_add(i as u8)).collect();
                    let id = BlobStore::write(&mut pager, &data).map_err(|e| format!("step {step}: blob write failed: {e}"))?;
                    blobs.push((id, data));
                    desc = format!("wrote a {len}-byte blob at page {id}");
                } else if what < 5 && !blobs.is_empty() {
                    let i = (next() % blobs.len() as u64) as usize;
                    let (id, _) = blobs.remove(i);
                    BlobStore::delete(&mut pager, id).map_err(|e| format!("step {step}: blob delete failed: {e}"))?;
                    desc = format!("deleted the blob at page {id}");
                } else if what < 7 {
                    let mut k = vec![b'k'; 900];
                    let a = next() % 1000;
                    k[0..8].copy_from_slice(&a.to_be_bytes());
                    let p = step as u64 + 1;
                    tree.insert(&mut pager, &k, p).map_err(|e| format!("step {step}: tree insert failed: {e}"))?;
                    keys.push((k, p));
                    desc = "inserted a 900-byte key into the B-tree".to_string();
                } else {
                    let n = [1u32, 40, 300, 600][(next() % 4) as usize];
                    for _ in 0..n {
                        idmap.apply_create_node(&mut pager, 1_000_000 + nodes as u64, 7, nodes).map_err(|e| format!("step {step}: create node {nodes} failed: {e}"))?;
                        nodes += 1;
                    }
                    desc = format!("created {n} nodes (table now holds {nodes})");
                }
                // every structure still holds what was stored in it
                for (id, data) in &blobs {
                    let back = BlobStore::read(&pager, *id).map_err(|e| format!("step {step} ({desc}): blob at page {id} unreadable: {e}"))?;
                    if &back != data { return Err(format!("step {step} ({desc}): blob at page {id} ({} bytes) reads back differently", data.len())); }
                }
                let mut cur = tree.cursor_lower_bound(&pager, &[]).map_err(|e| format!("step {step} ({desc}): tree unreadable: {e}"))?;
                let mut got: Vec<(Vec<u8>, u64)> = Vec::new();
                while cur.is_valid().map_err(|e| format!("step {step} ({desc}): tree unreadable: {e}"))? {
                    got.push((cur.key().map_err(|e| e.to_string())?, cur.payload().map_err(|e| e.to_string())?));
                    if !cur.advance().map_err(|e| format!("step {step} ({desc}): tree unreadable: {e}"))? { break; }
                }
                let mut want = keys.clone(); want.sort(); got.sort();
                if got != want { return Err(format!("step {step} ({desc}): B-tree scan returns {} entries, {} were stored", got.len(), want.len())); }
                if step % 5 == 0 || step + 1 == steps {
                    let mut p2 = Pager::open(&ndb).map_err(|e| e.to_string())?;
                    let m2 = IdMap::load(&mut p2).map_err(|e| format!("step {step} ({desc}): node table unreadable: {e}"))?;
                    if m2.len() != nodes as u64 { return Err(format!("step {step} ({desc}): node table holds {} records, {nodes} were created", m2.len())); }
                    for i in [0u32, 511, 512, 513, 1023, 1024, nodes.saturating_sub(1)] {
                        if i < nodes && m2.lookup(1_000_000 + i as u64) != Some(i) { return Err(format!("step {step} ({desc}): node record {i} reads back wrong")); }
                    }
                }
            }
            Ok(())
        });
        let _ = std::fs::remove_dir_all(&d);
        match r {
            Ok(Ok(())) => {}
            Ok(Err(e)) => { println!("VIOLATION reproduced: seed {seed}: {e}"); return 1; }
            Err(_) => { println!("VIOLATION reproduced: seed {seed}: panic"); return 1; }
        }
    }
    println!("conforms: {seeds} seeds x {steps} interleaved operations, every structure kept its content");
    0
}

/// Witness class for C27: pairwise order / equality / prefix-freedom of encoded keys over a fixed set of
/// awkward values per kind (embedded NULs and 0xFF, tiny and huge floats, boundary integers), and the
/// composite index key.  Bounded search over a dictionary, not a proof.
fn c27_key_samples() -> i32 {
    use nervusdb_storage::index::ordered_key::{encode_index_key, encode_ordered_value};
    use nervusdb_api::PropertyValue as V;
    let ints: Vec<i64> = vec![i64::MIN, i64::MIN + 1, -(1 << 53) - 1, -256, -255, -1, 0, 1, 127, 128, 255, 256, (1 << 53) + 1, i64::MAX - 1, i64::MAX];
    let floats: Vec<f64> = vec![f64::NEG_INFINITY, -1e300, -2.0000000000000004, -2.0, -1.0000000000000002, -1.0, -1e-17, -1e-300, -5e-324, -0.0, 0.0, 5e-324, 1e-300, 1e-17, 1.0, 1.0000000000000002, 2.0, 2.0000000000000004, 1e300, f64::INFINITY];
    let bytes: Vec<Vec<u8>> = vec![vec![], vec![0], vec![0, 0], vec![0, 1], vec![0, 0xFF], vec![1], vec![1, 0], vec![0x61], vec![0x61, 0], vec![0x61, 0, 0x78], vec![0x61, 1], vec![0x6B, 0], vec![0x6B, 0x7A], vec![0xFF], vec![0xFF, 0], vec![0xFF, 0xFF]];
    let mut bad: Vec<String> = Vec::new();
    let proper_prefix = |a: &[u8], b: &[u8]| a.len() < b.len() && &b[..a.len()] == a;
    let mut all: Vec<(String, Vec<u8>)> = Vec::new();
    macro_rules! family { ($name:expr, $vals:expr, $mk:expr, $lt:expr, $eq:expr) => {{
        let vals = $vals;
        for a in vals.iter() { for b in vals.iter() {
            let (ea, eb) = (encode_ordered_value(&$mk(a)), encode_ordered_value(&$mk(b)));
            if $lt(a, b) && !(ea < eb) { bad.push(format!("{}: {:?} < {:?} but enc is not smaller", $name, a, b)); }
            if $eq(a, b) != (ea == eb) { bad.push(format!("{}: {:?} = {:?} is {} but enc equality is {}", $name, a, b, $eq(a, b), ea == eb)); }
        } }
        for a in vals.iter() { all.push((format!("{} {:?}", $name, a), encode_ordered_value(&$mk(a)))); }
    }}; }
    family!("Int", &ints, |x: &i64| V::Int(*x), |a: &i64, b: &i64| a < b, |a: &i64, b: &i64| a == b);
    family!("DateTime", &ints, |x: &i64| V::DateTime(*x), |a: &i64, b: &i64| a < b, |a: &i64, b: &i64| a == b);
    family!("Float", &floats, |x: &f64| V::Float(*x), |a: &f64, b: &f64| a < b, |a: &f64, b: &f64| a == b);
    family!("Blob", &bytes, |x: &Vec<u8>| V::Blob(x.clone()), |a: &Vec<u8>, b: &Vec<u8>| a < b, |a: &Vec<u8>, b: &Vec<u8>| a == b);
    let strs: Vec<String> = bytes.iter().filter_map(|b| String::from_utf8(b.clone()).ok()).collect();
    family!("String", &strs, |x: &String| V::String(x.clone()), |a: &String, b: &String| a.as_bytes() < b.as_bytes(), |a: &String, b: &String| a == b);
    family!("Bool", &vec![false, true], |x: &bool| V::Bool(*x), |a: &bool, b: &bool| a < b, |a: &bool, b: &bool| a == b);
    all.push(("Null".into(), encode_ordered_value(&V::Null)));
    for (na, ea) in &all { for (nb, eb) in &all { if proper_prefix(ea, eb) { bad.push(format!("enc({na}) is a proper prefix of enc({nb})")); } } }
    for (i, a) in strs.iter().enumerate() { for b in strs.iter().skip(i + 1) {
        for (na, nb) in [(u64::MAX, 0u64), (0, u64::MAX), (0xFF00_0000_0000_0000, 1)] {
            let (ka, kb) = (encode_index_key(7, &V::String(a.clone()), na), encode_index_key(7, &V::String(b.clone()), nb));
            if (a.as_bytes() < b.as_bytes()) != (ka < kb) { bad.push(format!("index key order of {:?}/{na:#x} vs {:?}/{nb:#x} does not follow the values", a, b)); }
        }
    } }
    if bad.is_empty() { println!("conforms: {} encoded values pairwise ordered, distinct and prefix-free", all.len()); 0 }
    else { println!("VIOLATION reproduced: {} ({} violations in all)", bad[0], bad.len()); 1 }
}

/// C25 stand-in for native stack depth (no verifier here has a stack model): decoding must return a value
/// or an error, not abort the process.  Run in a child process so that the abort can be observed.
fn c25_deep_nesting_child() -> i32 {
    let mut bytes: Vec<u8> = Vec::with_capacity(1_000_001);
    for _ in 0..200_000 { bytes.extend_from_slice(&[7, 1, 0, 0, 0]); }
    bytes.push(0);
    // a thread with the default 2 MiB stack, like any worker thread of an embedding application
    let h = std::thread::spawn(move || { let r = nervusdb_api::PropertyValue::decode(&bytes); let ok = r.is_ok(); std::mem::forget(r); ok });
    match h.join() { Ok(ok) => { println!("decode returned {}", if ok { "Ok" } else { "Err" }); 0 } Err(_) => 3 }
}
/// Witness class for C25 (bounded, not a proof): a corpus of values of every kind; each encoding is decoded
/// after being cut at every length and after every single byte was replaced by 0x00 / 0xFF / flipped in its top
/// bit.  Decoding must return a value or an error (never panic), and the uncut encoding must decode to a value
/// that encodes to the same bytes.
fn c25_prefix_sweep() -> i32 {
    use nervusdb_api::PropertyValue as V;
    use std::collections::BTreeMap;
    let mut m1 = BTreeMap::new();
    m1.insert("k".to_string(), V::Int(7)); m1.insert("name".to_string(), V::String("x".repeat(40))); m1.insert("t".to_string(), V::DateTime(-1));
    let mut m2 = BTreeMap::new();
    m2.insert("inner".to_string(), V::Map(m1.clone())); m2.insert("l".to_string(), V::List(vec![V::Float(1.5), V::Null, V::Blob(vec![1, 2, 3])]));
    let corpus: Vec<V> = vec![
        V::Null, V::Bool(true), V::Bool(false), V::Int(0), V::Int(i64::MIN), V::Int(i64::MAX), V::Int(-2),
        V::Float(0.0), V::Float(-0.0), V::Float(f64::NAN), V::Float(f64::INFINITY), V::Float(1.0e-310), V::Float(-123.456),
        V::String(String::new()), V::String("a".into()), V::String("h\u{e9}llo \u{1F600}".into()), V::String("z".repeat(300)),
        V::DateTime(0), V::DateTime(i64::MAX), V::DateTime(1_700_000_000_000_000),
        V::Blob(vec![]), V::Blob(vec![0xFF; 9]), V::Blob((0..=255u8).collect()),
        V::List(vec![]), V::List(vec![V::Int(1)]), V::List(vec![V::DateTime(5)]), V::List(vec![V::Float(2.0), V::String("s".into()), V::Bool(true)]),
        V::List(vec![V::List(vec![V::List(vec![V::Int(3), V::Null])]), V::Blob(vec![7; 20])]),
        V::Map(BTreeMap::new()), V::Map(m1.clone()), V::Map(m2.clone()),
        // maps: empty key, keys of 255 / 256 bytes, non-ASCII keys, keys that differ only in length, every value kind, maps inside lists inside maps
        V::Map([(String::new(), V::Null), ("a".to_string(), V::Bool(true)), ("aa".to_string(), V::Float(-0.0)), ("\u{e9}".to_string(), V::Blob(vec![0, 255]))].into_iter().collect()),
        V::Map([("k".repeat(255), V::Int(1)), ("k".repeat(256), V::Int(2)), ("z".to_string(), V::DateTime(3))].into_iter().collect()),
        V::Map([("outer".to_string(), V::List(vec![V::Map(m1.clone()), V::List(vec![V::Map(m2.clone())]), V::String("tail".into())]))].into_iter().collect()),
        V::List(vec![V::Map(m1), V::Map(BTreeMap::new()), V::Map(m2)]),
    ];
    let mut n = 0usize;
    for v in &corpus {
        let enc = v.encode();
        let whole = std::panic::catch_unwind(|| V::decode(&enc).map(|d| (d.encode(), format!("{:?}", d))));
        match whole {
            Ok(Ok((e2, shown))) if e2 == enc && shown == format!("{:?}", v) => {}
            Ok(Ok((_, shown))) => { println!("VIOLATION reproduced: decode(encode(v)) is {} for v = {:?}", shown, v); return 1; }
            Ok(Err(e)) => { println!("VIOLATION reproduced: decode(encode(v)) failed with {:?} for v = {:?}", e, v); return 1; }
            Err(_) => { println!("VIOLATION reproduced: decode(encode(v)) panicked for v = {:?}", v); return 1; }
        }
        for cut in 0..enc.len() {
            let b = enc[..cut].to_vec();
            if std::panic::catch_unwind(|| { let _ = V::decode(&b); }).is_err() {
                println!("VIOLATION reproduced: PropertyValue::decode panicked on the first {cut} of the {} bytes of the encoding of {:?}: input {:02x?}", enc.len(), v, b); return 1;
            }
            n += 1;
        }
        for pos in 0..enc.len() {
            for f in 0..3 {
                let mut b = enc.clone();
                b[pos] = match f { 0 => 0x00, 1 => 0xFF, _ => b[pos] ^ 0x80 };
                if std::panic::catch_unwind(|| { let _ = V::decode(&b); }).is_err() {
                    println!("VIOLATION reproduced: PropertyValue::decode panicked on the encoding of {:?} with byte {pos} set to {:#04x}: input {:02x?}", v, b[pos], b); return 1;
                }
                n += 1;
            }
        }
    }
    println!("conforms: {} values round-trip; {n} cut or corrupted encodings decode to a value or an error without panicking", corpus.len());
    0
}
fn c25_deep_nesting() -> i32 {
    let exe = std::env::current_exe().unwrap();
    let out = std::process::Command::new(exe).arg("c25_deep_nesting_child").output();
    match out {
        Ok(o) if o.status.success() => { println!("conforms: 200000 nested list headers decode without aborting ({})", String::from_utf8_lossy(&o.stdout).trim()); 0 }
        Ok(o) => {
            use std::os::unix::process::ExitStatusExt;
            println!("VIOLATION reproduced: PropertyValue::decode on 1000001 bytes ([07 01 00 00 00] x 200000 ++ [00], i.e. 200000 nested one-element lists) aborts the process instead of returning a value or an error (exit {:?}, signal {:?}: stack overflow in decode_recursive, 5 input bytes per level)", o.status.code(), o.status.signal());
            1
        }
        Err(e) => { println!("could not spawn child: {e}"); 2 }
    }
}

fn main() {
    let a: Vec<String> = std::env::args().collect();
    let code = match a.get(1).map(|s| s.as_str()) {
        Some("wal_manifest_short") => wal_manifest_short(),
        Some("c17_tail_big_len") => c17_tail("big-len", &[0xFF, 0xFF, 0xFF, 0xFF]),
        Some("c17_tail_zero_fill") => c17_tail("zero-fill", &[0u8; 64]),
        Some("c17_tail_garbage") => c17_tail("garbage", &[0x01, 0x02]),
        Some("c17_truncate_every_byte") => c17_truncate_every_byte(),
        Some("c17_commit_after_tail") => c17_commit_after_tail(&[0x01, 0x02]),
        Some("c18_node_table_spill") => c18_node_table_spill(),
        Some("c28_vacuum_large") => c28_vacuum_large(),
        Some("c28_vacuum_indexes") => c28_vacuum_indexes(),
        Some("c25_prefix_sweep") => { std::panic::set_hook(Box::new(|_| {})); c25_prefix_sweep() }
        Some("c25_deep_nesting") => c25_deep_nesting(),
        Some("c25_deep_nesting_child") => c25_deep_nesting_child(),
        Some("c27_key_samples") => c27_key_samples(),
        Some("c18_ownership_mix_quick") => c18_ownership_mix(6, 60),
        Some("c18_ownership_mix_thorough") => c18_ownership_mix(30, 120),
        Some("c26_empty_leaves_quick") => { let mut rc = 0; for (n, l) in [(120usize, 1000usize), (900, 24), (2500, 300)] { if rc == 0 { rc = c26_empty_leaves(n, l); } } rc }
        Some("c26_empty_leaves_thorough") => { let mut rc = 0; for (n, l) in [(120usize, 1000usize), (900, 24), (400, 300), (3000, 16), (60, 2500), (6000, 300), (1500, 1200)] { if rc == 0 { rc = c26_empty_leaves(n, l); } } rc }
        Some("c26_mixed_sizes_quick") => c26_mixed_sizes(2, 1500),
        Some("c26_mixed_sizes_thorough") => c26_mixed_sizes(10, 4000),
        Some("c26_multimap_quick") => c26_multimap_sweep(3, 400),
        Some("c26_multimap_thorough") => c26_multimap_sweep(40, 1500),
        Some("c28_vacuum_after_compact") => c28_vacuum_after_compact(),
        Some("c17_commit_after_tail_shapes") => c17_commit_after_tail_shapes(),
        Some("c17_aborted_then_commit") => c17_aborted_then_commit(),
        _ => { eprintln!("unknown scenario"); 2 }
    };
    std::process::exit(code);
}
