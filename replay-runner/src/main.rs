//! Native replay of verifier findings against the real crates (public API only).
//! usage: replay-runner <scenario> [args]; exit 0 = behaviour conforms, 1 = violation reproduced.
use nervusdb_storage::wal::Wal;
use std::io::Write;

fn frame(body: &[u8]) -> Vec<u8> {
    let mut h = crc32fast::Hasher::new();
    h.update(body);
    let crc = h.finalize();
    let mut out = Vec::new();
    out.extend_from_slice(&(body.len() as u32).to_le_bytes());
    out.extend_from_slice(&crc.to_le_bytes());
    out.extend_from_slice(body);
    out
}

fn tmpdir(name: &str) -> std::path::PathBuf {
    let d = std::env::temp_dir().join(format!("nervus-replay-{}-{}", name, std::process::id()));
    let _ = std::fs::remove_dir_all(&d);
    std::fs::create_dir_all(&d).unwrap();
    d
}

/// C25.wal.decode_body.total: a ManifestSwitch body with count = 1 whose payload is 36..43 bytes long.
fn wal_manifest_short() -> i32 {
    let d = tmpdir("manifest-short");
    let p = d.join("x.wal");
    let mut body = vec![9u8];
    body.extend_from_slice(&7u64.to_le_bytes()); // epoch
    body.extend_from_slice(&1u32.to_le_bytes()); // count = 1
    body.extend_from_slice(&[0u8; 16]); // one segment pointer
    body.extend_from_slice(&[0u8; 8]); // properties_root, but no stats_root
    let mut f = std::fs::File::create(&p).unwrap();
    f.write_all(&frame(&[1, 1, 0, 0, 0, 0, 0, 0, 0])).unwrap(); // BeginTx 1
    f.write_all(&frame(&body)).unwrap();
    drop(f);
    let r = std::panic::catch_unwind(|| Wal::open(&p).unwrap().replay_committed());
    let _ = std::fs::remove_dir_all(&d);
    match r {
        Ok(Ok(_)) => { println!("decoded without error (unexpected but not a panic)"); 0 }
        Ok(Err(e)) => { println!("conforms: decoder returned Err({e})"); 0 }
        Err(_) => { println!("VIOLATION reproduced: decoder panicked on a well-framed 37-byte ManifestSwitch body"); 1 }
    }
}

fn main() {
    let a: Vec<String> = std::env::args().collect();
    let code = match a.get(1).map(|s| s.as_str()) {
        Some("wal_manifest_short") => wal_manifest_short(),
        _ => { eprintln!("unknown scenario"); 2 }
    };
    std::process::exit(code);
}
