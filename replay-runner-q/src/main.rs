//! Native stand-ins for the query-layer functions neither verifier can ingest (the AND/OR/XOR/NOT arms that
//! are inline in evaluate_expression_value; the sort closure of execute_order_by and SKIP/LIMIT), run through
//! the public API of the real crates.  usage: replay-runner-q <scenario>; exit 0 conforms, 1 violation.
use nervusdb::query::Value;
use nervusdb::Db;

fn tmpdir(name: &str) -> std::path::PathBuf {
    let d = std::env::temp_dir().join(format!("nervus-replayq-{}-{}", name, std::process::id()));
    let _ = std::fs::remove_dir_all(&d);
    std::fs::create_dir_all(&d).unwrap();
    d
}

fn run(db: &Db, q: &str) -> Result<Vec<Vec<Value>>, String> {
    let prep = nervusdb::query::prepare(q).map_err(|e| format!("prepare `{q}`: {e}"))?;
    let snap = db.snapshot();
    let rows: Vec<_> = prep.execute_streaming(&snap, &Default::default()).collect::<Result<Vec<_>, _>>().map_err(|e| format!("execute `{q}`: {e}"))?;
    Ok(rows.iter().map(|r| r.columns().iter().map(|(_, v)| v.clone()).collect()).collect())
}
fn one(db: &Db, q: &str) -> Result<Value, String> {
    let rows = run(db, q)?;
    if rows.len() != 1 || rows[0].len() != 1 { return Err(format!("`{q}` returned {} rows", rows.len())); }
    Ok(rows[0][0].clone())
}

// three-valued logic: Some(true) / Some(false) / None = null
type T = Option<bool>;
fn lit(t: T) -> &'static str { match t { Some(true) => "true", Some(false) => "false", None => "null" } }
fn and3(a: T, b: T) -> T { match (a, b) { (Some(false), _) | (_, Some(false)) => Some(false), (Some(true), Some(true)) => Some(true), _ => None } }
fn or3(a: T, b: T) -> T { match (a, b) { (Some(true), _) | (_, Some(true)) => Some(true), (Some(false), Some(false)) => Some(false), _ => None } }
fn xor3(a: T, b: T) -> T { match (a, b) { (Some(x), Some(y)) => Some(x != y), _ => None } }
fn not3(a: T) -> T { a.map(|x| !x) }
fn as_t(v: &Value) -> Result<T, String> { match v { Value::Bool(b) => Ok(Some(*b)), Value::Null => Ok(None), o => Err(format!("non-boolean result {:?}", o)) } }

/// C23 stand-in: the complete AND / OR / XOR / NOT truth tables with null, De Morgan, and null propagation
/// through arithmetic and comparison, through `RETURN <expr>` (exhaustive over {true, false, null}).
fn c23_truth_tables() -> i32 {
    let d = tmpdir("c23");
    let db = match Db::open(d.join("t.ndb")) { Ok(d) => d, Err(e) => { println!("cannot open db: {e}"); return 2; } };
    let vals: [T; 3] = [Some(true), Some(false), None];
    let mut bad: Vec<String> = Vec::new();
    let mut n = 0;
    let mut check = |q: String, want: T, bad: &mut Vec<String>| {
        match one(&db, &q).and_then(|v| as_t(&v)) {
            Ok(got) if got == want => {}
            Ok(got) => bad.push(format!("`{q}` = {} (three-valued logic: {})", lit(got), lit(want))),
            Err(e) => bad.push(e),
        }
    };
    for a in vals {
        check(format!("RETURN NOT {} AS r", lit(a)), not3(a), &mut bad); n += 1;
        check(format!("RETURN NOT (NOT {}) AS r", lit(a)), a, &mut bad); n += 1;
        for b in vals {
            check(format!("RETURN {} AND {} AS r", lit(a), lit(b)), and3(a, b), &mut bad);
            check(format!("RETURN {} OR {} AS r", lit(a), lit(b)), or3(a, b), &mut bad);
            check(format!("RETURN {} XOR {} AS r", lit(a), lit(b)), xor3(a, b), &mut bad);
            check(format!("RETURN NOT ({} AND {}) AS r", lit(a), lit(b)), or3(not3(a), not3(b)), &mut bad);
            check(format!("RETURN NOT ({} OR {}) AS r", lit(a), lit(b)), and3(not3(a), not3(b)), &mut bad);
            check(format!("RETURN (NOT {}) OR (NOT {}) AS r", lit(a), lit(b)), or3(not3(a), not3(b)), &mut bad);
            n += 6;
            for c in vals {
                check(format!("RETURN ({} AND {}) OR {} AS r", lit(a), lit(b), lit(c)), or3(and3(a, b), c), &mut bad);
                check(format!("RETURN {} AND ({} OR {}) AS r", lit(a), lit(b), lit(c)), and3(a, or3(b, c)), &mut bad);
                n += 2;
            }
        }
    }
    // null propagates through arithmetic and comparison
    for q in ["null + 1", "1 + null", "null - 1", "2 * null", "null / 2", "7 % null", "null < 1", "1 <= null", "null > 1.5", "null >= null", "null = 1", "1 <> null", "-null"] {
        match one(&db, &format!("RETURN {q} AS r")) { Ok(Value::Null) => {}, Ok(v) => bad.push(format!("`RETURN {q}` = {:?}, expected null", v)), Err(e) => bad.push(e) }
        n += 1;
    }
    // unary minus
    for (q, want) in [("-(5)", Value::Int(-5)), ("-(-5)", Value::Int(5)), ("-(2.5)", Value::Float(-2.5)), ("- 9223372036854775807", Value::Int(-9223372036854775807))] {
        match one(&db, &format!("RETURN {q} AS r")) { Ok(v) if v == want => {}, Ok(v) => bad.push(format!("`RETURN {q}` = {:?}, expected {:?}", v, want)), Err(e) => bad.push(e) }
        n += 1;
    }
    drop(db);
    let _ = std::fs::remove_dir_all(&d);
    if bad.is_empty() { println!("conforms: {n} expressions over {{true, false, null}} agree with three-valued logic"); 0 }
    else { println!("VIOLATION reproduced: {} ({} of {n} expressions disagree)", bad[0], bad.len()); 1 }
}

/// C20 stand-in: ORDER BY (both directions, one and two keys, with nulls) and every SKIP/LIMIT window of the
/// result, against a reference sort by the documented order, through `UNWIND ... RETURN ... ORDER BY`.
#[derive(Clone, Debug, PartialEq)]
enum K { S(&'static str), B(bool), I(i64), F(f64), N }
fn klit(k: &K) -> String { match k { K::S(s) => format!("'{}'", s), K::B(b) => b.to_string(), K::I(i) => i.to_string(), K::F(f) => format!("{:?}", f), K::N => "null".into() } }
fn rank(k: &K) -> u8 { match k { K::S(_) => 5, K::B(_) => 6, K::I(_) | K::F(_) => 7, K::N => 10 } }
fn kcmp(a: &K, b: &K) -> std::cmp::Ordering {
    use std::cmp::Ordering::*;
    match (a, b) {
        (K::S(x), K::S(y)) => x.cmp(y), (K::B(x), K::B(y)) => x.cmp(y), (K::I(x), K::I(y)) => x.cmp(y),
        (K::F(x), K::F(y)) => x.partial_cmp(y).unwrap_or(Equal),
        (K::I(x), K::F(y)) => (*x as f64).partial_cmp(y).unwrap_or(Equal), (K::F(x), K::I(y)) => x.partial_cmp(&(*y as f64)).unwrap_or(Equal),
        (K::N, K::N) => Equal,
        _ => rank(a).cmp(&rank(b)),
    }
}
fn same(v: &Value, k: &K) -> bool {
    match (v, k) { (Value::String(s), K::S(t)) => s == t, (Value::Bool(a), K::B(b)) => a == b, (Value::Int(a), K::I(b)) => a == b, (Value::Float(a), K::F(b)) => a == b, (Value::Null, K::N) => true, _ => false }
}
fn c20_order_by_slices() -> i32 {
    let d = tmpdir("c20");
    let db = match Db::open(d.join("t.ndb")) { Ok(d) => d, Err(e) => { println!("cannot open db: {e}"); return 2; } };
    let mut bad: Vec<String> = Vec::new();
    let mut n = 0;
    // one key: distinct values of mixed kinds (small numbers: exactly representable)
    let vals = vec![K::I(3), K::N, K::F(2.5), K::S("pear"), K::B(true), K::I(-7), K::S("apple"), K::B(false), K::F(-0.5), K::I(100)];
    let list = format!("[{}]", vals.iter().map(klit).collect::<Vec<_>>().join(", "));
    for desc in [false, true] {
        let mut want = vals.clone();
        want.sort_by(kcmp);
        if desc { want.reverse(); }
        let dir = if desc { " DESC" } else { "" };
        for skip in 0..=vals.len() { for limit in [0usize, 1, 3, vals.len()] {
            let q = format!("UNWIND {list} AS x RETURN x ORDER BY x{dir} SKIP {skip} LIMIT {limit}");
            n += 1;
            match run(&db, &q) {
                Ok(rows) => {
                    let exp: Vec<&K> = want.iter().skip(skip).take(limit).collect();
                    if rows.len() != exp.len() || rows.iter().zip(exp.iter()).any(|(r, k)| !same(&r[0], k)) {
                        bad.push(format!("`ORDER BY x{dir} SKIP {skip} LIMIT {limit}` over {list} returned {:?}, expected {:?}", rows.iter().map(|r| r[0].clone()).collect::<Vec<_>>(), exp));
                    }
                }
                Err(e) => bad.push(e),
            }
        } }
    }
    // two keys, second one descending, with nulls in both (distinct pairs)
    let pairs: Vec<(K, K)> = vec![(K::I(1), K::I(5)), (K::I(1), K::N), (K::I(1), K::I(9)), (K::N, K::I(2)), (K::I(0), K::N), (K::I(0), K::I(4)), (K::N, K::N), (K::I(2), K::S("z"))];
    let plist = format!("[{}]", pairs.iter().map(|(a, b)| format!("{{a: {}, b: {}}}", klit(a), klit(b))).collect::<Vec<_>>().join(", "));
    for (d1, d2) in [(false, true), (true, false), (true, true), (false, false)] {
        let mut want = pairs.clone();
        want.sort_by(|x, y| { let o = kcmp(&x.0, &y.0); let o = if d1 { o.reverse() } else { o }; if o != std::cmp::Ordering::Equal { return o; } let p = kcmp(&x.1, &y.1); if d2 { p.reverse() } else { p } });
        let q = format!("UNWIND {plist} AS m RETURN m.a AS a, m.b AS b ORDER BY a{}, b{}", if d1 { " DESC" } else { "" }, if d2 { " DESC" } else { "" });
        n += 1;
        match run(&db, &q) {
            Ok(rows) => if rows.len() != want.len() || rows.iter().zip(want.iter()).any(|(r, (a, b))| !same(&r[0], a) || !same(&r[1], b)) {
                bad.push(format!("`{q}` returned {:?}, expected {:?}", rows, want));
            },
            Err(e) => bad.push(e),
        }
    }
    // two keys where the first ties in Cypher's order without being the same value (1 and 1.0): the second key decides
    let ties: Vec<(K, K)> = vec![(K::I(1), K::S("b")), (K::F(1.0), K::S("a")), (K::I(0), K::S("z")), (K::F(0.0), K::S("y")), (K::I(1), K::S("c")), (K::F(2.0), K::S("q")), (K::I(2), K::S("p"))];
    let tlist = format!("[{}]", ties.iter().map(|(a, b)| format!("{{a: {}, b: {}}}", klit(a), klit(b))).collect::<Vec<_>>().join(", "));
    for (d1, d2) in [(false, false), (false, true), (true, false)] {
        let mut want = ties.clone();
        want.sort_by(|x, y| { let o = kcmp(&x.0, &y.0); let o = if d1 { o.reverse() } else { o }; if o != std::cmp::Ordering::Equal { return o; } let p = kcmp(&x.1, &y.1); if d2 { p.reverse() } else { p } });
        for (skip, limit) in [(0usize, 7usize), (1, 3), (2, 2)] {
            let q = format!("UNWIND {tlist} AS m RETURN m.a AS a, m.b AS b ORDER BY a{}, b{} SKIP {skip} LIMIT {limit}", if d1 { " DESC" } else { "" }, if d2 { " DESC" } else { "" });
            n += 1;
            match run(&db, &q) {
                Ok(rows) => {
                    let exp: Vec<&K> = want.iter().skip(skip).take(limit).map(|(_, b)| b).collect();
                    if rows.len() != exp.len() || rows.iter().zip(exp.iter()).any(|(r, b)| !same(&r[1], b)) {
                        bad.push(format!("`{q}` returned {:?}, expected {:?}", rows.iter().map(|r| r[1].clone()).collect::<Vec<_>>(), exp));
                    }
                }
                Err(e) => bad.push(e),
            }
        }
    }
    drop(db);
    let _ = std::fs::remove_dir_all(&d);
    if bad.is_empty() { println!("conforms: {n} ORDER BY / SKIP / LIMIT queries agree with the reference sort"); 0 }
    else { println!("VIOLATION reproduced: {} ({} of {n} queries disagree)", bad[0].chars().take(600).collect::<String>(), bad.len()); 1 }
}

/// C23 stand-in (bounded): the laws of the property over a fixed set of literals of every kind - integers at the
/// 64-bit boundaries, floats (both zeros, infinities via 1e308*10), strings, booleans, lists (nested, with a null
/// element, of different lengths), maps (with a null value, with different key sets) and null - evaluated through
/// `RETURN <expr>`.  No expected values are written down: only the laws are checked.  For every pair (a, b):
/// symmetry of =; a < b is b > a; a <= b is b >= a; whenever a < b and a = b are both non-null: a <= b is
/// (a < b OR a = b), a >= b is (a > b OR a = b), and exactly one of a < b, a = b, a > b is true; null propagates
/// through =, <, + ; for every null-free value a = a is true; = is transitive on the null-free values.
fn c23_value_laws() -> i32 {
    let d = tmpdir("c23laws");
    let db = match Db::open(d.join("t.ndb")) { Ok(d) => d, Err(e) => { println!("cannot open db: {e}"); return 2; } };
    // (literal, contains a null somewhere)
    let vals: Vec<(&str, bool)> = vec![
        ("0", false), ("1", false), ("-1", false), ("9223372036854775807", false), ("(-9223372036854775807 - 1)", false), ("9007199254740993", false),
        ("0.0", false), ("-0.0", false), ("1.0", false), ("9007199254740992.0", false), ("9.223372036854775807e18", false), ("(1.0e308 * 10.0)", false), ("(-1.0e308 * 10.0)", false), ("0.5", false),
        ("''", false), ("'a'", false), ("'ab'", false), ("'b'", false), ("'2024-01-01'", false),
        ("true", false), ("false", false),
        ("[]", false), ("[1]", false), ("[1, 2]", false), ("[1, 3]", false), ("[1.0, 2]", false), ("[[1], 'a']", false), ("[1, null]", true), ("[null]", true),
        ("{a: 1}", false), ("{a: 1.0}", false), ("{a: 2}", false), ("{b: 1}", false), ("{a: 1, b: 2}", false), ("{a: null}", true),
        ("null", true),
    ];
    let mut bad: Vec<String> = Vec::new();
    let mut n = 0usize;
    let ev = |e: &str| -> Result<T, String> { one(&db, &format!("RETURN {e} AS r")).and_then(|v| as_t(&v)) };
    let n_vals = vals.len();
    let mut eq = vec![vec![None; n_vals]; n_vals];
    for (i, (a, an)) in vals.iter().enumerate() {
        for (j, (b, bn)) in vals.iter().enumerate() {
            let r = (|| -> Result<(), String> {
                let e = ev(&format!("{a} = {b}"))?; let e2 = ev(&format!("{b} = {a}"))?;
                let lt = ev(&format!("{a} < {b}"))?; let gt = ev(&format!("{a} > {b}"))?; let le = ev(&format!("{a} <= {b}"))?; let ge = ev(&format!("{a} >= {b}"))?;
                let gt_sw = ev(&format!("{b} > {a}"))?; let ge_sw = ev(&format!("{b} >= {a}"))?;
                eq[i][j] = e;
                if e != e2 { return Err(format!("= is not symmetric: {a} = {b} is {}, {b} = {a} is {}", lit(e), lit(e2))); }
                if lt != gt_sw { return Err(format!("{a} < {b} is {} but {b} > {a} is {}", lit(lt), lit(gt_sw))); }
                if le != ge_sw { return Err(format!("{a} <= {b} is {} but {b} >= {a} is {}", lit(le), lit(ge_sw))); }
                if let (Some(l), Some(q), Some(g)) = (lt, e, gt) {
                    if [l, q, g].iter().filter(|x| **x).count() != 1 { return Err(format!("not exactly one of <, =, > holds for {a}, {b}: < {l}, = {q}, > {g}")); }
                    if le != Some(l || q) { return Err(format!("{a} <= {b} is {} but (< OR =) is {}", lit(le), l || q)); }
                    if ge != Some(g || q) { return Err(format!("{a} >= {b} is {} but (> OR =) is {}", lit(ge), g || q)); }
                }
                if *a == "null" || *b == "null" {
                    if e.is_some() || lt.is_some() || le.is_some() || gt.is_some() || ge.is_some() { return Err(format!("null does not propagate through a comparison of {a} and {b}")); }
                }
                if i == j && !an && !bn && e != Some(true) { return Err(format!("{a} = {a} is {}", lit(e))); }
                Ok(())
            })();
            n += 8;
            if let Err(m) = r { bad.push(m); }
        }
    }
    // transitivity of = on the null-free values
    for i in 0..n_vals { for j in 0..n_vals { for k in 0..n_vals {
        if vals[i].1 || vals[j].1 || vals[k].1 { continue; }
        if eq[i][j] == Some(true) && eq[j][k] == Some(true) && eq[i][k] != Some(true) { bad.push(format!("= is not transitive: {} = {} and {} = {} but {} = {} is {}", vals[i].0, vals[j].0, vals[j].0, vals[k].0, vals[i].0, vals[k].0, lit(eq[i][k]))); }
    } } }
    // null through arithmetic; the overflow rule is the same for every operator spelling
    for e in ["null + 1", "1 + null", "null * 2", "null - 1", "1 / null", "null % 2", "-(null)"] {
        n += 1;
        match one(&db, &format!("RETURN {e} AS r")) { Ok(Value::Null) => {} Ok(v) => bad.push(format!("`{e}` is {:?}, not null", v)), Err(m) => bad.push(m) }
    }
    for (e1, e2) in [("9223372036854775807 + 1", "1 + 9223372036854775807"), ("(-9223372036854775807 - 1) - 1", "(-9223372036854775807 - 2)"), ("4611686018427387904 * 2", "2 * 4611686018427387904"), ("9223372036854775807 + 1", "9223372036854775806 + 2"),
                     ("-(-9223372036854775807 - 1)", "0 - (-9223372036854775807 - 1)"), ("-(-9223372036854775807 - 1)", "(-9223372036854775807 - 1) * -1"), ("-(9223372036854775807)", "0 - 9223372036854775807")] {
        n += 1;
        match (one(&db, &format!("RETURN {e1} AS r")), one(&db, &format!("RETURN {e2} AS r"))) {
            (Ok(a), Ok(b)) => if format!("{:?}", a) != format!("{:?}", b) { bad.push(format!("overflow rule differs: `{e1}` is {:?}, `{e2}` is {:?}", a, b)) },
            (a, b) => bad.push(format!("overflowing arithmetic failed: `{e1}` -> {:?}, `{e2}` -> {:?}", a, b)),
        }
    }
    drop(db);
    let _ = std::fs::remove_dir_all(&d);
    if bad.is_empty() { println!("conforms: {n} comparisons and arithmetic expressions over {n_vals} literals of every kind obey the laws"); 0 }
    else { println!("VIOLATION reproduced: {} ({} law instances fail)", bad[0].chars().take(500).collect::<String>(), bad.len()); 1 }
}

/// C20 stand-in (bounded), law based: literals of every kind that ORDER BY has to rank (null, booleans, integers at
/// the 64-bit boundaries next to floats, NaN, infinities, plain and date-like strings, lists of different lengths
/// and with nulls, maps).  Checked: the sorted output does not depend on the input order (three permutations); DESC
/// is the reverse of ASC; every SKIP/LIMIT window is the corresponding slice of the full result; and the order
/// agrees with the comparison operators wherever `a > b` is defined - no element is greater than a later one.
fn c20_order_laws() -> i32 {
    let d = tmpdir("c20laws");
    let db = match Db::open(d.join("t.ndb")) { Ok(d) => d, Err(e) => { println!("cannot open db: {e}"); return 2; } };
    let vals: Vec<&str> = vec!["null", "true", "false", "0", "-1", "9223372036854775807", "(-9223372036854775807 - 1)", "9007199254740993", "9007199254740992.0", "0.5", "-0.5",
        "(0.0 / 0.0)", "(1.0e308 * 10.0)", "(-1.0e308 * 10.0)", "''", "'a'", "'ab'", "'b'", "'2024-01-01'", "'2023-12-31'", "[]", "[1]", "[1, 2]", "[1, 3]", "[2]", "[1, null]", "['a']", "{a: 1}", "{a: 2}", "{b: 1}"];
    let n = vals.len();
    let show = |rows: &Vec<Vec<Value>>| -> Vec<String> { rows.iter().map(|r| format!("{:?}", r[0])).collect() };
    let mut bad: Vec<String> = Vec::new();
    let mut queries = 0usize;
    let list = |order: &Vec<usize>| format!("[{}]", order.iter().map(|i| vals[*i]).collect::<Vec<_>>().join(", "));
    let id: Vec<usize> = (0..n).collect();
    let rev: Vec<usize> = (0..n).rev().collect();
    let rot: Vec<usize> = (0..n).map(|i| (i * 7 + 3) % n).collect();
    let full = match run(&db, &format!("UNWIND {} AS x RETURN x ORDER BY x", list(&id))) { Ok(r) => show(&r), Err(e) => { println!("VIOLATION reproduced: {e}"); return 1; } };
    queries += 1;
    if full.len() != n { bad.push(format!("ORDER BY returned {} of {n} rows", full.len())); }
    for (what, perm) in [("reversed", &rev), ("permuted", &rot)] {
        queries += 1;
        match run(&db, &format!("UNWIND {} AS x RETURN x ORDER BY x", list(perm))) {
            Ok(r) => if show(&r) != full { bad.push(format!("the sorted output depends on the input order: {what} input gives {:?}, the original gives {:?}", show(&r), full)); },
            Err(e) => bad.push(e),
        }
    }
    queries += 1;
    match run(&db, &format!("UNWIND {} AS x RETURN x ORDER BY x DESC", list(&rot))) {
        Ok(r) => { let mut f = full.clone(); f.reverse(); if show(&r) != f { bad.push(format!("ORDER BY x DESC is not the reverse of ORDER BY x: {:?} vs reversed {:?}", show(&r), f)); } }
        Err(e) => bad.push(e),
    }
    for skip in [0usize, 1, 5, n - 1, n, n + 3] { for limit in [0usize, 1, 4, n, n + 10] {
        queries += 1;
        match run(&db, &format!("UNWIND {} AS x RETURN x ORDER BY x SKIP {skip} LIMIT {limit}", list(&rot))) {
            Ok(r) => { let want: Vec<String> = full.iter().skip(skip).take(limit).cloned().collect(); if show(&r) != want { bad.push(format!("SKIP {skip} LIMIT {limit} returned {:?}, rows {skip}.. of the full order are {:?}", show(&r), want)); } }
            Err(e) => bad.push(e),
        }
    } }
    // agreement with `>` wherever it is defined: take the values in sorted order through a second query
    match run(&db, &format!("UNWIND {} AS x WITH x ORDER BY x WITH collect(x) AS s UNWIND range(0, size(s) - 2) AS i UNWIND range(i + 1, size(s) - 1) AS j WITH s[i] AS a, s[j] AS b WHERE a > b RETURN a, b", list(&id))) {
        Ok(r) => { queries += 1; if !r.is_empty() { bad.push(format!("the order contradicts `>`: {:?} is placed before {:?} although it is greater ({} such pairs)", r[0][0], r[0][1], r.len())); } }
        Err(e) => { let _ = e; /* collect/range/list indexing not available in this form: this law is skipped */ }
    }
    drop(db);
    let _ = std::fs::remove_dir_all(&d);
    if bad.is_empty() { println!("conforms: {queries} ORDER BY queries over {n} literals of every kind: order independent of the input order, DESC is the reverse, every SKIP/LIMIT window is a slice, no contradiction with >"); 0 }
    else { println!("VIOLATION reproduced: {} ({} checks fail)", bad[0].chars().take(600).collect::<String>(), bad.len()); 1 }
}

fn main() {
    let a: Vec<String> = std::env::args().collect();
    let code = match a.get(1).map(|s| s.as_str()) {
        Some("c23_truth_tables") => c23_truth_tables(),
        Some("c20_order_by_slices") => c20_order_by_slices(),
        Some("c23_value_laws") => c23_value_laws(),
        Some("c20_order_laws") => c20_order_laws(),
        _ => { eprintln!("unknown scenario"); 2 }
    };
    std::process::exit(code);
}
