#!/usr/bin/env python3
"""tools/mut.py <unit> <repo-rel-file> <old> <new>: copy /repo to a scratch dir, apply one textual mutation, run one Verus unit."""
import sys, os, subprocess, shutil
unit, rel, old, new = sys.argv[1:5]
M = '/var/tmp/nervus-verif/mut'
BASE = __import__('os').environ.get('MUT_BASE', '/repo').rstrip('/') + '/'
subprocess.run(['rsync', '-a', '--delete', '--exclude', 'target', '--exclude', '.git', BASE, M + '/'], check=True)
p = os.path.join(M, rel)
s = open(p).read()
old = old.encode().decode('unicode_escape'); new = new.encode().decode('unicode_escape')
assert s.count(old) >= 1, 'mutation source not found'
open(p, 'w').write(s.replace(old, new, 1))
r = subprocess.run(['python3', '/verif/lib/verus_route.py', unit, M], capture_output=True, text=True)
for ln in r.stdout.split('\n'):
    if ln.startswith(('status', 'verified', '  ERR')):
        print(ln[:230])
