#!/usr/bin/env python3
"""tools/try_harmless.py <n> <PROP>: apply /verif/harmless/<n>/patch.diff (a behaviour-preserving refactor) to /repo, run
./check PROP --tier quick, undo the patch, record the verdict in /verif/harmless/<n>/result.json.  Exit code 1 of the check
(a VIOLATION on code where the property holds) would be a false alarm; 0 (held) and 2 (undecided) are not."""
import json, os, subprocess, sys, time
n, prop = sys.argv[1:3]
patch = '/verif/harmless/%s/patch.diff' % n
assert subprocess.run(['git', '-C', '/repo', 'status', '--porcelain'], capture_output=True, text=True).stdout.strip() == '', '/repo not clean'
subprocess.run(['git', '-C', '/repo', 'apply', patch], check=True)
t0 = time.time()
try:
    r = subprocess.run(['./check', prop, '--tier', 'quick', '--no-evidence'], cwd='/verif', capture_output=True, text=True)
finally:
    subprocess.run(['git', '-C', '/repo', 'checkout', '--', '.'], check=True)
viol = [l for l in r.stdout.split('\n') if l.startswith('VIOLATION')]
res = dict(id=n, property=prop, exit=r.returncode, verdict={0: 'held', 1: 'FALSE ALARM', 2: 'undecided'}.get(r.returncode, '?'), violations=viol,
           wall_s=round(time.time() - t0, 1), stderr_tail=[l[:300] for l in r.stderr.strip().split('\n')[-8:]])
json.dump(res, open('/verif/harmless/%s/result.json' % n, 'w'), indent=1)
print(n, prop, 'exit', r.returncode, res['verdict'], '|', ' ; '.join(viol)[:300])
for l in res['stderr_tail'][-4:]:
    print('   ', l[:220])
