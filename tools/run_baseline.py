#!/usr/bin/env python3
"""Run the repository's own test suite (guard off: nothing of /verif is compiled in) and compare with
/root/.vp/BASELINE.json's stable_pass list.  exit 0 iff every stable test still passes."""
import json, re, subprocess, sys, os
base = json.load(open('/root/.vp/BASELINE.json'))
stable = set(base['stable_pass'])
env = dict(os.environ, CARGO_NET_OFFLINE='true')
p = subprocess.run(['cargo', 'test', '--workspace', '--no-fail-fast', '--offline'], cwd='/repo', env=env,
                   stdout=subprocess.PIPE, stderr=subprocess.STDOUT, text=True)
out = p.stdout
passed, failed = set(), set()
totals = [0, 0]
cur = None
for ln in out.split('\n'):
    m = re.search(r'Running (?:unittests )?(\S+) \(target/debug/deps/([\w\-]+)-[0-9a-f]+\)', ln)
    if m:
        cur = m.group(2)
        continue
    m = re.search(r'Doc-tests (\S+)', ln)
    if m:
        cur = 'doctest:' + m.group(1)
        continue
    if cur and ln.startswith('test '):
        # parallel test threads can interleave: "test a ... test b ... ok" followed by a bare "ok"
        names = re.findall(r'test (.+?) \.\.\. ', ln)
        verdicts = re.findall(r'\.\.\. (ok|FAILED|ignored)', ln)
        for i, nm in enumerate(names):
            v = verdicts[i] if i < len(verdicts) else 'ok?'
            name = cur + '::' + nm
            if v == 'FAILED':
                failed.add(name)
            elif v in ('ok', 'ok?'):
                passed.add(name)
    m = re.match(r'test result: (\w+)\. (\d+) passed; (\d+) failed', ln)
    if m:
        totals[0] += int(m.group(2)); totals[1] += int(m.group(3))
def norm(s):
    return s.replace('-', '_')
pn = {norm(x) for x in passed}
tails = {norm(x).split('::', 1)[1] for x in passed if '::' in x}
def present(x):
    nx = norm(x)
    if nx in pn:
        return True
    t = nx.split('::', 1)[1] if '::' in nx else nx
    if t in tails:
        return True
    # doctest naming differs between nextest and cargo test: match on "(line N)"
    m = re.search(r'\(line \d+\)', x)
    return bool(m and any(m.group(0) in y for y in passed))
missing = sorted(x for x in stable if not present(x))
print('passed=%d failed=%d (cargo totals: %d passed, %d failed) stable=%d stable_missing=%d' % (len(passed), len(failed), totals[0], totals[1], len(stable), len(missing)))
for x in missing[:40]:
    print('  MISSING/FAILED:', x)
for x in sorted(failed)[:20]:
    print('  failed:', x)
flaky = set(base.get('flaky', []))
real_failed = [x for x in failed if x not in flaky]
sys.exit(0 if (not missing and not real_failed and totals[1] <= len(failed)) else 1)
