#!/usr/bin/env python3
"""Run the repository's own test suite (guard off: nothing of /verif is compiled in) and compare with
/root/.vp/BASELINE.json's stable_pass list.  exit 0 iff every stable test still passes."""
import json, re, subprocess, sys, os
base = json.load(open('/root/.vp/BASELINE.json'))
stable = set(base['stable_pass'])
env = dict(os.environ, CARGO_NET_OFFLINE='true')
p = subprocess.run(['cargo', 'test', '--workspace', '--no-fail-fast', '--offline'], cwd='/repo', env=env,
                   stdout=subprocess.PIPE, stderr=subprocess.STDOUT, text=True)
out = p.stdout
passed, failed = set(), set()
cur = None
for ln in out.split('\n'):
    m = re.search(r'Running (?:unittests )?(\S+) \(target/debug/deps/([\w\-]+)-[0-9a-f]+\)', ln)
    if m:
        cur = m.group(2)
        continue
    m = re.search(r'Doc-tests (\S+)', ln)
    if m:
        cur = 'doctest:' + m.group(1)
        continue
    m = re.match(r'test (\S+)(?: - .*)? \.\.\. (ok|FAILED|ignored)', ln)
    if m and cur:
        name = cur + '::' + m.group(1)
        (passed if m.group(2) == 'ok' else failed if m.group(2) == 'FAILED' else set()).add(name)
def norm(s):
    return s.replace('-', '_')
pn = {norm(x) for x in passed}
tails = {norm(x).split('::', 1)[1] for x in passed if '::' in x}
def present(x):
    nx = norm(x)
    if nx in pn:
        return True
    t = nx.split('::', 1)[1] if '::' in nx else nx
    if t in tails:
        return True
    # doctest naming differs between nextest and cargo test: match on "(line N)"
    m = re.search(r'\(line \d+\)', x)
    return bool(m and any(m.group(0) in y for y in passed))
missing = sorted(x for x in stable if not present(x))
print('passed=%d failed=%d stable=%d stable_missing=%d' % (len(passed), len(failed), len(stable), len(missing)))
for x in missing[:40]:
    print('  MISSING/FAILED:', x)
for x in sorted(failed)[:20]:
    print('  failed:', x)
sys.exit(0 if not missing else 1)
