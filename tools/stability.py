import sys, json, subprocess, re, os
sys.path.insert(0,'/verif/lib')
import verus_route as V
units=sys.argv[1:]
for u in units:
    r=V.run_unit(u,'/repo')
    fed='/var/tmp/nervus-verif/verus/%s.rs'%u
    tmpl=open('/verif/verus/%s.tmpl.rs'%u).read()
    m=re.search(r'^//@rlimit\s+(\d+)',tmpl,re.M); rl=int(m.group(1)) if m else 10
    worst={}
    for seed in (0,3,11):
        p=subprocess.run(['verus',fed,'--rlimit',str(rl),'--smt-option','smt.random_seed=%d'%seed,'--smt-option','sat.random_seed=%d'%seed,'--output-json','--time-expanded'],capture_output=True,text=True,cwd='/var/tmp/nervus-verif/verus')
        try: j=json.loads(p.stdout)
        except Exception as e: print(u,seed,'no json'); continue
        ok=j.get('verification-results',{}).get('success')
        for mm in j.get('times-ms',{}).get('smt',{}).get('smt-run-module-times',[]):
            for f in mm.get('function-breakdown',[]):
                k=f['function']; worst[k]=max(worst.get(k,0),f.get('rlimit',0))
                if not f.get('success',True): print('  FAIL',u,seed,k,f.get('rlimit'))
        print(u,'seed',seed,'success',ok)
    top=sorted(worst.items(),key=lambda x:-x[1])[:4]
    print(u,'limit',rl*3_000_000,[(k.split('::',1)[1],v) for k,v in top])
