#!/usr/bin/env python3
"""Print the markdown rows of DESIGN.md 9.3 from tools/seed_meta.INFO and seeded/<id>/detect.json."""
import json, os, re, sys
sys.path.insert(0, os.path.dirname(__file__))
from seed_meta import INFO, S
def key(s): p, n = s.split('-'); return (p, int(n))
rows = []
for sid in sorted(INFO, key=key):
    prop, change, needs = INFO[sid]
    f = os.path.join(S, sid, 'detect.json')
    if not os.path.exists(f):
        caught = '(not run)'
    else:
        d = json.load(open(f))
        if d['exit'] == 1:
            parts = []
            for r in d.get('replays', []):
                ob = r['obligation']
                if '.undecided' in ob:
                    parts.append('unit undecided -> native `%s`' % (r.get('witness') or '?'))
                elif 'witness_search' in ob:
                    parts.append('bounded stand-in `%s`' % ob.split('.')[-1])
                else:
                    w = r.get('witness')
                    parts.append('%s `%s`%s' % ('Verus' if r['backend'] == 'verus' else 'Kani', ob.split('.', 1)[1] if '.' in ob else ob,
                                                (' (input: native `%s`)' % w) if w and r.get('native_reproduced') else (' (counterexample replayed)' if r.get('native_reproduced') else '')))
            seen = []
            for p_ in parts:
                if p_ not in seen: seen.append(p_)
            caught = '; '.join(seen[:3]) + (' (+%d more)' % (len(seen) - 3) if len(seen) > 3 else '')
        elif d['exit'] == 2:
            caught = '**undecided** (exit 2): ' + ' '.join(d.get('stderr_tail', [])[-1:])[:160]
        else:
            caught = '**not caught**'
    rows.append('| %s | %s | %s | %s |' % (sid, change, needs, caught))
print('\n'.join(rows))
