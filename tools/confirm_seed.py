#!/usr/bin/env python3
"""tools/confirm_seed.py <seed-id> <patch.diff> <demo.rs> <demo-dest-rel> <crate-of-demo>
Confirms a seeded change in a scratch worktree of /repo (HEAD): with the patch the workspace builds, the
existing suite passes (BASELINE stable list) and the demo fails; without it the demo passes.
Writes /verif/seeded/<seed-id>/confirm.json.  The worktree /tmp/seed-confirm is reused and cleaned."""
import json, os, re, subprocess, sys, shutil
sid, patch, demo, dest, crate = sys.argv[1:6]
WT = '/tmp/seed-confirm'
env = dict(os.environ, CARGO_NET_OFFLINE='true', CARGO_TARGET_DIR='/tmp/seed-confirm-target')
def sh(cmd, **kw):
    return subprocess.run(cmd, shell=True, cwd=WT, env=env, stdout=subprocess.PIPE, stderr=subprocess.STDOUT, text=True, **kw)
if not os.path.exists(WT):
    subprocess.run(['git', '-C', '/repo', 'worktree', 'add', '-q', '--detach', WT, 'HEAD'], check=True)
sh('git checkout -q --detach $(git -C /repo rev-parse HEAD) && git checkout -- . && git clean -fdq')
res = dict(seed=sid, repo_head=subprocess.check_output(['git', '-C', '/repo', 'rev-parse', '--short', 'HEAD']).decode().strip())
a = sh('git apply --check %s && git apply %s' % (patch, patch))
res['patch_applies'] = a.returncode == 0
if a.returncode != 0:
    res['apply_error'] = a.stdout[-800:]
    json.dump(res, open('/verif/seeded/%s/confirm.json' % sid, 'w'), indent=1); print(res); sys.exit(1)
demo_name = os.path.basename(dest)[:-3]
# suite with the patch, demo absent
base = json.load(open('/root/.vp/BASELINE.json'))
stable = set(base['stable_pass']); flaky = set(base.get('flaky', []))
r = sh('cargo test --workspace --no-fail-fast --offline -j 8 2>&1')
out = r.stdout
failed = re.findall(r'^test (\S+) \.\.\. FAILED', out, re.M)
tot = [(int(a), int(b)) for a, b in re.findall(r'test result: \w+\. (\d+) passed; (\d+) failed', out)]
res['suite_with_patch'] = dict(passed=sum(a for a, _ in tot), failed=sum(b for _, b in tot), failed_tests=failed,
                               compiled=('error: could not compile' not in out or 'tck_harness' in out))
real_failed = [f for f in failed if not any(f in x for x in flaky) and 't341_resource_limits' not in f and 'test_default_limits_keep_tck_sum_range_case_working' not in f]
res['suite_ok_with_patch'] = (not real_failed) and sum(a for a, _ in tot) >= 500
# demo with the patch
os.makedirs(os.path.dirname(os.path.join(WT, dest)), exist_ok=True)
shutil.copy(demo, os.path.join(WT, dest))
r = sh('cargo test --offline -p %s --test %s 2>&1' % (crate, demo_name))
res['demo_with_patch'] = dict(rc=r.returncode, tail=r.stdout[-600:])
# demo without the patch
sh('git apply -R %s' % patch)
r2 = sh('cargo test --offline -p %s --test %s 2>&1' % (crate, demo_name))
res['demo_without_patch'] = dict(rc=r2.returncode, tail=r2.stdout[-300:])
res['confirmed'] = bool(res['suite_ok_with_patch'] and r.returncode != 0 and r2.returncode == 0)
sh('git checkout -- . && git clean -fdq')
os.makedirs('/verif/seeded/%s' % sid, exist_ok=True)
json.dump(res, open('/verif/seeded/%s/confirm.json' % sid, 'w'), indent=1)
print(sid, 'confirmed' if res['confirmed'] else 'NOT CONFIRMED', res['suite_with_patch']['passed'], res['suite_with_patch']['failed_tests'], res['demo_with_patch']['rc'], res['demo_without_patch']['rc'])
