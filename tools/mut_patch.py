#!/usr/bin/env python3
"""tools/mut_patch.py <unit> <patch.diff>: copy /repo to a scratch dir, apply a patch file, run one Verus unit (no lock, /repo untouched)."""
import sys, subprocess
unit, patch = sys.argv[1:3]
M = '/var/tmp/nervus-verif/mutp'
subprocess.run(['rsync', '-a', '--delete', '--exclude', 'target', '--exclude', '.git', (__import__('os').environ.get('MUT_BASE', '/repo').rstrip('/') + '/'), M + '/'], check=True)
subprocess.run(['patch', '-p1', '-s', '-d', M, '-i', patch], check=True)
r = subprocess.run(['python3', '/verif/lib/verus_route.py', unit, M], capture_output=True, text=True)
for ln in r.stdout.split('\n'):
    if ln.startswith(('status', 'verified', '  ERR')):
        print(ln[:260])
