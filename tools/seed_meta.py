#!/usr/bin/env python3
"""Compose /verif/seeded/<id>/meta.json from confirm.json (tools/confirm_seed.py), detect.json (tools/try_seed.py)
and the table below (what each change is and what it needs in order to manifest)."""
import json, os
S = '/verif/seeded'
INFO = {
 'C17-1': ('C17', 'Wal::replay_committed_from_path no longer clears `pending` at BeginTx', 'a log tail holding BeginTx + at least one complete op and no CommitTx (crash in the middle of commit), then a later committed transaction and a reopen: the aborted ops surface inside the later transaction'),
 'C17-2': ('C17', 'Wal::append locates the end of the log with a frame scan that does not decode bodies (two cooperating sites: replay stops at an undecodable body, the append scan does not)', 'a zero-filled tail of >= 8 bytes (len 0, crc 0 is a well-framed empty record), then reopen, commit, reopen: the commit is written behind the zeros and lost'),
 'C25-1': ('C25', 'PropertyValue::decode_recursive rejects maps early with count * 6 > remaining (assumes an entry is >= 6 bytes)', 'a map whose entries are all 5 or 6 bytes and include the empty key with a Null value, with nothing after the map: decode(encode(v)) is Err'),
 'C25-2': ('C25', 'WalRecord::decode_body drops the first length guard of the ManifestSwitch arm', 'a checksummed frame with tag 9 and a body of 1..12 bytes: slice index panic instead of end-of-log'),
 'C27-1': ('C27', 'branchless float key transform with shift 62 instead of 63', 'two floats that are 1-ULP neighbours differing in the lowest mantissa bit, in [2.0, inf) or (-2.0, 0): order inverted'),
 'C27-2': ('C27', 'string/blob terminator shortened from 00 00 to 00', 'a value with an embedded NUL exactly where another indexed value ends: one key is a proper prefix of the other'),
 'C17-3': ('C17', 'WalReader::next_record bounds the whole frame (8 + len) by MAX_WAL_RECORD_LEN instead of the body', 'a completely written record whose body is within 8 bytes of 1 MiB (e.g. a label name of ~1 MiB): replay stops in front of it, later commits are lost'),
 'C17-4': ('C17', 'Wal::append cuts the tail with set_len but no longer seeks to the new end', 'the first append through a handle on a log that has any bytes behind the last complete record: the record is written behind a zero gap'),
 'C17-5': ('C17', 'replay_committed_from_path rejects a BeginTx that repeats the txid of the open transaction', 'a crash in the middle of a commit followed by a successful commit (the engine reuses the txid): every later open fails'),
 'C25-3': ('C25', 'PropertyValue::encode normalises -0.0 to +0.0', 'Float(-0.0): sign bit lost in the round trip (invisible to ==)'),
 'C25-4': ('C25', 'decode_recursive Int/Float/DateTime arms share a helper whose guard forgets the tag byte', 'exactly 8 bytes left where a tag 2/3/5 value starts: slice index panic'),
 'C25-5': ('C25', 'WalRecord::record_type groups AddNodeLabel | RemoveNodeLabel => 16', 'a RemoveNodeLabel record: replays as AddNodeLabel'),
 'C25-6': ('C25', 'read_u64 accepts payloads longer than 8 bytes but still unwraps try_into', 'a checksummed frame of type 1, 2 or 4 with 9 or more payload bytes: panic in replay'),
 'C26-1': ('C26', 'internal_child_for_key breaks out of its binary search on an equal separator', 'two or more equal separators in one internal page (a run of equal keys over three or more leaves): descent lands in the middle of the run'),
 'C26-2': ('C26', 'shared helper insert_slot bumps the cell count before shifting the slots', 'a page that ends up exactly full: the shift writes two bytes past the slot array into the new cell'),
 'C26-3': ('C26', 'cursor_lower_bound hops at most once to the right sibling', 'an empty leaf right of the landing leaf (or two in a row): the cursor is invalid although larger entries exist'),
 'C26-4': ('C26', 'fast path for an insert at the end of a full leaf starts a one-entry right leaf whose right sibling link is never set', 'an insert at the end of a full leaf that is not the last leaf: the sibling chain is cut, scans lose everything to the right'),
 'C26-5': ('C26', 'leaf split arm finds the slot of the new entry with binary_search_by(..).unwrap_or_else(|i| i) instead of partition_point', 'an insert of a key that already occurs at least twice in its leaf and that overflows the leaf: the new entry lands inside the run of equal keys, a lookup returns an older payload'),
 'C26-6': ('C26', 'internal split promotes right_keys[0] instead of keys[mid] (keys[mid] is dropped)', 'an internal node split, then an operation on a key between keys[mid] and keys[mid+1] that is not the first entry of its leaf: lookup lands on another key, delete reports absent'),
 'C26-7': ('C26', 'append fast path in the leaf split arm: a new entry behind everything in a full leaf starts a fresh leaf with right sibling 0', 'a split of a leaf that is not the rightmost by a key that lands exactly at its end: the rest of the sibling chain is unreachable to scans'),
 'C27-3': ('C27', 'float zero normalisation by magnitude (|f| < EPSILON encodes as +0.0)', 'floats smaller than 2^-52 in magnitude: order and distinctness lost'),
 'C27-4': ('C27', 'escape bytes swapped through shared constants (00 -> FF 00)', 'values with an embedded 0x00 against values with a non-zero byte there; blobs lose prefix-freedom'),
 'C18-4': ('C18', 'allocate_page skips ensure_allocated (and its meta/bitmap flush) for pages taken from a hole', 'free, reuse, close without a further flush, reopen: the on-disk bitmap says free, the next allocation overwrites the page'),
 'C18-5': ('C18', 'make_room_for_next_record sizes the run as len / 512 + 1 and uses that for the copy and free loops too', 'a relocation: the neighbouring structure page that blocked the table is freed as well and later reused'),
 'C20-4': ('C20', 'order_compare_non_null: the is_nan() guards of the Int-vs-Float arms become is_finite() plus a sign test', 'a NaN next to an Int in the sort key: NaN sorts below integers as the left operand and above them as the right one, the result depends on input order'),
 'C20-5': ('C20', 'execute_order_by tests `val_a == val_b` (structural) before order_compare and no longer continues on Equal', 'sort keys equal in the Cypher order but not structurally (1 and 1.0) with a second sort item: the later items are ignored, SKIP/LIMIT slice the wrong rows'),
 'C23-4': ('C23', 'AND truth table tidied into a compact form that loses the (false, _) row', '`false AND null` (in RETURN, under NOT, in De Morgan / commutativity checks): null instead of false'),
 'C23-5': ('C23', 'numeric_binop tests the exact result with unsigned_abs() <= i64::MAX', 'an exact +, - or * result of exactly i64::MIN: returned as Float although representable'),
 'C28-4': ('C28', 'BTree::mark_reachable_pages no longer queues the right child of every separator cell (only right sibling and leftmost child)', 'a B-tree with an internal page below the root (three levels): non-leftmost internal pages are dropped by the vacuum'),
 'C28-5': ('C28', 'node-table range in vacuum::mark_reachable_pages becomes 0..=len/512', 'a node count that is a non-zero multiple of 512: one page past the table is marked and the copy fails with PageNotAllocated'),
 'C28-6': ('C28', 'write_vacuum_copy copies runs of consecutive pages in chunks of 128 but computes the file offset once per run', 'more than 128 live pages with consecutive ids: pages beyond the 128th of a run come back as zero pages'),
 'C17-6': ('C17', 'replay_committed_from_path: the BeginTx arm no longer clears `pending` (same idea as C17-1, written independently in round 3)', 'a log that ends inside a transaction after at least one complete op record, then a new commit and a second reopen: the cut ops are replayed as part of the new transaction'),
 'C17-7': ('C17', 'Wal::append assembles the record in one buffer and no longer cuts the tail with set_len', 'a checksum flip in a transaction that is not the last one, then a new commit of the same byte length and a second reopen: the reader runs on into the old records and resurrects discarded transactions'),
 'C18-6': ('C18', 'ensure_allocated returns early (no meta/bitmap flush) for any page below next_page_id; allocate_page no longer bumps next_page_id itself', 'a freed page handed out again as the last bitmap change before close, then reopen: the page reads as free and gets a second owner'),
 'C18-7': ('C18', 'csr::write_blob_pages allocates only the first page of an array and takes previous + 1 for the rest (ensure_allocated)', 'the first page falls into a hole that is followed by a page of another structure and the array needs more than one page: the neighbour is overwritten'),
 'C25-7': ('C25', 'map arm of decode_recursive works on &bytes[5..] with pos from 0 but still returns pos as the bytes consumed (5 too few)', 'a map nested in a list or map and not the last thing in its parent: [{}, 1] decodes to [{}, {}]'),
 'C25-8': ('C25', 'ManifestSwitch arm of decode_body computes 12 + count * 16 in u32 before widening', 'a crafted type-9 record with a valid CRC and a count >= 2^28: multiply overflow panic (debug) or wrap-around, 4 GiB reservation and out-of-bounds slice (release)'),
 'C27-5': ('C27', 'float zero normalisation becomes f.abs() < f64::MIN_POSITIVE', 'subnormal floats: every subnormal gets the key of 0.0, order and equality lost'),
 'C27-6': ('C27', 'encode_index_key appends the node id with to_le_bytes', 'two entries of the same index and value with a node id >= 256: entries of one value are no longer ordered by node id (value order, equality and prefix-freedom - the stated property - still hold; kept because the composite key format is now under contract)'),
 'C20-6': ('C20', 'execute_order_by resolves the sort direction once, from the first sort item, and applies it to every key', 'two or more sort keys whose directions differ and rows that tie on the earlier keys: the later key is sorted in the direction of the first'),
 'C20-7': ('C20', 'compare_lists_ordering returns the length comparison first whenever two lists differ in length', 'list-valued sort keys of different lengths where the shorter is not a prefix of the longer: [2] sorts before [1, 2]'),
 'C23-6': ('C23', 'cypher_equals compares two Floats with total_cmp after the NaN guard', '0.0 = -0.0 (both Float): false although <= and >= are both true; = is no longer transitive through Int 0'),
 'C23-7': ('C23', 'the Negate arm of evaluate_expression_value returns null instead of the Float fallback when the operand is i64::MIN', 'unary minus applied to an Int that evaluates to exactly i64::MIN: -m is null while 0 - m and m * -1 are 9.223372036854775808e18'),
 'C28-7': ('C28', 'BTree::mark_reachable_pages marks the right sibling of a leaf directly instead of queueing it; the already-marked guard then skips its payloads', 'a payload-carrying tree with more than one leaf (property store with more than ~350 properties): blob chains behind every second leaf are dropped'),
 'C28-8': ('C28', 'vacuum::mark_reachable_pages shares one payload buffer between the catalog loop and the property-store walk and forgets to clear it', 'a stored vector, properties_root != 0 and no index name sorting after __sys_hnsw_vec: the vacuum fails with cycle detected in blob chain'),
 'C28-9': ('C28', 'scan_wal_roots stops at the first transaction that carries a manifest (scanning from the oldest)', 'two or more manifest records in the WAL (two compactions since the last checkpoint rewrite): newer segments and the current statistics blob are dropped, open fails'),
 'C18-1': ('C18', 'Pager keeps an in-memory free list that allocate_page pops before scanning the bitmap; ensure_allocated never removes from it', 'a page is freed, the node table (length a multiple of 512) grows in place into it, then another structure allocates: allocate_page returns an allocated page'),
 'C18-2': ('C18', 'make_room_for_next_record updates self.i2e_start itself and returns (); the caller keeps writing at the start page it read before the call (two cooperating sites)', 'a relocation of the node table (length a non-zero multiple of 512 and the next page taken): record 512 is written into the neighbouring structure\'s page'),
 'C18-3': ('C18', 'BlobStore::write_direct lays the chain out front to back at first, first+1, ... instead of at the pages it allocated', 'a blob longer than one page whose first page is a hole with an allocated right-hand neighbour'),
 'C20-1': ('C20', 'compare_f64_with_nan replaced by f64::total_cmp', 'a NaN with the sign bit set (what 0.0/0.0 produces on x86) or -0.0 next to 0.0 and Int 0: NaN sorts first, comparator inconsistent with Int/Float'),
 'C20-2': ('C20', 'node_key truncates ExternalId to u32', 'an ExternalId above u32::MAX ordered next to other node identities: a consistent but wrong total preorder'),
 'C20-3': ('C20', 'execute_order_by settles null keys before applying the direction', 'a DESC sort key with some null rows: nulls stay last instead of first; SKIP/LIMIT windows shift'),
 'C23-1': ('C23', 'compare_i64_f64 fast path `(i as f64).partial_cmp(&f)` for |f| <= 2^53 (inclusive)', 'Int +-9007199254740993 against Float +-9007199254740992.0: equality no longer transitive, > wrong'),
 'C23-2': ('C23', 'numeric_mod uses checked_rem with a float fallback', 'i64::MIN % -1: Float(-0.0) instead of Int(0)'),
 'C23-3': ('C23', 'cypher_equals_sequence returns the first element result that is not true', 'a null element pair before a definitely unequal pair: [null, 1] = [null, 2] is null instead of false'),
 'C28-1': ('C28', 'mark_csr_segment_pages reads the fourth page count from offset 72 again instead of 76', 'a compacted segment whose incoming-edge list has more pages than its incoming-offsets list (> 1024 edges): trailing pages not marked, next open fails'),
 'C28-2': ('C28', 'mark_reachable_pages marks the statistics root with a plain insert instead of walking the blob chain', 'a statistics blob longer than one page (> ~680 labels + relationship types): tail pages dropped, counts read as 0'),
 'C28-3': ('C28', 'write_vacuum_copy sets next_page_id = 2 + copied pages instead of max reachable + 1', 'a database compacted several times (holes below the highest live page) and writes after the vacuum: allocate_page hands out live pages'),
}
def main():
    for sid, (prop, what, needs) in sorted(INFO.items()):
        d = os.path.join(S, sid)
        if not os.path.isdir(d):
            continue
        conf = json.load(open(os.path.join(d, 'confirm.json'))) if os.path.exists(os.path.join(d, 'confirm.json')) else None
        det = json.load(open(os.path.join(d, 'detect.json'))) if os.path.exists(os.path.join(d, 'detect.json')) else None
        meta = dict(id=sid, breaks_property=prop, change=what, needs_to_manifest=needs,
                    written_by='fresh sub-agent given only the property text and its own scratch worktree of /repo (nothing from /verif)',
                    confirmed=dict(how='tools/confirm_seed.py in scratch worktree /tmp/seed-confirm (removed afterwards): git apply patch.diff; cargo test --workspace --no-fail-fast --offline (suite must pass apart from the timing-flaky t341 test); cargo test --test <demo> must fail; git apply -R; the demo must pass',
                                   result=conf),
                    detection=dict(how='tools/try_seed.py: git -C /repo apply patch.diff; ./check %s --tier quick --no-evidence; git -C /repo checkout -- .' % prop, result=det))
        json.dump(meta, open(os.path.join(d, 'meta.json'), 'w'), indent=1)
        st = 'n/a' if det is None else ('DETECTED' if det['exit'] == 1 else ('undecided' if det['exit'] == 2 else 'missed'))
        print(sid, prop, 'confirmed' if conf and conf.get('confirmed') else 'unconfirmed', st, (det or {}).get('replays', [{}])[0].get('obligation', '') if det and det.get('replays') else '')


if __name__ == '__main__':
    main()
