#!/usr/bin/env python3
"""tools/try_seed.py <seed-id> <PROP> [tier]: apply /verif/seeded/<seed-id>/patch.diff to /repo, run ./check PROP,
undo the patch straight afterwards, and record what the check said in /verif/seeded/<seed-id>/detect.json."""
import json, os, subprocess, sys, time
sid, prop = sys.argv[1:3]
tier = sys.argv[3] if len(sys.argv) > 3 else 'quick'
patch = '/verif/seeded/%s/patch.diff' % sid
assert subprocess.run(['git', '-C', '/repo', 'status', '--porcelain'], capture_output=True, text=True).stdout.strip() == '', '/repo not clean'
subprocess.run(['git', '-C', '/repo', 'apply', patch], check=True)
t0 = time.time()
try:
    r = subprocess.run(['./check', prop, '--tier', tier, '--no-evidence'], cwd='/verif', capture_output=True, text=True)
finally:
    subprocess.run(['git', '-C', '/repo', 'checkout', '--', '.'], check=True)
viol = [l for l in r.stdout.split('\n') if l.startswith('VIOLATION')]
res = dict(seed=sid, property=prop, tier=tier, exit=r.returncode, violations=viol, wall_s=round(time.time() - t0, 1),
           stderr_tail=[l[:300] for l in r.stderr.strip().split('\n')[-12:]])
for v in viol[:2]:
    rp = v.split('replay=')[1].split()[0]
    try:
        d = json.load(open(rp))
        res.setdefault('replays', []).append(dict(obligation=d['obligation'], backend=d['backend'], verifier_output=d['verifier_output'][:400],
                                                  witness=(d.get('witness') or {}).get('native_scenario') or ((d.get('witness') or {}).get('harness')),
                                                  native_reproduced=(d.get('native_replay') or {}).get('reproduced')))
    except Exception as e:
        res.setdefault('replays', []).append(dict(error=str(e)))
json.dump(res, open('/verif/seeded/%s/detect.json' % sid, 'w'), indent=1)
print(sid, prop, 'exit', r.returncode, '|', ' ; '.join(viol)[:300])
for l in res['stderr_tail'][-6:]:
    print('   ', l[:200])
